"""Contracts for Optimize.c::PyFloatBinop (C06 / C02: object arithmetic and comparison with a float constant).

Subjects: __Pyx_PyFloat_<Op>ObjC / <Op>CObj as found in the C the working-tree compiler generates for `x + 1.5`,
`1.5 - x`, `x / 1.5`, `x == 1.5`, ... (module route).  Contract (object model of dv/pyobj.py), for the constant passed
consistently as object and as C double:
  * the variable operand is an exact float f:  the result is the exact float  f <op> c  computed by the IEEE-754 binary64
    operation (what CPython's float_add / float_sub / float_div do), resp. Py_True / Py_False for the IEEE comparison;
    a zero divisor raises ZeroDivisionError (`c / x`);
  * the variable operand is an exact int n: the same with f = the double nearest to n - taken on the fast path ONLY when
    that conversion is exact (|n| < 2**53); otherwise the conversion is CPython's own (PyLong_AsDouble), or the
    comparison is CPython's own float.__eq__;
  * any other operand: CPython's own PyNumber_* / PyObject_RichCompare.
IEEE operations and the int -> double conversion are uninterpreted functions shared by subject and specification
(`fp_abstract`): what is decided is which operation is applied to which operands in which order, the exactness guard of the
int path, the sign handling, the zero-division test and the fall-backs - not the rounding of the FPU.
"""
import z3

from dv.spec import And, Or, Not, Implies, If
from dv.cunit import CUnit
from dv.l3 import compiled, ERRS
from dv import pyobj as O
from dv import cextract
from dv.cfe import i2d, fp_op

SERVES = ("C06", "C02", "C36")

PYX = """# cython: language_level=3
def add(x): return x + 1.5
def sub(x): return x - 1.5
def div(x): return x / 1.5
def eq(x): return x == 1.5
def ne(x): return x != 1.5
def radd(x): return 1.5 + x
def rsub(x): return 1.5 - x
def rdiv(x): return 1.5 / x
def mod(x): return x % 1.5
def rmod(x): return 1.5 % x
"""


def _tu():
    return compiled(PYX, None, "dvfbinop"), "module route: `x <op> 1.5` / `1.5 <op> x` on objects, compiled by the working-tree compiler"


F64 = z3.Float64()
from dv.cfe import nearest_fp  # noqa: E402


def I2D(t):
    """the double nearest to the int t (the definition shared with the C front end's int -> double casts)"""
    return nearest_fp(t, 64)
ARITH = {"Add": "+", "Subtract": "-", "TrueDivide": "/", "Remainder": "%"}


def float_rem(a, b):
    """CPython's float_rem on the doubles: the shared `fmod64` symbol (C11 clauses in dv/cfe.py), the divisor added when the signs differ
    (the shared IEEE addition symbol), a zero remainder with the divisor's sign"""
    mod = z3.Function("fmod64", F64, F64, F64)(a, b)
    zero = z3.FPVal(0.0, F64)
    adjusted = If(z3.fpLT(b, zero) != z3.fpLT(mod, zero), fp_op("+", 64)(mod, b), mod)
    return If(Not(z3.fpIsZero(mod)), adjusted, If(z3.fpIsNegative(b), z3.FPVal(-0.0, F64), zero))


def _as_double(e, x):
    """the double the variable operand stands for: its value (float), or the double nearest to it (int)"""
    return If(O.is_float(x), O.fval(x), I2D(O.intval(x)))


def _arith_post(op, order):
    var = "op1" if order == "ObjC" else "op2"

    def post(e):
        x = getattr(e, var)
        r = e.result_id
        numeric = Or(O.is_float(x), O.is_long(x))
        xd = _as_double(e, x)
        c = e.floatval
        a, b = (xd, c) if order == "ObjC" else (c, xd)
        zero_div = And(order == "CObj", numeric, z3.fpIsZero(xd)) if (op in ("TrueDivide", "Remainder") and order == "CObj") else z3.BoolVal(False)
        if e.result_null:
            # NULL: ZeroDivisionError for `c / 0`, or an error raised by CPython's own conversion of a huge int
            return Or(And(zero_div, e.err == ERRS["ZeroDivisionError"], e.zerodivision_check != 0),
                      And(O.is_long(x), Not(O.is_float(x)), e.err != 0))
        if r is None:
            return False
        want = float_rem(a, b) if op == "Remainder" else fp_op(ARITH[op], 64)(a, b)
        fast = And(numeric, Not(And(zero_div, e.zerodivision_check != 0)), O.is_float(r), O.fval(r) == want)
        deleg = And(Not(numeric), O.generic(z3.IntVal(O.OPCODES[{"Add": "add", "Subtract": "sub", "TrueDivide": "truediv", "Remainder": "mod"}[op]]),
                                            e.op1, e.op2, z3.IntVal(0), r))
        return Or(fast, deleg)
    return post


def _cmp_post(op):
    want_eq = op == "Eq"

    def post(e):
        r = e.result
        obj = getattr(r, "obj", None)
        x = e.op1
        if obj in ("global:_Py_TrueStruct", "global:_Py_FalseStruct"):
            says_equal = (obj == "global:_Py_TrueStruct") == want_eq
            exact_int = And(O.is_long(x), O.intval(x) > -(2 ** 53), O.intval(x) < 2 ** 53)
            return And(e.err == 0, Or(x == e.op2, O.is_float(x), exact_int),
                       Implies(x == e.op2, says_equal),
                       Implies(And(x != e.op2, O.is_float(x)), z3.fpEQ(O.fval(x), e.floatval) == says_equal),
                       Implies(And(x != e.op2, Not(O.is_float(x))), z3.fpEQ(I2D(O.intval(x)), e.floatval) == says_equal))
        if obj == "pyobj":
            # delegated: CPython's float.__eq__(c, x) for huge ints, PyObject_RichCompare otherwise
            return And(x != e.op2, Not(O.is_float(x)))
        return False
    return post


def _requires(var, other):
    from dv.cfe import i2d_facts
    return [("ASSUMED facts about the int -> double conversion, instantiated for the operand's value (see dv/cfe.py i2d_facts)",
             lambda e: i2d_facts(O.intval(getattr(e, var)))),
            ("the constant is passed consistently as object and as C double (call site)",
             lambda e: And(O.is_float(getattr(e, other)), O.fval(getattr(e, other)) == e.floatval)),
            ("the constant is a finite float literal", lambda e: And(Not(z3.fpIsNaN(e.floatval)), Not(z3.fpIsInf(e.floatval)))),
            ("an object has one exact type", lambda e: Not(And(O.is_float(getattr(e, var)), O.is_long(getattr(e, var))))),
            ("flags are 0/1", lambda e: And(Or(e.inplace == 0, e.inplace == 1), Or(e.zerodivision_check == 0, e.zerodivision_check == 1)))]


def _native(model, ob=None):
    import os
    import subprocess
    ctext, cfile = cextract.compile_pyx(PYX, name="dvfbinoprep")
    d = os.path.dirname(cfile)
    so = os.path.join(d, "dvfbinoprep.so")
    p = subprocess.run(["clang", "-shared", "-fPIC", "-O0", "-w", "-I" + cextract.PY_INCLUDE, cfile, "-o", so], capture_output=True, text=True)
    if p.returncode != 0:
        return {"confirmed": False, "note": "build failed " + p.stderr[-300:]}
    code = r'''
import sys, math; sys.path.insert(0, %r); import dvfbinoprep as m
fs = {"mod": lambda x: x %% 1.5, "rmod": lambda x: 1.5 %% x, "add": lambda x: x + 1.5, "sub": lambda x: x - 1.5, "div": lambda x: x / 1.5, "eq": lambda x: x == 1.5, "ne": lambda x: x != 1.5,
      "radd": lambda x: 1.5 + x, "rsub": lambda x: 1.5 - x, "rdiv": lambda x: 1.5 / x}
vals = [0.0, -0.0, 1.5, -1.5, 1e308, -1e308, 5e-324, float("inf"), float("-inf"), float("nan"), 0, 1, -1, 3, 2**30, -2**30, 2**52 + 1,
        2**53 - 1, 2**53, 2**53 + 1, -(2**53) - 1, 2**60 + 1, 2**62 + 3, 2**64 + 1, 2**90 + 1, -2**90 - 1, 2**1100, True, "a", None, 1.5]
def run(f, v):
    try: r = f(v)
    except Exception as e: return ("exc", type(e).__name__)
    return ("ok", type(r).__name__, repr(r))
bad = [(n, v) for n, f in fs.items() for v in vals if run(getattr(m, n), v) != run(f, v)]
print(bad[:5])
''' % d
    r = subprocess.run(["/venv/bin/python", "-c", code], capture_output=True, text=True, timeout=120)
    out = r.stdout.strip()
    return {"inputs": "floats (zeros, extremes, inf, nan), ints around 2**53 and at digit boundaries, other objects; every operator of the catalogue",
            "actual": out or r.stderr[-400:], "confirmed": out != "[]",
            "how": "catalogue module built from the working tree; type and repr of every result compared with CPython", "obligation": getattr(ob, "name", None)}


def units(tier):
    us = []
    props = {"C06": None, "C02": None, "C36": ["ub", "pre", "subset"]}
    for op in ARITH:
        for order in ("ObjC", "CObj"):
            fname = "__Pyx_PyFloat_%s%s" % (op, order)
            var, other = ("op1", "op2") if order == "ObjC" else ("op2", "op1")
            u = CUnit("Optimize.PyFloatBinop.%s%s" % (op, order), props, fname, _tu, filt=fname, pyobjs=("op1", "op2"),
                      requires=_requires(var, other),
                      ensures=[("float or exactly convertible int operand: the exact float `a %s b` on the doubles (ZeroDivisionError for a zero "
                                "divisor); huge int: CPython's own conversion; anything else: CPython's own PyNumber function" % ARITH[op],
                                _arith_post(op, order))],
                      options={"inline": ("*",), "merge": False, "fp_abstract": True},
                      subject={"file": "Cython/Utility/Optimize.c", "template": "PyFloatBinop", "instantiation": op + order})
            u.exec_cls = O.CExecPyObj
            u.err_ghost = True
            u.replay = _native
            u.concrete_search = lambda ob, regions=(): _native({}, ob)
            us.append(u)
    for op in ("Eq", "Ne"):
        fname = "__Pyx_PyFloat_%sObjC" % op
        u = CUnit("Optimize.PyFloatBinop.%sObjC" % op, props, fname, _tu, filt=fname, pyobjs=("op1", "op2"),
                  requires=_requires("op1", "op2"),
                  ensures=[("x %s c: IEEE comparison for floats and exactly convertible ints, identical object equal, otherwise CPython's own comparison"
                            % ("==" if op == "Eq" else "!="), _cmp_post(op))],
                  options={"inline": ("*",), "merge": False, "fp_abstract": True},
                  subject={"file": "Cython/Utility/Optimize.c", "template": "PyFloatBinop", "instantiation": op + "ObjC"})
        u.exec_cls = O.CExecPyObj
        u.err_ghost = True
        u.replay = _native
        u.concrete_search = lambda ob, regions=(): _native({}, ob)
        us.append(u)
    return us


REGIONS = {}
