"""L3 catalogue for C13: builtin calls on C integers that the compiler replaces with specialised C code
(Optimize.OptimizeBuiltinCalls / EarlyReplaceBuiltinCalls: abs, min / max with 2..4 arguments of mixed C types and
constants, bool(), int() of C integers).

Subject: the C function the working-tree compiler generates for each catalogue function.  Contract, from the statement
("the same result and exception as the original call for every argument value"): for ALL argument values the C function
returns what Python's semantics give the same source text (dv/pyref.py evaluates the catalogue's own ast: abs, min, max,
bool, int on unbounded ints), with no exception - the declared result types are wide enough for every result except
abs() of the most negative value, which is the recorded finding.
"""
from dv.spec import And, Or, Not
from dv.l3 import L3Unit
from dv import pyref

SERVES = ("C13", "C36")

CATALOGUE = """# cython: language_level=3
cdef long abs_int(int x) except? -1:
    return abs(x)

cdef long long abs_long(long x) except? -1:
    return abs(x)

cdef long min2(int a, int b) except? -1:
    return min(a, b)

cdef long max2(int a, int b) except? -1:
    return max(a, b)

cdef long max3(int a, long b, int c) except? -1:
    return max(a, b, c)

cdef long min3c(int a, int b) except? -1:
    return min(a, 5, b, -3)

cdef long minmax(int a, int b, int c) except? -1:
    return max(min(a, b), min(b, c), 0)

cdef long clamp(long x, long lo, long hi) except? -1:
    return max(lo, min(x, hi))

cdef int truth(int x) except? -1:
    return bool(x)

cdef int truth2(long x, long y) except? -1:
    if bool(x) and not bool(y):
        return 1
    return 0

cdef long absdiff(int a, int b) except? -1:
    cdef long d = a
    d = d - b
    return abs(d)
"""

FUNCS = ["abs_int", "abs_long", "min2", "max2", "max3", "min3c", "minmax", "clamp", "truth", "truth2", "absdiff"]


def _ensures(name):
    params, f, _src = pyref.spec_of(CATALOGUE, name)

    def post(e):
        return And(e.err == 0, e.result == f(*[getattr(e, p) for p in params]))
    return [("no exception and the result is the value Python's semantics give the catalogue source (dv/pyref.py)", post)]


def units(tier):
    us = []
    props = {"C13": None, "C36": ["ub", "pre"]}
    for name in FUNCS:
        us.append(L3Unit("L3builtin.%s" % name, props, CATALOGUE, name, ensures=_ensures(name),
                         subject={"mechanism": "Optimize.OptimizeBuiltinCalls / EarlyReplaceBuiltinCalls (abs, min, max, bool on C integers)"}))
    return us


def _abs_of_min(e):
    """abs() applied to the most negative value of its C operand type"""
    x = e.get("x") if hasattr(e, "get") else getattr(e, "x", None)
    t = (e.types or {}).get("x") if hasattr(e, "types") else None
    if x is None or t is None:
        return False
    return x == t.min


REGIONS = {"abs_of_most_negative": _abs_of_min}


def side_checks(prop, tier, seed, kf_entries):
    import itertools
    import random
    rnd = random.Random(seed + 13)
    grid = [-2 ** 31, -2 ** 31 + 1, -32768, -6, -5, -4, -3, -1, 0, 1, 3, 5, 6, 32767, 2 ** 31 - 1]
    bad, n, first = 0, 0, None
    for name in FUNCS:
        params, f, src = pyref.spec_of(CATALOGUE, name)
        ns = {}
        exec(compile(src, "<catalogue>", "exec"), ns)
        ref = ns[name]
        for c in itertools.product(grid, repeat=len(params)):
            n += 1
            if int(f(*c)) != int(ref(*c)):
                bad += 1
                first = first or (name, c, f(*c), ref(*c))
    out = [{"kind": "spec-validation", "name": "dv/pyref.py evaluation of the catalogue source vs CPython exec of the same source",
            "cases": n, "disagree": bad}]
    if bad:
        out.append({"kind": "side-check-failure", "name": "pyref-validation", "text": repr(first)})
    for k in kf_entries:
        if k.get("region_id") != "abs_of_most_negative":
            continue
        u = [x for x in units("quick") if x.uid == "L3builtin.abs_int"][0]
        u._param_names()
        try:
            r = u.run_native({"x": -2 ** 31}, sanitize=False)
        except Exception as ex:         # pragma: no cover
            r = {"error": repr(ex)}
        still = r.get("result") is not None and r.get("result") != 2 ** 31 or r.get("err") not in (None, 0)
        out.append({"kind": "known-finding-witness", "id": k["id"], "text": k["text"], "still_fails": bool(still), "detail": r})
    return out
