"""Lemmas behind the rewrite idioms of the C front end (dv/cfe.py: bitop, msb, shift, unary ~).

The front end models C integers as mathematical integers and rewrites a few bit operations into
integer formulas.  Each rewrite is proved here in the theory of bit-vectors at widths 8/16/32/64
(the integer side is transcribed to bit-vector arithmetic, which is exact because none of the
right-hand sides can overflow at the stated width: floor-mod by a positive constant == bvsmod /
bvurem, +1 on an even value, -x-1).  Run as part of every C check: no rewrite rule is trusted.
"""
import z3
from dv.lemma import LemmaUnit

SERVES = ("C02", "C03", "C04", "C05", "C07", "C12", "C13", "C15", "C16", "C18", "C36", "C39")


def _lemmas():
    out = []
    for w in (8, 16, 32, 64):
        x, y = z3.BitVecs("x y", w)
        one, zero = z3.BitVecVal(1, w), z3.BitVecVal(0, w)
        msb = lambda v: z3.Extract(w - 1, w - 1, v) == 1  # noqa: E731
        for k in (1, 3, w - 1):
            m = z3.BitVecVal((1 << k) - 1, w)
            p = z3.BitVecVal(1 << k, w) if k < w - 1 else None
            if p is not None:
                out.append(("and-mask-is-floor-mod[signed,w=%d,k=%d]" % (w, k), [], (x & m) == (x % p)))
            out.append(("and-mask-is-mod[unsigned,w=%d,k=%d]" % (w, k), [], (x & m) == z3.URem(x, z3.BitVecVal(1 << k, w))))
        out.append(("bit-and-v[w=%d]" % w, [z3.Or(y == 0, y == 1)], (y & x) == z3.If(y == 1, z3.URem(x, 2), zero)))
        out.append(("or-zero[w=%d]" % w, [], z3.And((x | zero) == x, (zero | x) == x)))
        out.append(("or-bit[w=%d]" % w, [z3.Or(y == 0, y == 1)],
                    (x | y) == z3.If(y == 1, z3.If(z3.URem(x, 2) == 0, x + 1, x), x)))
        out.append(("or-bit-no-carry[w=%d]" % w, [z3.URem(x, 2) == 0], z3.And(z3.ULT(x, x + 1), x + 1 > x)))
        out.append(("msb-xor[w=%d]" % w, [], msb(x ^ y) == z3.Xor(msb(x), msb(y))))
        out.append(("msb-and[w=%d]" % w, [], msb(x & y) == z3.And(msb(x), msb(y))))
        out.append(("msb-or[w=%d]" % w, [], msb(x | y) == z3.Or(msb(x), msb(y))))
        out.append(("msb-is-sign[w=%d]" % w, [], z3.And(msb(x) == (x < 0), msb(x) == z3.UGE(x, z3.BitVecVal(1 << (w - 1), w)))))
        out.append(("lshr-top-is-msb[w=%d]" % w, [], z3.LShR(x, w - 1) == z3.If(msb(x), one, zero)))
        out.append(("xor-sign-test[w=%d]" % w, [], ((x ^ y) < 0) == z3.Xor(x < 0, y < 0)))
        out.append(("not-is-neg-minus-1[w=%d]" % w, [], (~x) == (-x - 1)))
        out.append(("not-unsigned[w=%d]" % w, [], (~x) == (z3.BitVecVal((1 << w) - 1, w) - x)))
        out.append(("bool-ops[w=%d]" % w, [z3.Or(x == 0, x == 1), z3.Or(y == 0, y == 1)],
                    z3.And(((x & y) == 1) == z3.And(x == 1, y == 1), ((x | y) == 1) == z3.Or(x == 1, y == 1),
                           ((x ^ y) == 1) == z3.Xor(x == 1, y == 1),
                           z3.ULE(x & y, 1), z3.ULE(x | y, 1), z3.ULE(x ^ y, 1))))
        # general constant mask = sum over its runs of set bits: ((x >> lo) mod 2^len) << lo   (>> arithmetic or logical:
        # the runs lie below the sign bit)
        for c in ((0x60, 0x06) if w == 8 else (0x180, 0x7F80, 0x0F0F)):
            rs, k = zero, 0
            ru = zero
            while (1 << k) <= c:
                if c & (1 << k):
                    lo = k
                    while c & (1 << k):
                        k += 1
                    ln = k - lo
                    rs = rs + (z3.URem(x >> lo, z3.BitVecVal(1 << ln, w)) << lo)
                    ru = ru + (z3.URem(z3.LShR(x, lo), z3.BitVecVal(1 << ln, w)) << lo)
                else:
                    k += 1
            out.append(("and-mask-runs[w=%d,mask=%#x]" % (w, c), [], z3.And((x & c) == rs, (x & c) == ru)))
        for k in (1, 5, w - 2):
            out.append(("or-disjoint[w=%d,k=%d]" % (w, k), [z3.URem(x, z3.BitVecVal(1 << k, w)) == 0, z3.ULT(y, z3.BitVecVal(1 << k, w))],
                        z3.And((x | y) == x + y, z3.UGE(x + y, x))))
        for k in (1, w - 2):    # 2^k must be a positive signed value at this width
            out.append(("ashr-is-floor-div[w=%d,k=%d]" % (w, k), [],
                        (x >> k) == z3.If((x % (1 << k)) == 0, x / (1 << k),
                                          z3.If(x < 0, x / (1 << k) - 1, x / (1 << k)))))
    return out


def units(tier):
    props = {p: None for p in SERVES}
    return [LemmaUnit("Idioms.bitops", props, _lemmas,
                      subject={"file": "/verif/dv/cfe.py", "function": "rewrite idioms (bitop, msb, shift, ~)"})]
