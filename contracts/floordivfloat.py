"""Contract for CMath.c::FloorDivFloat and its use by DivNode (C06: `//` on C doubles matches CPython; float half of C03).

Spec: CPython's float_floor_div / _float_div_mod (Objects/floatobject.c), transcribed once (dual mode):
    mod = fmod(vx, wx); div = (vx - mod) / wx
    if mod: if (wx < 0) != (mod < 0): div -= 1.0
    if div: floordiv = floor(div); if div - floordiv > 0.5: floordiv += 1.0
    else:   floordiv = copysign(0.0, vx / wx)
with the SAME uninterpreted `fmod` symbol as the subject.  Postcondition of the helper: bit-identical (up to NaN payload)
to that value for ALL doubles a and all b != 0 (a zero divisor raises ZeroDivisionError before the helper is called).
L3: the function the working-tree compiler emits for `a // b` on C doubles raises ZeroDivisionError for b == 0 and otherwise
returns the helper's value (the helper is called through this contract) - and under cdivision=True C's floor(a / b).
"""
import math
import z3

from dv.spec import And, Or, Not, Implies
from dv.cunit import CUnit, Callee
from dv.l3 import L3Unit, ERR
from dv import cextract

SERVES = ("C06", "C03", "C36")
RNE = z3.RNE()


def _pt(tname):
    cextract.ensure_repo_on_path()
    from Cython.Compiler import PyrexTypes
    return getattr(PyrexTypes, tname)


def _tu(tname):
    def tu():
        t = _pt(tname)
        text = cextract.template_tu("#include <math.h>\n" + cextract.load_utility(
            "FloorDivFloat", "CMath.c", specialize_type=t, extra=dict(math_h_modifier=t.math_h_modifier)))
        return text, "template route: UtilityCode.load('FloorDivFloat', 'CMath.c').specialize(%s, math_h_modifier=%r) as DivNode does" % (tname, t.math_h_modifier)
    return tu


def floor_div_z3(a, b, bits):
    srt = z3.Float64() if bits == 64 else z3.Float32()
    fmod = z3.Function("fmod%d" % bits, srt, srt, srt)
    zero, one, half = z3.FPVal(0.0, srt), z3.FPVal(1.0, srt), z3.FPVal(0.5, srt)
    mod = fmod(a, b)
    div0 = z3.fpDiv(RNE, z3.fpSub(RNE, a, mod), b)
    truthy = lambda x: z3.Not(z3.fpEQ(x, zero))  # noqa: E731   (C `x != 0`, Python `if x:`: true for NaN)
    div = z3.If(z3.And(truthy(mod), z3.fpLT(b, zero) != z3.fpLT(mod, zero)), z3.fpSub(RNE, div0, one), div0)
    fl = z3.fpRoundToIntegral(z3.RTN(), div)
    fl2 = z3.If(z3.fpGT(z3.fpSub(RNE, div, fl), half), z3.fpAdd(RNE, fl, one), fl)
    q = z3.fpDiv(RNE, a, b)
    signed_zero = z3.If(z3.fpIsNegative(q), z3.FPVal(-0.0, srt), zero)
    return z3.If(truthy(div), fl2, signed_zero)


def floor_div_native(a, b):
    mod = math.fmod(a, b) if not (math.isinf(a) or math.isnan(a) or math.isnan(b)) else float("nan")
    div = (a - mod) / b
    if mod:
        if (b < 0) != (mod < 0):
            div -= 1.0
    if div:
        floordiv = math.floor(div) if not (math.isinf(div) or math.isnan(div)) else div
        floordiv = float(floordiv)
        if div - floordiv > 0.5:
            floordiv += 1.0
    else:
        floordiv = math.copysign(0.0, a / b)
    return floordiv


def _same(x, y):
    return (x == y and math.copysign(1, x) == math.copysign(1, y)) or (x != x and y != y)


def helper_callee(name, bits=64):
    return Callee(name, ["a", "b"], requires=[("b != 0 (the zero check comes first)", lambda e: Not(z3.fpIsZero(e.b)))],
                  ensures=[("CPython's float_floor_div", lambda e: e.result == floor_div_z3(e.a, e.b, bits))], result="float")


PYX = """# cython: language_level=3
cimport cython

cdef double fdiv(double a, double b) except? -1:
    return a // b

@cython.cdivision(True)
cdef double cfdiv(double a, double b) except? -1:
    return a // b

cdef double fdiv_c(double a) except? -1:
    return a // 0.1
"""


def units(tier):
    us = []
    for tname, bits in (("c_double_type", 64),) + ((("c_float_type", 32),) if tier != "quick" else ()):
        t = _pt(tname)
        u = CUnit("CMath.FloorDivFloat[%s]" % tname, {"C06": None, "C03": None, "C36": ["ub", "pre"]}, "__Pyx_floordiv_%s" % t.specialization_name(), _tu(tname),
                  requires=[("b != 0 (a zero divisor raises ZeroDivisionError before the helper is called)", lambda e: Not(z3.fpIsZero(e.b)))],
                  ensures=[("result is bit-identical (up to NaN payload) to CPython's float_floor_div(a, b), for all a incl. inf / nan",
                            (lambda bits: lambda e: e.result == floor_div_z3(e.a, e.b, bits))(bits))],
                  subject={"file": "Cython/Utility/CMath.c", "template": "FloorDivFloat", "instantiation": tname})
        u.concrete_search = (lambda bits, u=u: lambda ob, regions=(): _search(u, bits))(bits)
        u.replay = (lambda bits, u=u: lambda model, ob=None: _search(u, bits, model))(bits)
        us.append(u)
    props = {"C06": None, "C03": None, "C36": ["ub", "pre"]}
    callees = {"__Pyx_floordiv_double": helper_callee("__Pyx_floordiv_double")}
    sub = {"mechanism": "ExprNodes.DivNode code generation for float floor division"}
    us.append(L3Unit("L3.fdiv[double]", props, PYX, "fdiv", callees=callees, subject=dict(sub),
                     ensures=[("zero divisor => ZeroDivisionError", lambda e: Implies(z3.fpIsZero(e.b), e.err == ERR("ZeroDivisionError"))),
                              ("b != 0 => no error and the result is CPython's float_floor_div(a, b)",
                               lambda e: Implies(Not(z3.fpIsZero(e.b)), And(e.err == 0, e.result == floor_div_z3(e.a, e.b, 64))))]))
    us.append(L3Unit("L3.fdiv_const[double]", props, PYX, "fdiv_c", callees=callees, subject=dict(sub),
                     ensures=[("a // 0.1: no error and CPython's float_floor_div(a, 0.1)",
                               lambda e: And(e.err == 0, e.result == floor_div_z3(e.a, z3.FPVal(0.1, z3.Float64()), 64)))]))
    us.append(L3Unit("L3.cfdiv[double]", props, PYX, "cfdiv", callees=callees, subject=dict(sub),
                     requires=[("b != 0 (cdivision: C semantics, no check)", lambda e: Not(z3.fpIsZero(e.b)))],
                     ensures=[("cdivision: C's floor(a / b)",
                               lambda e: And(e.err == 0, e.result == z3.fpRoundToIntegral(z3.RTN(), z3.fpDiv(RNE, e.a, e.b))))]))
    for u in us[-3:]:
        u.replay = lambda model, ob=None: _native_l3(ob)
        u.concrete_search = lambda ob, regions=(): _native_l3(ob)
    return us


VALS = [0.0, -0.0, 1.0, -1.0, 0.1, -0.1, 0.3, 2.5, -2.5, 3.0, -3.0, 7.0, 1e300, -1e300, 1e-300, 5e-324, 1e16, float("inf"), float("-inf"), float("nan")]


def _search(unit, bits, model=None):
    """native run of the instantiated template, compared with CPython's float.__floordiv__ bit for bit"""
    import subprocess
    text, _ = unit.tu()
    ctype = "double" if bits == 64 else "float"
    harness = ("\n#include <stdio.h>\nint main(void) { double a, b; while (scanf(\"%%la %%la\", &a, &b) == 2) { "
               "double r = (double) %s((%s) a, (%s) b); printf(\"%%a\\n\", r); } return 0; }\n" % (unit.fname, ctype, ctype))
    cfile = cextract.write_tu(text + harness, "floordivfloat.c")
    exe = cfile[:-2] + ".bin"
    p = subprocess.run(["clang", "-O0", "-w", "-I" + cextract.PY_INCLUDE, cfile, "-o", exe, "-lm"], capture_output=True, text=True)
    if p.returncode != 0:
        return {"confirmed": False, "note": "build failed " + p.stderr[-300:]}
    if bits == 32:
        return {"confirmed": False, "note": "native comparison only for binary64"}
    import random
    rnd = random.Random(6)
    cases = [(a, b) for a in VALS for b in VALS if b != 0 and b == b] + \
            [(rnd.uniform(-1e3, 1e3), rnd.choice([0.1, 0.3, -0.7, 1e-3, 3.0, rnd.uniform(-10, 10) or 1.0])) for _ in range(20000)]
    inp = "".join("%s %s\n" % (a.hex() if a == a else "nan", b.hex()) for a, b in cases)
    r = subprocess.run([exe], input=inp, capture_output=True, text=True, timeout=60)
    outs = [float.fromhex(x) if "nan" not in x else float("nan") for x in r.stdout.split()]
    for (a, b), got in zip(cases, outs):
        want = a // b
        if not _same(got, want):
            return {"inputs": {"a": a.hex(), "b": b.hex()}, "actual": repr(got), "expected": repr(want), "confirmed": True,
                    "how": "instantiated FloorDivFloat template compiled with clang and run natively; compared with CPython's float.__floordiv__ bit for bit"}
    return {"confirmed": False, "tried": len(cases)}


def _native_l3(ob):
    """the catalogue module built from the working tree, `a // b` on doubles against CPython"""
    import os
    import subprocess
    src = PYX + "\ndef py_fdiv(double a, double b): return fdiv(a, b)\ndef py_fdiv_c(double a): return fdiv_c(a)\n"
    ctext, cfile = cextract.compile_pyx(src, name="dvfdivrep")
    d = os.path.dirname(cfile)
    so = os.path.join(d, "dvfdivrep.so")
    p = subprocess.run(["clang", "-shared", "-fPIC", "-O0", "-w", "-I" + cextract.PY_INCLUDE, cfile, "-o", so, "-lm"], capture_output=True, text=True)
    if p.returncode != 0:
        return {"confirmed": False, "note": "build failed " + p.stderr[-300:]}
    code = r'''
import sys, math, random; sys.path.insert(0, %r); import dvfdivrep as m
vals = %r
same = lambda x, y: (x == y and math.copysign(1, x) == math.copysign(1, y)) or (x != x and y != y)
def run(f, *a):
    try: return ("ok", f(*a))
    except Exception as e: return ("exc", type(e).__name__)
rnd = random.Random(6)
cases = [(a, b) for a in vals for b in vals] + [(rnd.uniform(-1e3, 1e3), rnd.choice([0.1, 0.3, -0.7, 3.0])) for _ in range(5000)]
bad = []
for a, b in cases:
    g, w = run(m.py_fdiv, a, b), run(lambda a, b: a // b, a, b)
    if g[0] != w[0] or (g[0] == "ok" and not same(g[1], w[1])) or (g[0] == "exc" and g[1] != w[1]): bad.append(("fdiv", a, b, g, w))
for a, _ in cases:
    g, w = run(m.py_fdiv_c, a), run(lambda a: a // 0.1, a)
    if g[0] != w[0] or (g[0] == "ok" and not same(g[1], w[1])): bad.append(("fdiv_c", a, g, w))
print(bad[:3])
''' % (d, VALS)
    r = subprocess.run(["/venv/bin/python", "-c", code.replace("inf", "float('inf')").replace("nan]", "float('nan')]").replace("-float('inf')", "float('-inf')")],
                       capture_output=True, text=True, timeout=300)
    out = r.stdout.strip()
    return {"inputs": "special values (zeros, 0.1, extremes, inf, nan) x the same, plus 5000 random pairs", "actual": out or r.stderr[-400:],
            "confirmed": out != "[]", "how": "catalogue module built from the working tree; `a // b` on C doubles compared with CPython bit for bit",
            "obligation": getattr(ob, "name", None)}


def side_checks(prop, tier, seed, kf_entries):
    """spec validation: the float_floor_div transcription against float.__floordiv__"""
    import random
    rnd = random.Random(seed + 66)
    pairs = [(a, b) for a in VALS for b in VALS if b != 0 and b == b] + \
            [(rnd.uniform(-1e3, 1e3), rnd.choice([0.1, 0.3, -0.7, 1e-3, 3.0, rnd.uniform(-10, 10) or 1.0])) for _ in range(5000)]
    bad, first = 0, None
    for a, b in pairs:
        w, g = a // b, floor_div_native(a, b)
        if not _same(w, g):
            bad += 1
            first = first or (a, b, w, g)
    out = [{"kind": "spec-validation", "name": "float_floor_div transcription vs float.__floordiv__ (bit for bit)", "cases": len(pairs), "disagree": bad}]
    if bad:
        out.append({"kind": "side-check-failure", "name": "float_floor_div-spec-validation", "text": repr(first)})
    return out


REGIONS = {}
