"""L3 unit for C13: `b.append(v)` on a bytearray with a C-integer argument (Optimize._handle_simple_method_bytearray_append).

Subject: the C function the working-tree compiler emits for
    cdef int app_<T>(bytearray b, <T> v) except -1: b.append(v); return 0        for T in int, long long, unsigned int, Py_ssize_t
CPython: bytearray.append(v) appends the byte v when 0 <= v <= 255 and raises ValueError otherwise (for every int v).
Contract, for ALL values of v: 0 <= v <= 255 => no exception and exactly the byte v is appended; otherwise an exception is set
and nothing is appended.  The helpers enter through their contracts - the subject is the CALL SITE (what the compiler converts
the argument to before the helper's range check sees it):
    __Pyx_PyByteArray_Append(b, int value):        0 <= value <= 255 => appends value, returns 0; else ValueError, -1
    __Pyx_PyByteArray_AppendObject(b, obj):        the same decision on the VALUE of the int object
    __Pyx_PyLong_From_<T>(v):                      an int object holding v
"""
import z3

from dv.spec import And, Or, Not, Implies, If
from dv.l3 import L3Unit
from dv import pyobj as O
from dv import cextract

SERVES = ("C13",)
TYPES = [("int", "int"), ("longlong", "long long"), ("uint", "unsigned int"), ("ssize", "Py_ssize_t")]
CATALOGUE = "# cython: language_level=3\n" + "".join(
    "cdef int app_%s(bytearray b, %s v) except -1:\n    b.append(v)\n    return 0\n\n" % (tag, ct) for tag, ct in TYPES)
APPENDED, NAPP = "ghost.appended_byte", "ghost.appends"


class _Exec(O.CExecPyObj):
    def mem_default(self, key):
        d = {APPENDED: z3.IntVal(-1), NAPP: z3.IntVal(0)}.get(key)
        return d if d is not None else O.CExecPyObj.mem_default(self, key)


def _append(ex, st, value, n, ty):
    from dv.cfe import CV
    ok = And(value >= 0, value <= 255)
    r = ex.fresh("bytearray_append")
    st.path.append(r == If(ok, 0, -1))
    st.mem[APPENDED] = If(ok, value, st.mem.get(APPENDED, z3.IntVal(-1)))
    st.mem[NAPP] = st.mem.get(NAPP, z3.IntVal(0)) + If(ok, 1, 0)
    st.err = If(ok, st.err, z3.IntVal(O.ERRS["ValueError"]) if hasattr(O, "ERRS") and "ValueError" in O.ERRS else z3.IntVal(9))
    return CV(ty, r)


class Append:
    def apply(self, ex, st, args, n):
        from dv.cfe import node_type
        ex.assumptions.add("__Pyx_PyByteArray_Append(b, value): appends the byte for 0 <= value <= 255, else ValueError (its own range check)")
        return _append(ex, st, args[1].t, n, node_type(n))


class AppendObject:
    def apply(self, ex, st, args, n):
        from dv.cfe import node_type
        o = ex.oid(args[1])
        ex.oblige(st, "pre", "AppendObject.the argument is an int object", O.is_long(o), n)
        ex.assumptions.add("__Pyx_PyByteArray_AppendObject(b, obj): for an int object, the same decision on its value (out of range: an exception)")
        return _append(ex, st, O.intval(o), n, node_type(n))


class LongFrom:
    def apply(self, ex, st, args, n):
        from dv.cfe import node_type
        r = ex.obj(st, node_type(n), "long")
        st.path.append(And(O.is_long(r.off), O.intval(r.off) == args[0].t))
        ex.assumptions.add("__Pyx_PyLong_From_<T>(v) returns an int object holding v (contract proved in contracts/cint.py; allocation never fails)")
        return r


def _post(e):
    v = e.v
    app, cnt = e.mem.get(APPENDED, z3.IntVal(-1)), e.mem.get(NAPP, z3.IntVal(0))
    ok = And(v >= 0, v <= 255)
    return And(Implies(ok, And(e.err == 0, e.result == 0, cnt == 1, app == v)),
               Implies(Not(ok), And(e.err != 0, cnt == 0)))


def _native(model, ob=None):
    import os
    import subprocess
    text = CATALOGUE + "".join("def py_%s(b, v): return app_%s(b, v)\n" % (t, t) for t, _ in TYPES)
    try:
        ctext, cfile = cextract.compile_pyx(text, name="dvbytearrayrep")
    except Exception as ex:
        return {"confirmed": False, "note": "compile failed: %r" % ex}
    d = os.path.dirname(cfile)
    p = subprocess.run(["clang", "-shared", "-fPIC", "-O0", "-w", "-I" + cextract.PY_INCLUDE, cfile, "-o", os.path.join(d, "dvbytearrayrep.so")],
                       capture_output=True, text=True)
    if p.returncode != 0:
        return {"confirmed": False, "note": "build failed " + p.stderr[-300:]}
    code = r'''
import sys; sys.path.insert(0, %r); import dvbytearrayrep as m
rng = {"int": (-2**31, 2**31 - 1), "longlong": (-2**63, 2**63 - 1), "uint": (0, 2**32 - 1), "ssize": (-2**63, 2**63 - 1)}
bad = []
for t, (lo, hi) in rng.items():
    for v in (0, 65, 255, 256, -1, 300, 2**31 - 1, -2**31, 2**32 + 65, 2**32, -2**32 + 65, 2**63 - 1, -2**63, 2**31 + 65):
        if not lo <= v <= hi: continue
        a, b = bytearray(b"x"), bytearray(b"x")
        try: getattr(m, "py_" + t)(a, v); ra = "ok"
        except Exception as e: ra = type(e).__name__
        try: b.append(v); rb = "ok"
        except Exception as e: rb = type(e).__name__
        if (ra == "ok") != (rb == "ok") or a != b: bad.append((t, v, ra, bytes(a), rb, bytes(b)))
print(bad[:4]); print(len(bad))
''' % d
    r = subprocess.run(["/venv/bin/python", "-c", code], capture_output=True, text=True, timeout=120)
    out = r.stdout.strip().splitlines()
    return {"inputs": "bytearray.append(v) for v at the byte, int and 64-bit boundaries (2**32 + 65, -2**32 + 65, ...) through int / long long / unsigned int / Py_ssize_t arguments",
            "actual": (r.stdout.strip() or r.stderr[-300:])[:500], "confirmed": len(out) == 2 and out[0] != "[]", "obligation": getattr(ob, "name", None),
            "how": "catalogue compiled by the working-tree compiler; success / failure and the resulting bytearray compared with CPython"}


def units(tier):
    us = []
    callees = {"__Pyx_PyByteArray_Append": Append(), "__Pyx_PyByteArray_AppendObject": AppendObject()}
    for nm in ("int", "long", "PY_LONG_LONG", "unsigned_int", "Py_ssize_t", "unsigned_long", "size_t"):
        callees["__Pyx_PyLong_From_" + nm] = LongFrom()
    callees["PyLong_FromSsize_t"] = LongFrom()
    for tag, ct in TYPES:
        u = L3Unit("L3bytearray.append[%s]" % ct, {"C13": None}, CATALOGUE, "app_" + tag, pyobjs=("b",), callees=callees,
                   requires=[("kernel: the receiver is a bytearray (the typed argument is not None)", lambda e: e.b >= 1)],
                   ensures=[("0 <= v <= 255: the byte v is appended, no exception; otherwise an exception and nothing is appended", _post)],
                   options={"merge": False},
                   subject={"mechanism": "Optimize._handle_simple_method_bytearray_append (argument coercion before the helper's range check)"})
        u.exec_cls = _Exec
        u.replay = _native
        u.concrete_search = lambda ob, regions=(): _native({}, ob)
        us.append(u)
    return us


REGIONS = {}
