"""L3 catalogue for C04: what the code generator emits for C integer arithmetic under overflowcheck=True.

Subject: the C function the working-tree compiler generates for each catalogue function; the checking
helpers are called through the contracts proved in overflow.py (never through their bodies).
Contract (statement of C04), per operation and for nested side-effect-free expressions with
overflowcheck.fold on and off:  every intermediate result fits  => the exact value is returned or
OverflowError is raised (spurious errors tolerated, measured);  some intermediate result does not fit
=> OverflowError (never a wrapped value, never a trap).
The catalogue's return type is always the C type of the expression (int + int is int, short + short is
int in C and in Cython), because the statement speaks about "the C result type" of the arithmetic.
"""
from dv import spec as S
from dv.spec import And, Or, Not, Implies, If
from dv.l3 import L3Unit, ERR
from contracts.overflow import callee as ovf_callee, BASE
from contracts.cmath import div_callee

SERVES = ("C04", "C36")

TYPES_QUICK = [("int", "int"), ("long", "long"), ("unsigned int", "uint")]
# operands narrower than int: C computes in int (integer promotion); the checked arithmetic must still refuse products that
# leave the int range (unsigned short * unsigned short reaches 2**32)
NARROW_QUICK = [("unsigned short", "ushort"), ("short", "short")]
NARROW_ALL = NARROW_QUICK + [("signed char", "schar"), ("unsigned char", "uchar")]
TYPES_ALL = TYPES_QUICK + [("long long", "longlong"), ("unsigned long", "ulong"), ("Py_ssize_t", "ssize"), ("size_t", "size")]


def _is_unsigned(t):
    return t.startswith(("unsigned", "size_t"))


def catalogue(types, fold, narrow=()):
    out = ["# cython: language_level=3", "# cython: overflowcheck=True", "# cython: overflowcheck.fold=%s" % fold, "cimport cython", ""]
    for t, tag in narrow:
        for name, expr, params in (("add", "a + b", "ab"), ("sub", "a - b", "ab"), ("mul", "a * b", "ab"), ("nest2", "(a + b) * (b - c)", "abc"),
                                   ("mul3v", "a * b * c", "abc")):
            out.extend(["cdef int %s_%s(%s) except? -1:" % (name, tag, ", ".join("%s %s" % (t, p) for p in params)), "    return %s" % expr, ""])
    for t, tag in types:
        ev = "7" if _is_unsigned(t) else "-1"

        def f(name, params, expr, rt=t):
            out.extend(["cdef %s %s_%s(%s) except? %s:" % (rt, name, tag, ", ".join("%s %s" % (t, p) for p in params), ev),
                        "    return %s" % expr, ""])
        f("add", "ab", "a + b")
        f("sub", "ab", "a - b")
        f("mul", "ab", "a * b")
        f("shl", "ab", "a << b")
        # an integer literal is typed `long` by the compiler, so int/unsigned int (op) literal is computed in long
        lit = "long" if t in ("int", "unsigned int") else t
        f("nest", "abc", "a * b + c - (a << 2)", rt=lit)
        f("nest2", "abc", "(a + b) * (b - c)")
        f("addk", "a", "a + 100", rt=lit)
        f("mul3", "a", "a * 3", rt=lit)
        if not _is_unsigned(t):
            f("mulm1", "a", "a * -1", rt=lit)
            f("neg", "a", "-a")
            f("fdiv", "ab", "a // b")
    return "\n".join(out) + "\n"


def _fits(e, x):
    return And(e.T.min <= x, x <= e.T.max)


def _ens(steps, final):
    """steps(e) -> list of exact intermediate results (each must fit); final(e) -> exact value of the whole expression"""
    def allfit(e):
        return And(*[_fits(e, x) for x in steps(e)])
    return [
        ("all intermediate results fit => exact result, or OverflowError",
         lambda e: Implies(allfit(e), Or(And(e.err == 0, e.result == final(e)), e.err == ERR("OverflowError")))),
        ("some intermediate result does not fit => OverflowError",
         lambda e: Implies(Not(allfit(e)), e.err == ERR("OverflowError"))),
    ], [("no spurious OverflowError: all intermediate results fit => no error", lambda e: Implies(allfit(e), e.err == 0))]


def _shl(a, b):
    return a * S.pow2(If(And(b >= 0, b <= 64), b, 64))


def _callees():
    c = {}
    for ct, _sg in BASE:
        n = ct.replace(" ", "_")
        for op in ("add", "sub", "mul"):
            c["__Pyx_%s_%s_checking_overflow" % (op, n)] = ovf_callee("__Pyx_%s_%s_checking_overflow" % (op, n), op)
    for n in ("int", "long", "unsigned_int", "unsigned_long", "PY_LONG_LONG", "unsigned_PY_LONG_LONG", "Py_ssize_t", "size_t"):
        c["__Pyx_lshift_%s_checking_overflow" % n] = ovf_callee("__Pyx_lshift_%s_checking_overflow" % n, "lshift")
        for op in ("add", "sub", "mul"):
            nm = "__Pyx_%s_%s_checking_overflow" % (op, n)
            c.setdefault(nm, ovf_callee(nm, op))
    for n in ("int", "long", "PY_LONG_LONG", "Py_ssize_t"):
        c["__Pyx_div_" + n] = div_callee("__Pyx_div_" + n)
    return c


def units(tier):
    types = TYPES_QUICK if tier == "quick" else TYPES_ALL
    us = []
    callees = _callees()
    # value clauses of the statement -> C04; UB-freedom and helper preconditions of the emitted code -> C36
    props = {"C04": ["post", "subset"], "C36": ["ub", "pre", "subset"]}
    for fold in (("True", "False") if tier != "quick" else ("True",)):
        narrow = NARROW_QUICK if tier == "quick" else NARROW_ALL
        pyx = catalogue(types, fold, narrow)
        for t, tag in narrow:
            sub = {"mechanism": "ExprNodes.NumBinopNode overflow_check code generation (promoted narrow operands), overflowcheck.fold=%s" % fold, "ctype": t}
            for name, steps, final in (("add", lambda e: [e.a + e.b], lambda e: e.a + e.b), ("sub", lambda e: [e.a - e.b], lambda e: e.a - e.b),
                                       ("mul", lambda e: [e.a * e.b], lambda e: e.a * e.b),
                                       ("nest2", lambda e: [e.a + e.b, e.b - e.c, (e.a + e.b) * (e.b - e.c)], lambda e: (e.a + e.b) * (e.b - e.c)),
                                       ("mul3v", lambda e: [e.a * e.b, e.a * e.b * e.c], lambda e: e.a * e.b * e.c)):
                ens, meas = _ens(steps, final)
                us.append(L3Unit("L3ovf.%s[%s,fold=%s]" % (name, t, fold), props, pyx, "%s_%s" % (name, tag), ensures=ens,
                                 measured=meas, callees=callees, subject=dict(sub)))
        for t, tag in types:
            sub = {"mechanism": "ExprNodes.NumBinopNode overflow_check code generation, overflowcheck.fold=%s" % fold, "ctype": t}

            def add(name, steps, final, requires=None):
                ens, meas = _ens(steps, final)
                us.append(L3Unit("L3ovf.%s[%s,fold=%s]" % (name, t, fold), props, pyx, "%s_%s" % (name, tag), ensures=ens,
                                 measured=meas, callees=callees, requires=requires, subject=dict(sub)))
            add("add", lambda e: [e.a + e.b], lambda e: e.a + e.b)
            add("sub", lambda e: [e.a - e.b], lambda e: e.a - e.b)
            add("mul", lambda e: [e.a * e.b], lambda e: e.a * e.b)
            # a << b: negative or oversized counts are "not representable" (Python raises / result is huge)
            us.append(L3Unit("L3ovf.shl[%s,fold=%s]" % (t, fold), props, pyx, "shl_" + tag, callees=callees, subject=dict(sub),
                             ensures=[("valid count and a*2^b fits => exact result, or OverflowError",
                                       lambda e: Implies(And(e.b >= 0, e.b < e.T.bits, e.a >= 0, _fits(e, _shl(e.a, e.b))),
                                                         Or(And(e.err == 0, e.result == _shl(e.a, e.b)), e.err == ERR("OverflowError")))),
                                      ("invalid count or a*2^b does not fit => OverflowError",
                                       lambda e: Implies(Or(e.b < 0, e.b >= e.T.bits, Not(_fits(e, _shl(e.a, e.b)))),
                                                         e.err == ERR("OverflowError")))]))
            add("nest", lambda e: [e.a * e.b, e.a * e.b + e.c, e.a * 4, e.a * e.b + e.c - e.a * 4], lambda e: e.a * e.b + e.c - e.a * 4)
            add("nest2", lambda e: [e.a + e.b, e.b - e.c, (e.a + e.b) * (e.b - e.c)], lambda e: (e.a + e.b) * (e.b - e.c))
            add("addk", lambda e: [e.a + 100], lambda e: e.a + 100)
            add("mul3", lambda e: [e.a * 3], lambda e: e.a * 3)
            if not _is_unsigned(t):
                add("mulm1", lambda e: [e.a * -1], lambda e: e.a * -1)
                add("neg", lambda e: [-e.a], lambda e: -e.a)
                us.append(L3Unit("L3ovf.fdiv[%s,fold=%s]" % (t, fold), props, pyx, "fdiv_" + tag, callees=callees, subject=dict(sub),
                                 ensures=[("zero divisor => ZeroDivisionError", lambda e: Implies(e.b == 0, e.err == ERR("ZeroDivisionError"))),
                                          ("quotient fits => exact floor quotient",
                                           lambda e: Implies(And(e.b != 0, Not(And(e.a == e.T.min, e.b == -1))),
                                                             And(e.err == 0, e.result == S.floordiv(e.a, e.b)))),
                                          ("MIN // -1 => OverflowError", lambda e: Implies(And(e.a == e.T.min, e.b == -1), e.err == ERR("OverflowError")))]))
    return us


REGIONS = {
    # unary minus has no checked form: -MIN wraps (and is signed overflow, UB)
    "neg_of_min": lambda e: e.a == e.T.min,
}


def side_checks(prop, tier, seed, kf_entries):
    """replay the witnesses of the recorded findings on a freshly built catalogue module"""
    out = []
    for k in kf_entries:
        if k.get("region_id") != "neg_of_min":
            continue
        u = [x for x in units("quick") if x.uid == "L3ovf.neg[int,fold=True]"][0]
        u._param_names()
        try:
            r = u.run_native({"a": -2 ** 31}, sanitize=(prop == "C36"))
        except Exception as ex:         # pragma: no cover
            r = {"error": repr(ex)}
        if prop == "C36":
            still = r.get("exit", 0) != 0            # trap build: the negation of INT_MIN traps
        else:
            still = r.get("result") == -2 ** 31 and r.get("err") == 0
        out.append({"kind": "known-finding-witness", "id": k["id"], "text": k["text"], "still_fails": bool(still), "detail": r})
    return out
