"""L3 unit for C19: chained comparisons of Python objects (ExprNodes.PrimaryCmpNode / CascadedCmpNode.generate_evaluation_code).

Subject: the C functions the working-tree compiler emits for
    cdef object chain_lt(object a, object b, object c): return a < b < c          (object-valued chain)
    cdef int chain_if(object a, object b, object c) except -1: if a < b < c: ...  (chain as a condition)
    cdef object chain_eq4(object a, object b, object c, object d): return a == b <= c != d
Python: r1 = (a < b); if r1 is false - bool(r1), which may RAISE - the value is r1; else the value is (b < c).  An exception
of the first comparison or of bool(r1) ends the evaluation: nothing further is compared ("stopping at the first false link",
"raise the same exceptions").  Contract: the function's result is that object, an exception is pending exactly when CPython
raises one, and no comparison / truth test is entered while an exception is pending (precondition of the C-API stubs).
"""
import z3

from dv.spec import And, Or, Not, Implies, If
from dv.l3 import L3Unit
from dv import pyobj as O
from dv import cextract

SERVES = ("C19", "C36")
CATALOGUE = """# cython: language_level=3
cdef object chain_lt(object a, object b, object c):
    return a < b < c

cdef int chain_if(object a, object b, object c) except -1:
    if a < b < c:
        return 1
    return 0

cdef object chain_eq4(object a, object b, object c, object d):
    return a == b <= c != d

cdef object in_eq_int(object a, object b):
    return a in b == 1

cdef object str_eq_int(str a, str b):
    return a == b == 1
"""
LT, LE, EQ, NE = 0, 1, 2, 3


class Compare:
    """__Pyx_PyObject_Compare[Bool]<Op>_object_object(a, b, pyop) - under contract in contracts/compare.py: CPython's rich comparison of (a, b),
    as an object (NULL on error) or, for the Bool variant, the truth of that object (-1 on error)."""
    def __init__(self, as_bool):
        self.as_bool = as_bool

    def apply(self, ex, st, args, n):
        from dv.cfe import CV, Ptr, node_type
        a, b, opc = ex.oid(args[0]), ex.oid(args[1]), args[2].t
        ex.no_pending_exception(st, "PyObject_Compare", n)
        rid = O.richcmp_obj(a, b, opc)
        st.path.append(rid >= 0)
        e2 = ex.fresh("err_after_compare")
        ex.assumptions.add("__Pyx_PyObject_Compare[Bool]<Op>_<T1>_<T2>(a, b, op) is CPython's rich comparison (contracts/compare.py), as an object / as its truth value; "
                           "NULL / -1 come with an exception set")
        if not self.as_bool:
            st.path.append(And(Implies(rid >= 1, e2 == st.err), Implies(rid == 0, e2 != 0)))
            st.err = e2
            from dv.cfe import mark_nullable
            return Ptr(node_type(n), "pyobj", mark_nullable(rid))
        r = ex.fresh("comparebool")
        st.path.append(And(r >= -1, r <= 1, Implies(rid == 0, r == -1), Implies(rid >= 1, r == O.truth_of(rid)), O.truth_of(rid) >= -1, O.truth_of(rid) <= 1))
        st.path.append(And(Implies(r >= 0, e2 == st.err), Implies(r < 0, e2 != 0)))
        st.err = e2
        return CV(node_type(n), r)


class BoolFromLong:
    """__Pyx_PyBool_FromLong(b): Py_True / Py_False (a new reference, never NULL)."""
    def apply(self, ex, st, args, n):
        from dv.cfe import node_type
        r = ex.obj(st, node_type(n), "bool")
        st.path.append(O.truth_of(r.off) == If(args[0].t != 0, 1, 0))
        return r


class BoolOrNullFromLong:
    """__Pyx_PyBoolOrNull_FromLong(b): NULL for b < 0 (the error value of the comparison is passed through), else Py_True / Py_False."""
    def apply(self, ex, st, args, n):
        from dv.cfe import Ptr, node_type, mark_nullable
        r = ex.fresh("bool_or_null")
        b = args[0].t
        st.path.append(And(r >= 0, (r == 0) == (b < 0), Implies(r >= 1, O.truth_of(r) == If(b != 0, 1, 0))))
        return Ptr(node_type(n), "pyobj", mark_nullable(r))


def _callees():
    c = {"__Pyx_PyBool_FromLong": BoolFromLong(), "__Pyx_PyBoolOrNull_FromLong": BoolOrNullFromLong()}
    for op in ("Eq", "Ne", "Lt", "Le", "Gt", "Ge"):
        for t1 in ("object", "str", "int", "float", "bytes", "bytearray"):
            for t2 in ("object", "str", "int", "float", "bytes", "bytearray"):
                c["__Pyx_PyObject_Compare%s_%s_%s" % (op, t1, t2)] = Compare(False)
                c["__Pyx_PyObject_CompareBool%s_%s_%s" % (op, t1, t2)] = Compare(True)
    return c


def _links(e, ops, names):
    """[(result object of link i, its truth)]"""
    vs = [getattr(e, nm) for nm in names]
    rs = [O.richcmp_obj(vs[i], vs[i + 1], z3.IntVal(op)) for i, op in enumerate(ops)]
    return rs, [O.truth_of(r) for r in rs]


def _post_obj(ops, names):
    def post(e):
        rs, ts = _links(e, ops, names)
        res = e.result_id if e.result_id is not None else z3.IntVal(0)        # NULL: 0
        cl = []
        reached = z3.BoolVal(True)          # link i is evaluated: all earlier links gave an object whose truth is 1
        for i, (r, t) in enumerate(zip(rs, ts)):
            last = i == len(rs) - 1
            cl.append(Implies(And(reached, r == 0), e.err != 0))                                  # the comparison raised
            if last:
                cl.append(Implies(And(reached, r >= 1), And(e.err == 0, res == r)))
            else:
                cl.append(Implies(And(reached, r >= 1, t < 0), e.err != 0))                       # bool(r) raised
                cl.append(Implies(And(reached, r >= 1, t == 0), And(e.err == 0, res == r)))    # first false link: its OBJECT is the value
            reached = And(reached, r >= 1, t == 1)
        return And(*cl)
    return post


def _post_if(e):
    rs, ts = _links(e, (LT, LT), ("a", "b", "c"))
    r1, r2 = rs
    t1, t2 = ts
    raises = Or(r1 == 0, t1 < 0, And(t1 == 1, Or(r2 == 0, t2 < 0)))
    return And(Implies(raises, e.err != 0),
               Implies(Not(raises), And(e.err == 0, e.result == If(And(t1 == 1, t2 == 1), 1, 0))))


def _native(model, ob=None):
    import os
    import subprocess
    text = CATALOGUE + "\ndef py_chain_lt(a, b, c): return chain_lt(a, b, c)\ndef py_chain_if(a, b, c): return chain_if(a, b, c)\n" \
                       "def py_chain_call(a, b, c): return a < b < c()\n"
    try:
        ctext, cfile = cextract.compile_pyx(text, name="dvchainrep")
    except Exception as ex:
        return {"confirmed": False, "note": "compile failed: %r" % ex}
    d = os.path.dirname(cfile)
    p = subprocess.run(["clang", "-shared", "-fPIC", "-O0", "-w", "-I" + cextract.PY_INCLUDE, cfile, "-o", os.path.join(d, "dvchainrep.so")],
                       capture_output=True, text=True)
    if p.returncode != 0:
        return {"confirmed": False, "note": "build failed " + p.stderr[-300:]}
    code = r'''
import sys; sys.path.insert(0, %r); import dvchainrep as m
log = []
class R:
    def __bool__(self): log.append("bool"); raise ValueError("bool")
class A:
    def __lt__(self, o): log.append("lt"); return R()
class B:
    def __lt__(self, o): log.append("B.lt"); return True
def c(): log.append("c"); return B()
def run(f, *args):
    del log[:]
    try: r = ("value", f(*args))
    except BaseException as e: r = (type(e).__name__, str(e))
    return r, list(log)
bad = []
for name, f, ref, args in (("chain_lt", m.py_chain_lt, lambda a, b, c: a < b < c, (A(), B(), B())), ("chain_if", m.py_chain_if, lambda a, b, c: 1 if a < b < c else 0, (A(), B(), B())),
                           ("a < b < c()", m.py_chain_call, lambda a, b, c: a < b < c(), (A(), B(), c))):
    got, want = run(f, *args), run(ref, *args)
    if got != want: bad.append((name, got, want))
print(bad)
''' % d
    r = subprocess.run(["/venv/bin/python", "-c", code], capture_output=True, text=True, timeout=120)
    out = r.stdout.strip() if r.returncode >= 0 else "crashed with signal %d" % -r.returncode
    return {"inputs": "a < b < c where (a < b) is an object whose __bool__ raises ValueError; every __lt__, __bool__ and operand evaluation is logged",
            "actual": (out or r.stderr[-300:])[:500], "expected": "CPython: ValueError from bool(a < b), nothing evaluated or compared afterwards",
            "confirmed": out != "[]", "obligation": getattr(ob, "name", None),
            "how": "catalogue compiled by the working-tree compiler; (outcome, event log) compared with the same expression run by CPython"}


def _post_null(e):
    return (e.err != 0) == (e.result_id is None) if e.result_id is None else ((e.err != 0) == (e.result_id == 0))


def _native_int(model, ob=None):
    import os
    import subprocess
    text = CATALOGUE + "\ndef py_in_eq_int(a, b): return in_eq_int(a, b)\ndef py_str_eq_int(a, b): return str_eq_int(a, b)\n"
    try:
        ctext, cfile = cextract.compile_pyx(text, name="dvchainint")
    except Exception as ex:
        return {"confirmed": False, "note": "compile failed: %r" % ex}
    d = os.path.dirname(cfile)
    p = subprocess.run(["clang", "-shared", "-fPIC", "-O0", "-w", "-I" + cextract.PY_INCLUDE, cfile, "-o", os.path.join(d, "dvchainint.so")],
                       capture_output=True, text=True)
    if p.returncode != 0:
        return {"confirmed": False, "note": "build failed " + p.stderr[-300:]}
    code = r'''
import sys; sys.path.insert(0, %r); import dvchainint as m
class S(list):
    def __eq__(self, o): return o == 1
    __hash__ = None
bad = []
for name, f, ref, args in (("a in b == 1", m.py_in_eq_int, lambda a, b: bool(a in b == 1), (1, S([1]))), ("a in b == 1", m.py_in_eq_int, lambda a, b: bool(a in b == 1), (2, S([1]))),
                           ("a == b == 1 (str)", m.py_str_eq_int, lambda a, b: bool(a == b == 1), ("x", "x"))):
    got, want = bool(f(*args)), ref(*args)
    if got != want: bad.append((name, got, want))
print(bad)
''' % d
    r = subprocess.run(["/venv/bin/python", "-c", code], capture_output=True, text=True, timeout=120)
    out = r.stdout.strip() if r.returncode >= 0 else "crashed with signal %d" % -r.returncode
    return {"inputs": "a in b == 1 with b a list subclass whose __eq__ answers o == 1; a == b == 1 on equal str operands", "actual": (out or r.stderr[-300:])[:500],
            "expected": "the truth value CPython computes; no crash", "confirmed": out != "[]", "obligation": getattr(ob, "name", None),
            "how": "catalogue compiled by the working-tree compiler; called natively"}


def units(tier):
    us = []
    for name, objs, post in (("chain_lt", ("a", "b", "c"), _post_obj((LT, LT), ("a", "b", "c"))), ("chain_if", ("a", "b", "c"), _post_if),
                             ("chain_eq4", ("a", "b", "c", "d"), _post_obj((EQ, LE, NE), ("a", "b", "c", "d")))):
        u = L3Unit("L3chain.%s" % name, {"C19": None}, CATALOGUE, name, pyobjs=objs, callees=_callees(),
                   ensures=[("the value / branch is Python's for the chain, an exception is pending exactly when a comparison or a truth test raised", post)],
                   options={"merge": False},
                   subject={"mechanism": "ExprNodes.PrimaryCmpNode / CascadedCmpNode.generate_evaluation_code (object operands)"})
        u.exec_cls = O.CExecPyObj
        u.replay = _native
        u.concrete_search = lambda ob, regions=(): _native({}, ob)
        us.append(u)
    # a link decided by a special C helper (membership, str equality) followed by a link against a C integer literal: the operands handed
    # to the object comparison must be OBJECTS (obligation ub.integer_cast_to_object_pointer of the object model)
    for name in ("in_eq_int", "str_eq_int"):
        u = L3Unit("L3chain.%s" % name, {"C19": None, "C36": ["ub", "pre", "subset"]}, CATALOGUE, name, pyobjs=("a", "b"), callees=_callees(),
                   ensures=[("NULL is returned exactly when an exception is pending", _post_null)],
                   options={"merge": False},
                   subject={"mechanism": "ExprNodes.PrimaryCmpNode.analyse_types (coercion of cascaded operands after a special compare function)"})
        u.exec_cls = O.CExecPyObj
        u.replay = _native_int
        u.concrete_search = lambda ob, regions=(): _native_int({}, ob)
        us.append(u)
    return us


REGIONS = {}
