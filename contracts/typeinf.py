"""Contracts for the two decision points of safe type inference (C40 kernel), Cython/Compiler/TypeInference.py.

From the statement ("inference never makes integer arithmetic wrap or lose precision"):

* MarkOverflowingArithmetic.visit_BinopNode(self, node): every binary operator whose C result can differ from Python's
  for in-range C integer operands must have its operand names visited with `might_overflow` set.  Which operators are
  harmless is decided HERE from arithmetic, not read from the code: only `&`, `|`, `^` (two's-complement bit operations
  agree with Python's on equal-width signed operands) and `%` (|result| < |divisor|) can never leave the operand range;
  `+ - * ** <<` overflow, `/` is not integer division in Python, `//` overflows for MIN // -1, `>>` is undefined in C
  for counts >= the width where Python gives 0 / -1, `@` is not an integer operation.  The universe of operator strings
  is read on every run from ExprNodes.binop_node_classes.
  Contract: during `self.visitchildren(node)` the flag is True for every operator outside the harmless set (it may also be
  True for harmless ones: conservative), the flag is restored afterwards, the node is returned.

* safe_spanning_type(types, might_overflow, scope): a C integer or enum type (other than the boolean `bint`) is only
  returned when `might_overflow` is false; otherwise the Python object type family is returned.
  Type objects are opaque; what is used of them is their kind flags (assumed pairwise consistent as in PyrexTypes).
"""
import ast
import os
import z3

from dv.spec import And, Or, Not, Implies
from dv.pyunit import PyUnit
from dv.pyfe import Callee, intern_id
from dv import cextract

SERVES = ("C40",)
FILE = "Cython/Compiler/TypeInference.py"

HARMLESS = ("&", "|", "^", "%")


def operator_universe():
    """keys of ExprNodes.binop_node_classes that are handled by BinopNode subclasses (read from the working tree)"""
    path = os.path.join(cextract.REPO, "Cython/Compiler/ExprNodes.py")
    tree = ast.parse(open(path).read())
    for n in tree.body:
        if isinstance(n, ast.Assign) and any(isinstance(t, ast.Name) and t.id == "binop_node_classes" for t in n.targets) \
                and isinstance(n.value, ast.Dict):
            return sorted(k.value for k, v in zip(n.value.keys, n.value.values)
                          if isinstance(k, ast.Constant) and not (isinstance(v, ast.Name) and v.id == "BoolBinopNode"))
    raise RuntimeError("binop_node_classes not found")


FLAG_SEEN = z3.Int("ghost.might_overflow_during_visitchildren")
CALLS = z3.Int("ghost.visitchildren_calls")


def _binop_unit():
    uni = operator_universe()
    fields = {"obj:MarkOverflowingArithmetic": {"might_overflow": "bool"}, "obj:BinopNode": {"operator": "any"}}
    visitchildren = Callee("MarkOverflowingArithmetic.visitchildren", ["self", "node"],
                           ensures=[("ghost: the flag value the children are visited under",
                                     lambda e: FLAG_SEEN == e.h.fld("might_overflow", e.self))],
                           result_kind="none")

    def post(e):
        op = e.h0.fld("operator", e.node)
        harmless = Or(*[op == intern_id(o) for o in HARMLESS])
        old = e.h0.fld("might_overflow", e.self)
        return And(Implies(Not(harmless), FLAG_SEEN != 0),
                   e.h.fld("might_overflow", e.self) == old,
                   e.result == e.node)
    return PyUnit("TypeInference.MarkOverflowingArithmetic.visit_BinopNode", {"C40": None}, FILE,
                  "MarkOverflowingArithmetic.visit_BinopNode",
                  [("self", "ref:obj:MarkOverflowingArithmetic"), ("node", "ref:obj:BinopNode")],
                  requires=[("node.operator is one of the binary operators of ExprNodes.binop_node_classes (%s)" % " ".join(uni),
                             lambda e: Or(*[e.h0.fld("operator", e.node) == intern_id(o) for o in uni])),
                            ("self and node are distinct objects", lambda e: e.self != e.node),
                            ("self.might_overflow is a bool (encoded 0 / 1)",
                             lambda e: Or(e.h0.fld("might_overflow", e.self) == 0, e.h0.fld("might_overflow", e.self) == 1))],
                  ensures=[("operand names of every operator that can leave the C integer range are visited with might_overflow set; "
                            "the flag is restored; the node is returned", post)],
                  callees={"MarkOverflowingArithmetic.visitchildren": visitchildren},
                  native=_native_binop, search=lambda seed, ob: _native_binop({}, ob),
                  options={"fields": fields, "string_universe": uni,
                           "inline": ("MarkOverflowingArithmetic.visit_neutral_node", "MarkOverflowingArithmetic.visit_dangerous_node")})


def _native_binop(model, obname):
    """run the real transform method on stub nodes for every operator of the universe and both entry values of the flag"""
    from dv.pyunit import load_source_module
    mod = load_source_module(FILE, "dvsubject_TypeInference")
    cls = mod.MarkOverflowingArithmetic
    for op in operator_universe():
        for flag0 in (False, True):
            seen = []
            t = cls.__new__(cls)
            t.might_overflow = flag0
            t.visitchildren = lambda node, t=t, seen=seen: seen.append(t.might_overflow)

            class N:
                operator = op
            r = cls.visit_BinopNode(t, N)
            if (op not in HARMLESS and seen != [True]) or t.might_overflow != flag0 or r is not N:
                return {"inputs": {"operator": op, "might_overflow_on_entry": flag0}, "actual": "children visited with might_overflow=%r, flag after=%r" % (seen, t.might_overflow),
                        "expected": "children visited with might_overflow=True, flag restored", "confirmed": True, "obligation": obname,
                        "how": "TypeInference.py loaded from source; MarkOverflowingArithmetic.visit_BinopNode called on a stub node with this operator"}
    return {"confirmed": False, "tried": len(operator_universe()) * 2}


TYPE_FLAGS = ["is_pyobject", "is_pythran_expr", "is_ptr", "is_cpp_class", "is_struct", "is_memoryviewslice", "is_int", "is_enum",
              "is_error", "is_unicode_char", "is_float", "is_complex"]
NON_INT_KINDS = ["is_pyobject", "is_pythran_expr", "is_ptr", "is_cpp_class", "is_struct", "is_memoryviewslice", "is_float", "is_complex"]


def _span_unit():
    T = "obj:Type"
    fields = {T: dict({f: "bool" for f in TYPE_FLAGS}, equivalent_type="opt:" + T)}
    spanned = z3.Int("ghost.spanning_type")
    simply = Callee("simply_type", ["t"], result_kind="ref:" + T,
                    ensures=[("ghost: the spanning type of the assigned types", lambda e: e.result == spanned)])
    red = Callee("reduce", ["f", "xs"], result_kind="int")
    coerce = Callee("Type.can_coerce_to_pyobject", ["self", "scope"], result_kind="bool",
                    ensures=[("ASSUMED (PyrexTypes): C integer and enum types can always be converted to Python objects",
                              lambda e: Implies(Or(e.h.fld("is_int", e.self) != 0, e.h.fld("is_enum", e.self) != 0), e.result))])

    def flag(e, t, f):
        return e.h0.fld(f, t) != 0

    def well_formed(e):
        """kind flags of PyrexTypes type objects, as far as used here (ASSUMED): the C integer/enum kinds exclude every other
        kind; c_double / c_float are float types; the two named complex types are complex types; bint is the only boolean"""
        t = spanned
        named = {"PyrexTypes.c_double_type": "is_float", "PyrexTypes.c_float_type": "is_float",
                 "PyrexTypes.soft_complex_type": "is_complex", "PyrexTypes.c_double_complex_type": "is_complex"}
        # exclusivity, instantiated at every type object the function can return (no quantifier: keeps the VCs ground)
        fallbacks = [intern_id(nm) for nm in ("Builtin.unicode_type", "Builtin.int_type", "Builtin.float_type", "Builtin.complex_type",
                                              "name:py_object_type")]
        out = [Implies(Or(flag(e, x, "is_int"), flag(e, x, "is_enum")), Not(Or(*[flag(e, x, k) for k in NON_INT_KINDS])))
               for x in [t, e.h0.fld("equivalent_type", t)] + fallbacks]
        for nm, k in named.items():
            out.append(Implies(t == intern_id(nm), flag(e, t, k)))
        # the builtin Python types the function falls back to are Python object types
        for nm in ("Builtin.unicode_type", "Builtin.int_type", "Builtin.float_type", "Builtin.complex_type", "name:py_object_type"):
            out.append(flag(e, intern_id(nm), "is_pyobject"))
        f = z3.Function("obj_eq", z3.IntSort(), z3.IntSort(), z3.BoolSort())
        out.append(Implies(f(t, intern_id("PyrexTypes.c_double_complex_type")), flag(e, t, "is_complex")))
        return And(*out)

    def post(e):
        r = e.result
        if hasattr(r, "ref"):           # an optional reference known to be non-None on this path
            r = r.ref.addr
        c_integer = And(r == spanned, Or(flag(e, spanned, "is_int"), flag(e, spanned, "is_enum")),
                        spanned != intern_id("PyrexTypes.c_bint_type"))
        return Implies(c_integer, Not(e.might_overflow))
    return PyUnit("TypeInference.safe_spanning_type", {"C40": None}, FILE, "safe_spanning_type",
                  [("types", "any"), ("might_overflow", "bool"), ("scope", "any")],
                  requires=[("ASSUMED consistency of the kind flags of PyrexTypes type objects", well_formed)],
                  ensures=[("a C integer / enum type (other than bint) is inferred only when the variable cannot overflow", post)],
                  callees={"simply_type": simply, "reduce": red, "Type.can_coerce_to_pyobject": coerce},
                  native=_native_span, search=lambda seed, ob: _native_span({}, ob),
                  options={"fields": fields, "modules": {"PyrexTypes": T, "Builtin": T}, "opaque_names": ("find_spanning_type", "py_object_type"),
                           "eq_uf": True, "merge": False})


def _native_span(model, obname):
    """the real function on real PyrexTypes objects: every C integer type with might_overflow=True must come back as a
    Python object type"""
    import sys
    if cextract.REPO not in sys.path:
        sys.path.insert(0, cextract.REPO)
    cextract.ensure_repo_on_path()
    from Cython.Compiler import TypeInference, PyrexTypes
    ints = [getattr(PyrexTypes, n) for n in dir(PyrexTypes) if n.startswith("c_") and n.endswith("_type")
            and getattr(getattr(PyrexTypes, n), "is_int", False) and getattr(PyrexTypes, n) is not PyrexTypes.c_bint_type]
    for t in ints:
        try:
            r = TypeInference.safe_spanning_type([t], True, None)
        except Exception as ex:
            continue
        if not r.is_pyobject and (r.is_int or r.is_enum):
            return {"inputs": {"types": [str(t)], "might_overflow": True}, "actual": str(r), "expected": "a Python object type",
                    "confirmed": True, "obligation": obname, "how": "Cython.Compiler.TypeInference.safe_spanning_type imported from the working tree's .py sources"}
    return {"confirmed": False, "tried": len(ints)}


def _name_unit():
    """visit_NameNode: the third link of the chain - a name visited while the flag is set has its entry marked, unconditionally"""
    from dv.pyfe import POpt, PRef
    fields = {"obj:MarkOverflowingArithmetic": {"might_overflow": "bool", "env": "ref:obj:Scope"},
              "obj:NameNode": {"entry": "opt:obj:Entry", "name": "any"},
              "obj:Entry": {"might_overflow": "bool"}}
    LOOKUP = z3.Int("ghost.scope_lookup_result")           # what env.lookup(name) finds: NONE_ADDR or an entry
    from dv.pyfe import NONE_ADDR
    lookup = Callee("Scope.lookup", ["self", "name"], result_kind=lambda ex, e: POpt(LOOKUP == NONE_ADDR, PRef("obj:Entry", LOOKUP)))

    def post(e):
        own = e.h0.fld("entry", e.node)
        entry = z3.If(own != NONE_ADDR, own, LOOKUP)
        flag = e.h0.fld("might_overflow", e.self) != 0
        return And(Implies(And(flag, entry != NONE_ADDR), e.h.fld("might_overflow", entry) != 0), e.result == e.node)
    return PyUnit("TypeInference.MarkOverflowingArithmetic.visit_NameNode", {"C40": None}, FILE, "MarkOverflowingArithmetic.visit_NameNode",
                  [("self", "ref:obj:MarkOverflowingArithmetic"), ("node", "ref:obj:NameNode")],
                  requires=[("entries are objects (not None's address), the looked-up entry existed before", lambda e: And(LOOKUP >= -1, LOOKUP < z3.Int("H0.alloc")))],
                  ensures=[("a name visited while might_overflow is set has its entry (its own, else the scope's) marked - whatever was visited before; the node is returned", post)],
                  callees={"Scope.lookup": lookup},
                  options={"fields": fields, "merge": False, "dynamic_classes": ()},
                  native=_native_name, search=lambda seed, ob: _native_name({}, ob))


def _native_name(model, obname):
    """the chain observed from outside: a name used in overflowing arithmetic in an OUTER function after an inner function used the same name"""
    import os
    import subprocess
    src = ("# cython: language_level=3, infer_types=True\n"
           "def outer():\n    def inner():\n        v = 2147483647\n        return v + 1\n    r = inner()\n    v = 2147483647\n    return r, v + 1\n")
    try:
        ctext, cfile = cextract.compile_pyx(src, name="dvmarknames")
    except Exception as ex:
        return {"confirmed": False, "note": "compile failed: %r" % ex}
    d = os.path.dirname(cfile)
    p = subprocess.run(["clang", "-shared", "-fPIC", "-O0", "-w", "-I" + cextract.PY_INCLUDE, cfile, "-o", os.path.join(d, "dvmarknames.so")], capture_output=True, text=True)
    if p.returncode != 0:
        return {"confirmed": False, "note": "build failed " + p.stderr[-300:]}
    r = subprocess.run(["/venv/bin/python", "-c", "import sys; sys.path.insert(0, %r); import dvmarknames as m; print(m.outer())" % d], capture_output=True, text=True, timeout=120)
    out = r.stdout.strip()
    return {"inputs": "v = 2147483647; v + 1 in an outer function after an inner function did the same with a local of the same name (infer_types=True)",
            "actual": (out or r.stderr[-300:])[:300], "expected": "(2147483648, 2147483648)", "confirmed": out != "(2147483648, 2147483648)", "obligation": obname,
            "how": "module compiled by the working-tree compiler; called natively"}


def units(tier):
    return [_binop_unit(), _span_unit(), _name_unit()]


REGIONS = {}
