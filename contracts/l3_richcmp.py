"""L3 unit for C19: `a == b` / `a != b` as a CONDITION when an operand is typed as an extension type (CmpNode.find_compare_function).

Subject: the C function the working-tree compiler emits for
    cdef class K: pass
    cdef int eqk(K a, K b) except -1:  (if a == b: return 1 / return 0),   nek (!=),   eqo (K a, object b)
Python's `==` always asks the objects (type(a).__eq__), also when a is b; the C-API function PyObject_RichCompareBool answers
1 / 0 for identical objects WITHOUT asking.  Contract: the branch taken is the truth value of CPython's rich comparison
result for (a, b, op) - for all objects, identical ones included - or an exception.
"""
import z3

from dv.spec import And, Or, Not, Implies, If
from dv.l3 import L3Unit
from dv import pyobj as O
from dv import cextract

SERVES = ("C19",)
CATALOGUE = """# cython: language_level=3
cdef class K:
    pass

cdef int eqk(K a, K b) except -1:
    if a == b:
        return 1
    return 0

cdef int nek(K a, K b) except -1:
    if a != b:
        return 1
    return 0

cdef int eqo(K a, object b) except -1:
    return 1 if a == b else 0
"""


def _post(opc):
    def post(e):
        res = O.richcmp_obj(e.a, e.b, z3.IntVal(opc))
        t = O.truth_of(res)
        return Or(e.err != 0, And(res >= 1, t >= 0, e.result == If(t == 1, 1, 0)))
    return post


def _native(model, ob=None):
    import os
    import subprocess
    text = CATALOGUE.replace("cdef class K:\n    pass", "cdef class K:\n    def __eq__(self, other): return False\n    def __ne__(self, other): return True") + \
        "\ndef py_eqk(a, b): return eqk(a, b)\ndef py_nek(a, b): return nek(a, b)\ndef py_eqo(a, b): return eqo(a, b)\n"
    try:
        ctext, cfile = cextract.compile_pyx(text, name="dvrichcmprep")
    except Exception as ex:
        return {"confirmed": False, "note": "compile failed: %r" % ex}
    d = os.path.dirname(cfile)
    p = subprocess.run(["clang", "-shared", "-fPIC", "-O0", "-w", "-I" + cextract.PY_INCLUDE, cfile, "-o", os.path.join(d, "dvrichcmprep.so")],
                       capture_output=True, text=True)
    if p.returncode != 0:
        return {"confirmed": False, "note": "build failed " + p.stderr[-300:]}
    code = ("import sys; sys.path.insert(0, %r); import dvrichcmprep as m\nx = m.K(); y = m.K()\n"
            "print([(n, a is b, got, want) for n, a, b, got, want in ((\"eqk\", x, x, m.py_eqk(x, x), int(x == x)), (\"nek\", x, x, m.py_nek(x, x), int(x != x)), "
            "(\"eqo\", x, x, m.py_eqo(x, x), int(x == x)), (\"eqk\", x, y, m.py_eqk(x, y), int(x == y))) if got != want])\n" % d)
    r = subprocess.run(["/venv/bin/python", "-c", code], capture_output=True, text=True, timeout=120)
    out = r.stdout.strip()
    return {"inputs": "an extension type whose __eq__ returns False and __ne__ True, compared with ITSELF and with another instance", "actual": (out or r.stderr[-300:])[:400],
            "expected": "the branch Python's == / != select (x == x is False for this class)", "confirmed": out != "[]", "obligation": getattr(ob, "name", None),
            "how": "catalogue compiled by the working-tree compiler; results compared with the operators applied by CPython"}


def units(tier):
    us = []
    for name, opc in (("eqk", 2), ("nek", 3), ("eqo", 2)):
        u = L3Unit("L3richcmp.%s" % name, {"C19": None}, CATALOGUE, name, pyobjs=("a", "b"),
                   ensures=[("the branch taken is the truth of CPython's rich comparison of (a, b) - also for identical objects - or an exception", _post(opc))],
                   options={"merge": False},
                   subject={"mechanism": "ExprNodes.CmpNode.find_compare_function (generic fallback for Python-object comparisons in a boolean context)"})
        u.exec_cls = O.CExecPyObj
        u.replay = _native
        u.concrete_search = lambda ob, regions=(): _native({}, ob)
        us.append(u)
    return us


REGIONS = {}
