"""Contracts for the object comparison helpers of Optimize.c::PyObjectCompare (C19; their UB-freedom for C36).

Subjects (module route: the helpers as found in the C the working-tree compiler generates for `a == b`, `a < b`, ...
on untyped objects; CPython 3.12 configuration, CYTHON_USE_PYLONG_INTERNALS):
  * __Pyx_PyLong_CompareSignAndSize(a, b)            (inlined real code)
  * __Pyx_PyObject_CompareIntInt<suffix>(op1, op2)   suffix in BoolEq, Eq, Ne, Lt, Le, Gt, Ge
From the statement ("comparisons select the same outcomes as CPython"): for two exact int objects of ANY size,
    the helper answers  value(op1) <op> value(op2).
The helper compares (sign, digit count) and then the 30-bit digits from the most significant one down, with a loop for
3 or more digits.  Proved here (loop invariant, termination): the answer is the lexicographic comparison of
(sign, digit count, digits from the top).  The step from there to the comparison of the VALUES is positional notation:
    LEX: for two ints with the same sign and the same number of base-2**30 digits, the magnitudes
    compare like the digits at the most significant position where they differ; they are equal iff no digit differs;
    with the same sign, fewer digits means a smaller magnitude.
LEX is a fact of arithmetic about the representation contract of dv/pyobj.py, not about the code; it is stated through an
uninterpreted `topdiff(a, b)` (the highest differing digit position, or -1) so that the subject units need no induction,
and it is PROVED as a lemma (end of this file) from the definition value == sum(digit[i] * 2**(30 i)): three inductions over
the digit count, bases and steps discharged by z3, the induction schema applied by hand.
"""
import z3

from dv.spec import And, Or, Not, Implies, If
from dv.cunit import CUnit
from dv.lemma import LemmaUnit
from dv.l3 import compiled
from dv import pyobj as O
from dv import cextract

SERVES = ("C19", "C02", "C36")

PYX = """# cython: language_level=3
def eq(a, b): return a == b
def ne(a, b): return a != b
def lt(a, b): return a < b
def le(a, b): return a <= b
def gt(a, b): return a > b
def ge(a, b): return a >= b
def beq(a, b):
    if a == b: return 1
    return 0
def ceq(x): return x == 7
def cne(x): return x != 7
def ceq30(x): return x == 1073741824
def cnem30(x): return x != -1073741824
def bne(a, b):
    if a != b: return 1
    return 0
def blt(a, b):
    if a < b: return 1
    return 0
def ble(a, b):
    if a <= b: return 1
    return 0
def bgt(a, b):
    if a > b: return 1
    return 0
def bge(a, b):
    if a >= b: return 1
    return 0
"""


def _tu():
    return compiled(PYX, None, "dvcmp"), "module route: comparisons of untyped objects, compiled by the working-tree compiler"


topdiff = z3.Function("topdiff", O.I, O.I, O.I)


def nd(o):
    return O.lv_tag(o) / 8


def mag(o):
    return If(O.intval(o) >= 0, O.intval(o), -O.intval(o))


def eq_above(a, b, k):
    j = z3.Int("j!lex")
    return z3.ForAll([j], Implies(And(j > k, j < nd(a)), O.digit(a, j) == O.digit(b, j)))


def lex(a, b):
    """positional notation, for two exact ints a, b (object identities)"""
    k = topdiff(a, b)
    same_shape = And(O.lv_tag(a) % 4 == O.lv_tag(b) % 4, nd(a) == nd(b))
    return And(
        # definition of topdiff: the highest position < nd(a) where the digits differ, -1 if there is none
        Implies(nd(a) == nd(b), And(k >= -1, k < nd(a), eq_above(a, b, k), Implies(k >= 0, O.digit(a, k) != O.digit(b, k)))),
        # same sign and digit count: magnitudes compare like the top differing digit
        Implies(same_shape, And((k == -1) == (mag(a) == mag(b)),
                                Implies(k >= 0, (mag(a) < mag(b)) == (O.digit(a, k) < O.digit(b, k))))),
        # same sign, fewer digits: smaller magnitude
        Implies(And(O.lv_tag(a) % 4 == O.lv_tag(b) % 4, nd(a) < nd(b)), mag(a) < mag(b)),
        Implies(And(O.lv_tag(a) % 4 == O.lv_tag(b) % 4, nd(a) > nd(b)), mag(a) > mag(b)))


CMP = {"Eq": lambda x, y: x == y, "Ne": lambda x, y: x != y, "Lt": lambda x, y: x < y, "Le": lambda x, y: x <= y,
       "Gt": lambda x, y: x > y, "Ge": lambda x, y: x >= y}


def _truth(e):
    """the helper's answer as a z3 Bool (int result: != 0; object result: Py_True / Py_False), or None"""
    r = e.result
    if e.T is not None:
        return r != 0
    obj = getattr(r, "obj", None)
    if obj == "global:_Py_TrueStruct":
        return z3.BoolVal(True)
    if obj == "global:_Py_FalseStruct":
        return z3.BoolVal(False)
    return None


def _post(op):
    def post(e):
        t = _truth(e)
        if t is None:
            return False
        return And(e.err == 0, t == CMP[op](O.intval(e.op1), O.intval(e.op2)))
    return post


class _DigitLoop:
    """for (i = size-1; i >= 0 && !cmp; --i) cmp = digits1[i] - digits2[i];
    invariant: all positions above i+1 hold equal digits; cmp is zero, or the difference at position i+1 (non-zero)"""

    def bind(self, ex, st, n, cond, inc):
        """STRUCTURAL binding: the cursor and the difference variable are read off the loop condition (`i >= 0 && !cmp`,
        `cmp == 0 && i > 0`, ...), so renamed locals and the pre-/post-decrement shape of the loop do not matter.
        `delta` is 0 when the cursor is the next index to examine (examined: > i) and 1 when it is one above it (>= i)."""
        b = _DigitLoop()
        found = {}

        def strip(x):
            while x.get("kind") in ("ParenExpr", "ImplicitCastExpr", "CStyleCastExpr"):
                x = x["inner"][0]
            return x

        def walk(x):
            x = strip(x)
            k = x.get("kind")
            if k == "BinaryOperator" and x.get("opcode") in ("&&",):
                walk(x["inner"][0])
                walk(x["inner"][1])
            elif k == "BinaryOperator" and x.get("opcode") in (">=", ">", "==", "!="):
                l, r = strip(x["inner"][0]), strip(x["inner"][1])
                if l.get("kind") == "UnaryOperator" and l.get("opcode") == "--" and not l.get("isPostfix") and x["opcode"] == ">":
                    # `--i > 0` in the condition: at the loop head the cursor is still one above the next index
                    l = strip(l["inner"][0])
                if l.get("kind") == "DeclRefExpr" and r.get("kind") == "IntegerLiteral" and r.get("value") == "0":
                    if x["opcode"] in (">=", ">"):
                        found["cursor"], found["delta"] = l["referencedDecl"]["id"], (0 if x["opcode"] == ">=" else 1)
                    elif x["opcode"] == "==":
                        found["cmp"] = l["referencedDecl"]["id"]
            elif k == "UnaryOperator" and x.get("opcode") == "!":
                s = strip(x["inner"][0])
                if s.get("kind") == "DeclRefExpr":
                    found["cmp"] = s["referencedDecl"]["id"]
        walk(cond)
        if not {"cursor", "cmp", "delta"} <= set(found):
            from dv.cfe import StaleContract
            raise StaleContract("digit loop: cannot read the cursor / difference variables off the loop condition")
        b.cursor, b.cmp, b.delta = found["cursor"], found["cmp"], found["delta"]
        return b

    def holds(self, ex, st):
        i = st.vars[self.cursor].t - self.delta          # next index to examine
        cmp_ = st.vars[self.cmp].t
        a, b = ex.local(st, "op1").off, ex.local(st, "op2").off
        size = nd(a)                                     # both operands have this many digits on this path
        return [("cursor", And(i >= -1, i <= size - 1)),
                ("equal_above", If(cmp_ == 0, eq_above(a, b, i),
                                    And(i + 1 < size, eq_above(a, b, i + 1), cmp_ == O.digit(a, i + 1) - O.digit(b, i + 1))))]

    def decreases(self, ex, st):
        return st.vars[self.cursor].t + 1


def _native(model, ob=None):
    import os
    import subprocess
    ctext, cfile = cextract.compile_pyx(PYX, name="dvcmprep")
    d = os.path.dirname(cfile)
    so = os.path.join(d, "dvcmprep.so")
    p = subprocess.run(["clang", "-shared", "-fPIC", "-O0", "-w", "-I" + cextract.PY_INCLUDE, cfile, "-o", so], capture_output=True, text=True)
    if p.returncode != 0:
        return {"confirmed": False, "note": "build failed " + p.stderr[-300:]}
    code = r'''
import sys, operator as op; sys.path.insert(0, %r); import dvcmprep as m
fs = {"eq": op.eq, "ne": op.ne, "lt": op.lt, "le": op.le, "gt": op.gt, "ge": op.ge, "beq": lambda a, b: 1 if a == b else 0,
      "bne": lambda a, b: 1 if a != b else 0, "blt": lambda a, b: 1 if a < b else 0, "ble": lambda a, b: 1 if a <= b else 0,
      "bgt": lambda a, b: 1 if a > b else 0, "bge": lambda a, b: 1 if a >= b else 0}
base = sorted(set(s * (2**k + d) for k in (0, 3, 29, 30, 31, 59, 60, 61, 89, 90, 91, 120, 150) for d in (-2, -1, 0, 1, 2, 5) for s in (1, -1)))
base += [2**60 + 2**30, 2**60 + 2**30 + 1, 2**90 + 2**60, 2**90 + 2**60 + 7, 2**90 + 2**30 * 5, 2**90 + 2**30 * 5 + 1]
vals = [int(str(v)) for v in base]        # fresh objects: `a is b` shortcuts do not apply
vals2 = [int(str(v)) for v in base]
mixed = [0.0, -0.0, 1.5, float("inf"), float("-inf"), float("nan"), 2.0**30, 2.0**53, -2.0**62, "a", "b", "", b"a", b"", bytearray(b"a"), None, (1,), 7, 2**70]
vals += mixed; vals2 += [type(v)(v) if isinstance(v, (str, bytes, bytearray)) else v for v in mixed]
def run(f, a, b):
    try: return ("ok", f(a, b))
    except Exception as e: return ("exc", type(e).__name__)
bad = [(n, a, b) for n, f in fs.items() for a in vals for b in vals2 if run(getattr(m, n), a, b) != run(f, a, b)]
print(bad[:4]); sys.exit(0)
''' % d
    r = subprocess.run(["/venv/bin/python", "-c", code], capture_output=True, text=True, timeout=300)
    out = r.stdout.strip()
    return {"inputs": "all pairs of ints +-(2**k + d) at the 30-bit digit boundaries (distinct objects), every comparison of the catalogue",
            "actual": out or r.stderr[-400:], "confirmed": out != "[]",
            "how": "catalogue module built from the working tree; answers compared with CPython's own int comparison",
            "obligation": getattr(ob, "name", None)}


# ------------------------------------------------------------------------------------------------------------
# the dispatching function __Pyx_PyObject_CompareBool<Op>_object_object(op1, op2, pyop)

helper_result = z3.Function("helper_result", O.I, O.I, O.I, O.I, O.I)    # (helper kind, opcode, op1, op2) -> its int answer
KINDS = {"FloatInt": 1, "IntFloat": 2, "StrStr": 3, "PyBytesPyBytes": 4, "PyBytesPyByteArray": 5, "PyByteArrayPyBytes": 6,
         "PyByteArrayPyByteArray": 7}
OPC = {"Lt": 0, "Le": 1, "Eq": 2, "Ne": 3, "Gt": 4, "Ge": 5}            # Py_LT .. Py_GE
TID = O.TYPE_IDS
KIND_TYPES = {"FloatInt": ("PyFloat_Type", "PyLong_Type"), "IntFloat": ("PyLong_Type", "PyFloat_Type"), "StrStr": ("PyUnicode_Type", "PyUnicode_Type"),
              "PyBytesPyBytes": ("PyBytes_Type", "PyBytes_Type"), "PyBytesPyByteArray": ("PyBytes_Type", "PyByteArray_Type"),
              "PyByteArrayPyBytes": ("PyByteArray_Type", "PyBytes_Type"), "PyByteArrayPyByteArray": ("PyByteArray_Type", "PyByteArray_Type")}


def fp_cmp(op, x, y):
    return {"Eq": z3.fpEQ, "Ne": z3.fpNEQ, "Lt": z3.fpLT, "Le": z3.fpLEQ, "Gt": z3.fpGT, "Ge": z3.fpGEQ}[op](x, y)


class HelperCallee:
    """contract of a type-specialised comparison helper at its call site in the dispatcher: the operand types it requires,
    and its answer (IntInt: the proved value comparison; the others: an uninterpreted answer keyed by helper and operands,
    so that only the ROUTING - which helper, which argument order - is decided here)"""

    def __init__(self, kind, op):
        self.kind, self.op = kind, op

    def apply(self, ex, st, args, n):
        from dv.cfe import CV, node_type
        a, b = ex.oid(args[0]), ex.oid(args[1])
        r = ex.fresh("helper_" + self.kind)
        if self.kind == "IntInt":
            ex.oblige(st, "pre", "CompareIntInt.both operands are exact ints", And(O.is_long(a), O.is_long(b)), n)
            st.path.append(And(Or(r == 0, r == 1), (r != 0) == CMP[self.op](O.intval(a), O.intval(b))))
        else:
            t1, t2 = KIND_TYPES[self.kind]
            ex.oblige(st, "pre", "Compare%s.operand types" % self.kind, And(O.exact_type(a) == TID[t1], O.exact_type(b) == TID[t2]), n)
            st.path.append(And(r >= -1, r <= 1, r == helper_result(KINDS[self.kind], OPC[self.op], a, b)))
            e2 = ex.fresh("err_after_helper")
            st.path.append(Implies(r >= 0, e2 == st.err))
            st.err = e2
        return CV(node_type(n), r)


def _dispatch_post(op):
    reflexive = op in ("Eq", "Le", "Ge")

    def post(e):
        r, a, b = e.result, e.op1, e.op2
        ta, tb = O.exact_type(a), O.exact_type(b)
        clauses = [
            Implies(And(O.is_float(a), O.is_float(b)), And(e.err == 0, r == If(fp_cmp(op, O.fval(a), O.fval(b)), 1, 0))),
            Implies(And(O.is_long(a), O.is_long(b)), And(e.err == 0, r == If(CMP[op](O.intval(a), O.intval(b)), 1, 0))),
        ]
        routed = Or(And(O.is_float(a), O.is_float(b)), And(O.is_long(a), O.is_long(b)))
        for kind, (t1, t2) in KIND_TYPES.items():
            cond = And(ta == TID[t1], tb == TID[t2])
            if t1 == t2:
                # the same object on both sides is answered without looking at it (strings, bytes: x == x always holds)
                clauses.append(Implies(And(cond, a == b), And(e.err == 0, r == (1 if reflexive else 0))))
                clauses.append(Implies(And(cond, a != b), r == helper_result(KINDS[kind], OPC[op], a, b)))
            else:
                clauses.append(Implies(cond, r == helper_result(KINDS[kind], OPC[op], a, b)))
            routed = Or(routed, cond)
        clauses.append(Implies(Not(routed), r == O.truth_of(O.richcmp_obj(a, b, z3.IntVal(OPC[op])))))
        return And(*clauses)
    return post


def _const_post(op):
    """x == c / x != c for an integer constant c (PyLongCompare): exact int -> value comparison; exact float -> C double
    comparison with (double) c (exact: |c| <= 2**30); the same object on both sides -> equal; else CPython's comparison"""
    want_eq = op == "Eq"

    def post(e):
        from dv.cfe import nearest_fp
        r = e.result
        obj = getattr(r, "obj", None)
        a = e.op1
        if obj in ("global:_Py_TrueStruct", "global:_Py_FalseStruct"):
            t = obj == "global:_Py_TrueStruct"
            equal = (t == want_eq)           # what the answer says about "op1 equals c"
            return And(e.err == 0, Or(a == e.op2, O.is_long(a), O.is_float(a)),
                       Implies(a == e.op2, equal),
                       Implies(And(a != e.op2, O.is_long(a)), (O.intval(a) == e.intval) == equal),
                       Implies(And(a != e.op2, Not(O.is_long(a)), O.is_float(a)), z3.fpEQ(O.fval(a), nearest_fp(e.intval)) == equal))
        if obj == "pyobj":
            return And(a != e.op2, Not(O.is_long(a)), Not(O.is_float(a)), r.off == O.richcmp_obj(a, e.op2, z3.IntVal(OPC[op])))
        return False
    return post


def _native_const(model, ob=None):
    import os
    import subprocess
    ctext, cfile = cextract.compile_pyx(PYX, name="dvcmprep")
    d = os.path.dirname(cfile)
    so = os.path.join(d, "dvcmprep.so")
    p = subprocess.run(["clang", "-shared", "-fPIC", "-O0", "-w", "-I" + cextract.PY_INCLUDE, cfile, "-o", so], capture_output=True, text=True)
    if p.returncode != 0:
        return {"confirmed": False, "note": "build failed " + p.stderr[-300:]}
    code = r"""
import sys; sys.path.insert(0, %r); import dvcmprep as m
vals = sorted(set(s * (2**k + d) for k in (0, 3, 29, 30, 31, 59, 60, 61, 90) for d in (-8, -7, -1, 0, 1, 6, 7) for s in (1, -1)))
vals += [7.0, 7.5, -7.0, float("nan"), float("inf"), "7", None, True, int("7"), 7 + 2**30, 7 + 2**60, 7 - 2**30, 2**30 + 7 * 2**60]
vals += [2**30, -2**30, float(2**30), 2**30 + 2**60, 2**31, -2**31]
bad = [(n, v) for n, f in (("ceq", lambda x: x == 7), ("cne", lambda x: x != 7), ("ceq30", lambda x: x == 2**30), ("cnem30", lambda x: x != -2**30))
       for v in vals if getattr(m, n)(v) is not f(v)]
print(bad[:5])
""" % d
    r = subprocess.run(["/venv/bin/python", "-c", code], capture_output=True, text=True, timeout=120)
    out = r.stdout.strip()
    return {"inputs": "x = +-(2**k + d) at digit boundaries, floats, other objects; x == 7, x != 7", "actual": out or r.stderr[-400:],
            "confirmed": out != "[]", "how": "catalogue module built from the working tree; answers compared with CPython",
            "obligation": getattr(ob, "name", None)}


# ------------------------------------------------------------------------------------------------------------
# bytes / bytearray comparison helpers: lexicographic comparison of unsigned bytes, then of the lengths

first_diff = z3.Function("first_differing_index", O.I, O.I, O.I)
BYTES_T = {"PyBytes": "PyBytes_Type", "PyByteArray": "PyByteArray_Type"}


def _ub(o, k):
    return z3.Select(O.bytes_of(o), k) % 256


def _lex_sign(a, b):
    """sign of the lexicographic comparison of the two byte strings as CPython's bytes_richcompare defines it: the first
    differing byte (unsigned) inside the common length decides, else the lengths.  first_diff is the position of that byte
    (the common length if there is none): a definitional choice, instantiated for this pair only."""
    la, lb = O.blen(a), O.blen(b)
    short = If(la < lb, la, lb)
    d = first_diff(a, b)
    j = z3.Int("j!lexb")
    definition = And(d >= 0, d <= short, z3.ForAll([j], Implies(And(j >= 0, j < d), _ub(a, j) == _ub(b, j))),
                     Implies(d < short, _ub(a, d) != _ub(b, d)))
    sign = If(d < short, If(_ub(a, d) < _ub(b, d), -1, 1), If(la < lb, -1, If(la > lb, 1, 0)))
    return definition, sign


def _bytes_post(op):
    def post(e):
        definition, sign = _lex_sign(e.s1, e.s2)
        want = {"Eq": sign == 0, "Ne": sign != 0, "Lt": sign < 0, "Le": sign <= 0, "Gt": sign > 0, "Ge": sign >= 0}[op]
        return Implies(definition, And(e.err == 0, (e.result != 0) == want))
    return post


def _bytes_units(props):
    us = []
    for op in ("Eq", "Ne", "Lt", "Le", "Gt", "Ge"):
        for p1 in ("PyBytes", "PyByteArray"):
            for p2 in ("PyBytes", "PyByteArray"):
                fname = "__Pyx_PyObject_Compare%s%sBool%s" % (p1, p2, op)
                req = [("operand types (checked by the dispatcher)",
                        lambda e, p1=p1, p2=p2: And(O.exact_type(e.s1) == TID[BYTES_T[p1]], O.exact_type(e.s2) == TID[BYTES_T[p2]],
                                                    Implies(O.exact_type(e.s1) == TID["PyBytes_Type"], O.is_bytes_sub(e.s1)),
                                                    Implies(O.exact_type(e.s2) == TID["PyBytes_Type"], O.is_bytes_sub(e.s2)))),
                       ("the dispatcher answers identical objects itself", lambda e: e.s1 != e.s2),
                       ("CPython: the buffers of bytes and bytearray objects are NUL-terminated",
                        lambda e: And(z3.Select(O.bytes_of(e.s1), O.blen(e.s1)) == 0, z3.Select(O.bytes_of(e.s2), O.blen(e.s2)) == 0)),
                       ("model: the contents are chars (-128..127)",
                        lambda e: z3.ForAll([z3.Int("k!ch")], And(*[And(z3.Select(O.bytes_of(o), z3.Int("k!ch")) >= -128,
                                                                        z3.Select(O.bytes_of(o), z3.Int("k!ch")) <= 127) for o in (e.s1, e.s2)])))]
                if p1 == p2 == "PyBytes":
                    req.append(("CPython: the empty bytes object is a singleton, so two distinct bytes objects are not both empty",
                                lambda e: Not(And(O.blen(e.s1) == 0, O.blen(e.s2) == 0))))
                u = CUnit("Optimize.Compare%s%s[Bool%s]" % (p1, p2, op), props, fname, _tu, filt=[fname], pyobjs=("s1", "s2"), requires=req,
                          ensures=[("the answer is CPython's lexicographic comparison of the unsigned bytes, then of the lengths", _bytes_post(op))],
                          options={"inline": ("*",), "merge": False},
                          subject={"file": "Cython/Utility/Optimize.c", "template": "PyObjectCompare", "instantiation": "%s%sBool%s" % (p1, p2, op)})
                u.exec_cls = O.CExecPyObj
                u.err_ghost = True
                u.replay = _native_bytes
                u.concrete_search = lambda ob, regions=(): _native_bytes({}, ob)
                us.append(u)
    return us


def _native_bytes(model, ob=None):
    import os
    import subprocess
    ctext, cfile = cextract.compile_pyx(PYX, name="dvcmprep")
    d = os.path.dirname(cfile)
    so = os.path.join(d, "dvcmprep.so")
    p = subprocess.run(["clang", "-shared", "-fPIC", "-O0", "-w", "-I" + cextract.PY_INCLUDE, cfile, "-o", so], capture_output=True, text=True)
    if p.returncode != 0:
        return {"confirmed": False, "note": "build failed " + p.stderr[-300:]}
    code = r'''
import sys, operator as op; sys.path.insert(0, %r); import dvcmprep as m
fs = {"beq": op.eq, "bne": op.ne, "blt": op.lt, "ble": op.le, "bgt": op.gt, "bge": op.ge}
raw = [b"", b"a", b"\x80", b"\xff", b"\x00", b"ab", b"a\x80", b"a\xff", b"abc", b"ab\x00", b"\x7f", b"\x80a", b"aa"]
vals = [bytes(bytearray(x)) for x in raw] + [bytearray(x) for x in raw]
vals2 = [bytes(bytearray(x)) for x in raw] + [bytearray(x) for x in raw]
bad = [(n, a, b) for n, f in fs.items() for a in vals for b in vals2 if bool(getattr(m, n)(a, b)) != bool(f(a, b))]
print(bad[:4])
''' % d
    r = subprocess.run(["/venv/bin/python", "-c", code], capture_output=True, text=True, timeout=300)
    out = r.stdout.strip()
    return {"inputs": "all pairs of bytes / bytearray objects over 13 byte strings (empty, high bytes, prefixes), six comparisons in `if` context",
            "actual": out or r.stderr[-400:], "confirmed": out != "[]",
            "how": "catalogue module built from the working tree; answers compared with CPython's own comparison",
            "obligation": getattr(ob, "name", None)}


def units(tier):
    us = []
    props = {"C19": None, "C36": ["ub", "pre", "subset"]}
    us.extend(_bytes_units(props))
    for op in ("Eq", "Ne"):
        fname = "__Pyx_PyLong_%sObjC" % op
        u = CUnit("Optimize.PyLongCompare.%sObjC" % op, {"C19": None, "C02": None, "C36": ["ub", "pre", "subset"]}, fname, _tu, filt=[fname], pyobjs=("op1", "op2"),
                  requires=[("the constant is passed consistently as object and as C long (call site)",
                             lambda e: And(O.is_long(e.op2), O.intval(e.op2) == e.intval)),
                            ("|constant| <= 2**30 (Optimize.optimise_numeric_binop)", lambda e: And(e.intval >= -(2 ** 30), e.intval <= 2 ** 30))],
                  ensures=[("x %s c: exact int by value, exact float by double comparison, identical object equal, else PyObject_RichCompare" % ("==" if op == "Eq" else "!="),
                            _const_post(op))],
                  options={"inline": ("*",), "merge": False, "fp_abstract": True},
                  subject={"file": "Cython/Utility/Optimize.c", "template": "PyLongCompare", "instantiation": op + "ObjC"})
        u.exec_cls = O.CExecPyObj
        u.err_ghost = True
        u.replay = _native_const
        u.concrete_search = lambda ob, regions=(): _native_const({}, ob)
        us.append(u)
    for op in ("Eq", "Ne", "Lt", "Le", "Gt", "Ge"):
        fname = "__Pyx_PyObject_CompareBool%s_object_object" % op
        callees = {"__Pyx_PyObject_CompareIntIntBool" + op: HelperCallee("IntInt", op)}
        for kind in KINDS:
            callees["__Pyx_PyObject_Compare%sBool%s" % (kind, op)] = HelperCallee(kind, op)
        u = CUnit("Optimize.CompareBool[%s,object,object]" % op, props, fname, _tu, filt=[fname], pyobjs=("op1", "op2"),
                  requires=[("the exact-type predicates are views of Py_TYPE",
                             lambda e: And(*[And(O.is_long(x) == (O.exact_type(x) == TID["PyLong_Type"]),
                                                 O.is_float(x) == (O.exact_type(x) == TID["PyFloat_Type"])) for x in (e.op1, e.op2)]))],
                  ensures=[("exact floats / exact ints are compared by value; every other pair of builtin types goes to the helper "
                            "for exactly that pair, in this argument order; everything else to PyObject_RichCompare(op1, op2, Py_%s)" % op.upper(),
                            _dispatch_post(op))],
                  callees=callees, options={"merge": False},
                  subject={"file": "Cython/Utility/Optimize.c", "template": "PyObjectCompare", "instantiation": "Bool%s_object_object" % op})
        u.exec_cls = O.CExecPyObj
        u.err_ghost = True
        u.replay = _native
        u.concrete_search = lambda ob, regions=(): _native({}, ob)
        us.append(u)
    for suffix, op in (("BoolEq", "Eq"), ("Eq", "Eq"), ("Ne", "Ne"), ("Lt", "Lt"), ("Le", "Le"), ("Gt", "Gt"), ("Ge", "Ge")):
        fname = "__Pyx_PyObject_CompareIntInt" + suffix
        u = CUnit("Optimize.CompareIntInt[%s]" % suffix, props, fname, _tu, filt=[fname, "__Pyx_PyLong_CompareSignAndSize"],
                  pyobjs=("op1", "op2"),
                  requires=[("both operands are exact int objects (checked by the dispatching caller)", lambda e: And(O.is_long(e.op1), O.is_long(e.op2))),
                            ("positional-notation lemma LEX for this pair of ints (LemmaUnit Optimize.CompareIntInt.LEX: bases, steps and the "
                             "derivation are discharged; the induction schema is applied by hand; ASSUMED: value == sum of digit[i] * 2**(30 i))",
                             lambda e: lex(e.op1, e.op2))],
                  ensures=[("the answer is value(op1) %s value(op2), no exception" % op, _post(op))],
                  options={"inline": ("*",), "merge": False, "invariants": {0: _DigitLoop()}},
                  subject={"file": "Cython/Utility/Optimize.c", "template": "PyObjectCompare", "instantiation": "CompareIntInt" + suffix})
        u.exec_cls = O.CExecPyObj
        u.err_ghost = True
        u.replay = _native
        u.concrete_search = lambda ob, regions=(): _native({}, ob)
        us.append(u)
    us.append(LemmaUnit("Optimize.CompareIntInt.LEX", {"C19": None, "C02": None}, _lex_lemmas,
                        subject={"file": "Cython/Utility/Optimize.c", "function": "(positional-notation lemma LEX required by the CompareIntInt contracts)"}))
    return us


# ------------------------------------------------------------------------------------------------------------
# LEX as a lemma.  The value of a PyLong is DEFINED (longintrepr.h) as  sum(digit[i] * 2**(30*i), i < ndigits).
# With  W(0) = 1, W(n+1) = 2**30 * W(n)  and  PV(o, 0) = 0, PV(o, n+1) = PV(o, n) + digit(o, n) * W(n)  this is
# mag(o) == PV(o, ndigits(o)).  LEX follows by three inductions over the digit count whose base cases and steps are
# discharged here; the induction SCHEMA (base & step => for all n) is applied by hand: the derivation lemma takes the
# universally quantified conclusions as hypotheses.

W = z3.Function("pylong_weight", O.I, O.I)
PV = z3.Function("pylong_prefix_value", O.I, O.I, O.I)
TD = z3.Function("topdiff_below", O.I, O.I, O.I, O.I)      # highest differing digit position below n, or -1
B30 = 1 << 30


def _lex_lemmas():
    a, b, n, m, j = z3.Ints("a b n m j")

    def digits(o):
        return z3.ForAll([j], And(O.digit(o, j) >= 0, O.digit(o, j) < B30))

    def pvdef(o, n):
        return PV(o, n + 1) == PV(o, n) + O.digit(o, n) * W(n)

    def char(n):
        """TD(a, b, n) is what its name says (a definition: such a position exists and is unique)"""
        k = TD(a, b, n)
        return And(k >= -1, k < n, z3.ForAll([j], Implies(And(j > k, j < n), O.digit(a, j) == O.digit(b, j))),
                   Implies(k >= 0, O.digit(a, k) != O.digit(b, k)))

    def bounded(o, n):      # A(n)
        return And(PV(o, n) >= 0, PV(o, n) < W(n))

    def ordered(n):         # B(n)
        k = TD(a, b, n)
        return And(Implies(k == -1, PV(a, n) == PV(b, n)),
                   Implies(k >= 0, And(PV(a, n) != PV(b, n), (PV(a, n) < PV(b, n)) == (O.digit(a, k) < O.digit(b, k)))))

    def mono(n):            # D(n)
        return z3.ForAll([m], Implies(And(m >= 0, m <= n), W(m) <= W(n)))

    wstep = W(n + 1) == B30 * W(n)
    yield "W.base(W(0) >= 1)", [W(0) == 1], W(0) >= 1
    yield "W.step(W(n) >= 1 => W(n+1) >= 1)", [n >= 0, wstep, W(n) >= 1], W(n + 1) >= 1
    yield "mono.base", [W(0) == 1], mono(z3.IntVal(0))
    yield "mono.step", [n >= 0, wstep, W(n) >= 1, mono(n)], mono(n + 1)
    yield "bounded.base(0 <= PV(o,0) < W(0))", [PV(a, 0) == 0, W(0) == 1], bounded(a, z3.IntVal(0))
    yield "bounded.step", [n >= 0, digits(a), pvdef(a, n), wstep, W(n) >= 1, bounded(a, n)], bounded(a, n + 1)
    yield "ordered.base", [char(z3.IntVal(0)), PV(a, 0) == 0, PV(b, 0) == 0], ordered(z3.IntVal(0))
    yield ("ordered.step", [n >= 0, digits(a), digits(b), pvdef(a, n), pvdef(b, n), W(n) >= 1, bounded(a, n), bounded(b, n),
                            char(n), char(n + 1), ordered(n)], ordered(n + 1))
    # derivation: the conclusions of the inductions (for all n >= 0) + the definition of the value => lex(a, b) as the contracts use it
    # (the quantified conclusions "for all n >= 0: ..." are handed over as their instances at the four digit counts involved)
    def at(n):
        return Implies(n >= 0, And(W(n) >= 1, mono(n), bounded(a, n), bounded(b, n), pvdef(a, n), pvdef(b, n), char(n), ordered(n)))

    value = lambda o: And(nd(o) >= 0, mag(o) == PV(o, nd(o)), Implies(nd(o) >= 1, O.digit(o, nd(o) - 1) != 0), digits(o))   # noqa: E731
    hyps = [at(nd(a)), at(nd(b)), at(nd(a) - 1), at(nd(b) - 1), value(a), value(b), topdiff(a, b) == TD(a, b, nd(a))]
    goal = lex(a, b)
    for k, part in enumerate(goal.children() if z3.is_and(goal) else [goal]):
        yield "LEX.%d(from the inductions and value == sum of weighted digits)" % k, hyps, part


REGIONS = {}
