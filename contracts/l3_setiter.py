"""L3 unit for C14 / C36: a for-loop over a variable typed `set` (Optimize.IterationTransform._transform_set_iteration), and
`for i, x in enumerate(l)` over a variable typed `list` (_transform_enumerate_iteration: the None check of the list it hands to the loop).

Subject: the C function the working-tree compiler emits for
    cdef int iter_set(set s, list l) except -1:
        for x in s: l.append(x)
        return 0
A variable typed `set` may hold None.  CPython: `for x in None` raises TypeError.  The emitted loop calls
__Pyx_set_iterator(s, is_set=1, ...) and __Pyx_set_iter_next(...), which - told that the object IS a set - read the set's fields directly
(PySet_GET_SIZE, _PySet_NextEntry).  Contract of the call site: precondition of __Pyx_set_iterator `is_set != 0 => the object is a set`
(here: not None), for all arguments; a None argument ends in an exception.  None is an object identity of its own in this unit
(option model_none).  The while(1) loop is cut by a trivial invariant: nothing is claimed about the iterations themselves.
"""
import z3

from dv.spec import And, Or, Not, Implies, If
from dv.l3 import L3Unit
from dv import pyobj as O
from dv import cextract

SERVES = ("C14", "C36")
CATALOGUE = """# cython: language_level=3
cdef int iter_set(set s, list l) except -1:
    for x in s:
        l.append(x)
    return 0

cdef int iter_frozenset(frozenset s, list l) except -1:
    for x in s:
        l.append(x)
    return 0

cdef int enum_list(list s, list l) except -1:
    for i, x in enumerate(s):
        l.append(x)
    return 0
"""


class SetIterator:
    """__Pyx_set_iterator(iterable, is_set, &orig_length, &source_is_set): for is_set != 0 it returns the object itself and reads PySet_Size"""
    def apply(self, ex, st, args, n):
        from dv.cfe import Ptr, CV, node_type, mark_nullable, parse_type
        o = ex.oid(args[0])
        ex.oblige(st, "pre", "__Pyx_set_iterator.an object announced as a set is not None", Or(args[1].t == 0, o != O.NONE_OBJECT), n)
        ex.no_pending_exception(st, "__Pyx_set_iterator", n)
        r = ex.fresh("set_iterator")
        e2 = ex.fresh("err_after_set_iterator")
        st.path.append(And(r >= 0, Implies(r >= 1, e2 == st.err), Implies(r == 0, e2 != 0), Implies(args[1].t != 0, r == o),
                           Implies(And(args[1].t == 0, o == O.NONE_OBJECT), r == 0)))          # PyObject_GetIter(None): TypeError
        st.err = e2
        ex.store(st, args[2], CV(parse_type("Py_ssize_t"), ex.fresh("orig_length")), n)
        ex.store(st, args[3], CV(parse_type("int"), If(args[1].t != 0, z3.IntVal(1), ex.fresh("source_is_set"))), n)
        ex.assumptions.add("__Pyx_set_iterator(it, is_set, ...): needs a real set / frozenset when is_set != 0 (it reads the set's size); returns the object "
                           "or an iterator, NULL with an exception")
        return Ptr(node_type(n), "pyobj", mark_nullable(r))


class SetIterNext:
    def apply(self, ex, st, args, n):
        from dv.cfe import Ptr, CV, node_type, parse_type
        ex.no_pending_exception(st, "__Pyx_set_iter_next", n)
        r = ex.fresh("set_iter_next")
        e2 = ex.fresh("err_after_set_iter_next")
        st.path.append(And(r >= -1, r <= 1, Implies(r >= 0, e2 == st.err), Implies(r < 0, e2 != 0)))
        st.err = e2
        v = ex.obj(st, parse_type("PyObject *"), "set_item")
        ex.store(st, args[3], v, n)
        ex.assumptions.add("__Pyx_set_iter_next: 1 and a new reference in *value, 0 at the end, -1 with an exception")
        return CV(node_type(n), r)


class ListItemRef:
    """__Pyx_PyList_GET_ITEM_REF(l, i, sharing): a new reference to item i (NULL with an exception when the list shrank)"""
    def apply(self, ex, st, args, n):
        from dv.cfe import Ptr, node_type, mark_nullable
        r = ex.fresh("list_item_ref")
        e2 = ex.fresh("err_after_item_ref")
        st.path.append(And(r >= 0, Implies(r >= 1, e2 == st.err), Implies(r == 0, e2 != 0)))
        st.err = e2
        return Ptr(node_type(n), "pyobj", mark_nullable(r))


class ListAppend:
    def apply(self, ex, st, args, n):
        from dv.cfe import CV, node_type
        return CV(node_type(n), z3.IntVal(0))


class _Trivial:
    """while (1) { next; ... }: no claim about the iterations - the loop is cut, everything it assigns is havocked"""
    def holds(self, ex, st):
        return [("no exception is pending at the loop head", st.err == 0)]


def _post(e):
    return And(Implies(e.s == O.NONE_OBJECT, And(e.err != 0, e.result == -1)),
               Implies(e.err == 0, e.result == 0), Implies(e.err != 0, e.result == -1))


def _native(model, ob=None):
    import os
    import subprocess
    text = CATALOGUE + "\ndef py_iter_set(s):\n    l = []\n    iter_set(s, l)\n    return l\ndef py_iter_frozenset(s):\n    l = []\n    iter_frozenset(s, l)\n    return l\ndef py_enum_list(s):\n    l = []\n    enum_list(s, l)\n    return l\n"
    try:
        ctext, cfile = cextract.compile_pyx(text, name="dvsetiter")
    except Exception as ex:
        return {"confirmed": False, "note": "compile failed: %r" % ex}
    d = os.path.dirname(cfile)
    p = subprocess.run(["clang", "-shared", "-fPIC", "-O0", "-w", "-I" + cextract.PY_INCLUDE, cfile, "-o", os.path.join(d, "dvsetiter.so")],
                       capture_output=True, text=True)
    if p.returncode != 0:
        return {"confirmed": False, "note": "build failed " + p.stderr[-300:]}
    code = ("import sys; sys.path.insert(0, %r); import dvsetiter as m\nbad = []\n"
            "for f in (m.py_iter_set, m.py_iter_frozenset, m.py_enum_list):\n"
            "    try: bad.append((f.__name__, 'returned', f(None)))\n"
            "    except TypeError: pass\n"
            "    except Exception as e: bad.append((f.__name__, type(e).__name__, str(e)))\n"
            "if sorted(m.py_iter_set({1, 2, 3})) != [1, 2, 3]: bad.append('iteration')\nprint(bad)\n" % d)
    r = subprocess.run(["/venv/bin/python", "-c", code], capture_output=True, text=True, timeout=120)
    out = r.stdout.strip() if r.returncode >= 0 else "crashed with signal %d" % -r.returncode
    return {"inputs": "None passed for the set-typed / frozenset-typed argument (built without -DNDEBUG: CPython's own assertions are live)",
            "actual": (out or r.stderr[-300:])[:500], "expected": "TypeError ('NoneType' object is not iterable)", "confirmed": out != "[]",
            "obligation": getattr(ob, "name", None), "how": "catalogue compiled by the working-tree compiler; called natively"}


def units(tier):
    us = []
    callees = {"__Pyx_set_iterator": SetIterator(), "__Pyx_set_iter_next": SetIterNext(), "__Pyx_PyList_Append": ListAppend()}
    callees["__Pyx_PyList_GET_ITEM_REF"] = ListItemRef()
    for name in ("iter_set", "iter_frozenset", "enum_list"):
        # enum_list: the loop is cut by the trivial invariant, so the arithmetic of its (havocked) counters is NOT part of the claim - only the
        # preconditions of the calls (what the loop hands to PyList_GET_SIZE) and the postcondition are
        props = {"C14": None, "C36": ["pre", "ub", "subset"]} if name != "enum_list" else {"C14": ["pre", "post", "subset"], "C36": ["pre", "subset"]}
        u = L3Unit("L3setiter.%s" % name, props, CATALOGUE, name, pyobjs=("s", "l"), callees=callees,
                   requires=[("kernel: the list argument is a list (not None); the set argument may be None", lambda e: e.l != O.NONE_OBJECT)],
                   ensures=[("a None argument ends in an exception; the result is -1 exactly when an exception is pending", _post)],
                   options={"merge": False, "model_none": True, "invariants": {0: _Trivial()}, "unroll": {1: 2, 2: 2, 3: 2},
                            # (declared in the module's own preamble: DefinitelyUnique, OwnStrongReference, FunctionArgument, SharedReference)
                            "enum_values": {"__Pyx_ReferenceSharing_OwnStrongReference": 1, "__Pyx_ReferenceSharing_DefinitelyUnique": 0,
                                            "__Pyx_ReferenceSharing_FunctionArgument": 2, "__Pyx_ReferenceSharing_SharedReference": 3}},
                   subject={"mechanism": "Optimize.IterationTransform._transform_set_iteration (None check of the iterated object)"})
        u.defines = ("NDEBUG",)          # release configuration of Python.h: PyList_GET_ITEM's cast macro is then free of assert()
        u.exec_cls = O.CExecPyObj
        u.replay = _native
        u.concrete_search = lambda ob, regions=(): _native({}, ob)
        us.append(u)
    return us


REGIONS = {}
