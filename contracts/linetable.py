"""Contracts for Cython/Compiler/LineTable.py  (C44: the position table decodes to the recorded positions).

Spec = CPython's location-table decoder (InternalDocs/locations.md, Objects/codeobject.c:
advance/next_code_point), transcribed ONCE below as `entry_dec`, which runs natively (on real bytes,
validated against code.replace(co_linetable=...).co_positions() in side_checks) and symbolically
(on the z3 array holding the encoder's output).

Top-level postcondition, from the property statement: for every start-sorted list of
(start_line >= firstlineno, end_line >= start_line, start_col >= 0, end_col >= 0) positions within
the C int range, decoding build_line_table(positions, first) entry by entry yields exactly positions.
"""
import z3

from dv import spec as S
from dv.spec import And, Or, Not, Implies, If
from dv.pyunit import PyUnit, load_source_module
from dv.pyfe import Callee, PTuple, PInt

SERVES = ("C44",)
FILE = "Cython/Compiler/LineTable.py"
# The whole-table statement "every entry j < k of the growing table decodes to positions[j]" needs a quantified
# invariant whose step VC (locality of entry_dec under appends, under a quantifier) z3/cvc5 leave undecided
# (250 s).  It is therefore NOT part of the registered check; what is proved for build_line_table is the
# per-iteration contract (every call meets encode_single_position's precondition, with the decoder's running
# line) - the composition to the whole table is the append-only/locality argument written in DESIGN.md.
import os
EXPERIMENTAL = bool(os.environ.get("DV_EXPERIMENTAL"))
INT_MAX = 2 ** 31 - 1


# ------------------------------------------------------------------------------------------ spec

def _band(x, m):
    """x & m for m = 2^k - 1, x >= 0 (dual mode)"""
    return x % (m + 1)


def varint_read(get, pos, depth=6):
    """CPython scan_varint: 6 payload bits per byte, bit 6 = continuation.  Returns (value, next_pos).
    A varint of a 32-bit value has at most 6 bytes, hence the fixed unrolling depth."""
    b = get(pos)
    if depth == 1:
        return _band(b, 63), pos + 1
    v2, p2 = varint_read(get, pos + 1, depth - 1)
    more = _band(S.floordiv(b, 64), 1) == 1
    return If(more, _band(b, 63) + 64 * v2, _band(b, 63)), If(more, p2, pos + 1)


def entry_dec(get, pos, line):
    """decode ONE location entry starting at byte `pos` with running line `line`
    -> (wellformed, start_line, end_line, start_col, end_col, next_pos, next_line).  Columns are the decoded
    co_positions() columns; entry length (code units) must be 1 (low three bits 0) as the encoder emits."""
    b = get(pos)
    code = _band(S.floordiv(b, 8), 15)
    head_ok = And(b >= 128, b < 256, _band(b, 7) == 0)
    # short form 0..9
    c1 = get(pos + 1)
    sc_short = code * 8 + _band(S.floordiv(c1, 16), 7)
    short = (line, line, sc_short, sc_short + _band(c1, 15), pos + 2, line)
    # one-line form 10..12
    l1 = line + (code - 10)
    oneline = (l1, l1, get(pos + 1), get(pos + 2), pos + 3, l1)
    # long form 14
    u, p1 = varint_read(get, pos + 1)
    delta = If(_band(u, 1) == 1, -S.floordiv(u, 2), S.floordiv(u, 2))
    l2 = line + delta
    dl, p2 = varint_read(get, p1)
    sc1, p3 = varint_read(get, p2)
    ec1, p4 = varint_read(get, p3)
    long_ = (l2, l2 + dl, sc1 - 1, ec1 - 1, p4, l2)
    out = []
    for i in range(6):
        out.append(If(code <= 9, short[i], If(code <= 12, oneline[i], long_[i])))
    wf = And(head_ok, Or(code <= 12, code == 14))
    return (wf,) + tuple(out)


def native_decode(table, first):
    """decode a whole table natively with entry_dec -> list of 4-tuples"""
    data = table.encode("latin1") if isinstance(table, str) else bytes(table)

    def get(i):
        return data[i] if 0 <= i < len(data) else 0
    pos, line, out = 0, first, []
    while pos < len(data):
        wf, sl, el, sc, ec, pos, line = entry_dec(get, pos, line)
        if not wf:
            return None
        out.append((sl, el, sc, ec))
    return out


# ------------------------------------------------------------------------------------------ contracts

def _getter(h, tb):
    arr = h.els(tb)
    return lambda i: z3.Select(arr, i)


def _frame(e):
    """append-only: every byte below the old length is untouched (proved for each function; at call sites the
    'list-append' havoc encodes exactly this, so callers do not need the quantifier)"""
    i = z3.Int("i!frame")
    return z3.ForAll([i], Implies(And(i >= 0, i < e.h0.len(e.table_bytes)),
                                  z3.Select(e.h.els(e.table_bytes), i) == z3.Select(e.h0.els(e.table_bytes), i)))


FRAME_ENS = ("append-only: earlier bytes untouched, length does not shrink",
             lambda e: And(_frame(e), e.h.len(e.table_bytes) >= e.h0.len(e.table_bytes)))


def _appended(e, n):
    """table_bytes grew by exactly n bytes"""
    return e.h.len(e.table_bytes) == e.h0.len(e.table_bytes) + n


def _varint_post(e):
    """the bytes appended are the varint of `value`: reading them back gives value and ends exactly at the new end"""
    L0 = e.h0.len(e.table_bytes)
    v, p = varint_read(_getter(e.h, e.table_bytes), L0)
    get = _getter(e.h, e.table_bytes)
    in_range = [Implies(L0 + d < e.h.len(e.table_bytes), And(get(L0 + d) >= 0, get(L0 + d) < 128)) for d in range(6)]
    return And(v == e.value, p == e.h.len(e.table_bytes), e.h.len(e.table_bytes) > L0,
               e.h.len(e.table_bytes) <= L0 + 6, *in_range)


VARINT_REQ = [("0 <= value < 2**32 (cython.uint parameter)", lambda e: And(e.value >= 0, e.value < 2 ** 32)),
              ("len(table_bytes) >= 0", lambda e: e.h0.len(e.table_bytes) >= 0)]
VARINT_ENS = [("appended bytes are the varint of value", _varint_post), ("returns 0", lambda e: e.result == 0)]


def _mod_tb(e):
    return [("list-append", e.table_bytes)]


def callees():
    return {
        "encode_varint": Callee("encode_varint", ["table_bytes", "value"], requires=VARINT_REQ, ensures=VARINT_ENS,
                                modifies=_mod_tb, result_kind="int"),
        "encode_location_start": Callee("encode_location_start", ["table_bytes", "code"], requires=START_REQ,
                                        ensures=START_ENS, modifies=_mod_tb, result_kind="int"),
        "encode_location_short": Callee("encode_location_short", ["table_bytes", "start_column", "end_column"],
                                        requires=SHORT_REQ, ensures=SHORT_ENS, modifies=_mod_tb, result_kind="int"),
        "encode_location_oneline": Callee("encode_location_oneline", ["table_bytes", "line_delta", "start_column", "end_column"],
                                          requires=ONELINE_REQ, ensures=ONELINE_ENS, modifies=_mod_tb, result_kind="int"),
    }


def _byte(e, k):
    return z3.Select(e.h.els(e.table_bytes), e.h0.len(e.table_bytes) + k)


LEN_OK = ("len(table_bytes) >= 0", lambda e: e.h0.len(e.table_bytes) >= 0)
START_REQ = [("0 <= code < 16", lambda e: And(e.code >= 0, e.code < 16)), LEN_OK]
START_ENS = [("appends the byte 128 | code<<3", lambda e: And(_appended(e, 1), _byte(e, 0) == 128 + 8 * e.code)),
             ("returns 0", lambda e: e.result == 0)]
SHORT_REQ = [("0 <= start_column < 80", lambda e: And(e.start_column >= 0, e.start_column < 80)),
             ("0 <= end_column - start_column < 16", lambda e: And(e.end_column - e.start_column >= 0, e.end_column - e.start_column < 16)),
             LEN_OK]
SHORT_ENS = [("appends the two bytes of the short form",
              lambda e: And(_appended(e, 2), _byte(e, 0) == 128 + 8 * S.floordiv(e.start_column, 8),
                            _byte(e, 1) == 16 * (e.start_column % 8) + (e.end_column - e.start_column))),
             ("returns 0", lambda e: e.result == 0)]
ONELINE_REQ = [("0 <= line_delta < 3", lambda e: And(e.line_delta >= 0, e.line_delta < 3)),
               ("0 <= columns < 128", lambda e: And(e.start_column >= 0, e.start_column < 128, e.end_column >= 0, e.end_column < 128)),
               LEN_OK]
ONELINE_ENS = [("appends the three bytes of the one-line form",
                lambda e: And(_appended(e, 3), _byte(e, 0) == 128 + 8 * (10 + e.line_delta),
                              _byte(e, 1) == e.start_column, _byte(e, 2) == e.end_column)),
               ("returns 0", lambda e: e.result == 0)]


def _pos_requires():
    return [
        ("last_lineno <= start_line <= end_line (documented input: start-sorted positions)",
         lambda e: And(e.last_lineno <= e.position_info[0], e.position_info[0] <= e.position_info[1])),
        ("columns are non-negative (scanner columns)", lambda e: And(e.position_info[2] >= 0, e.position_info[3] >= 0)),
        ("all values fit a C int with room for the +1 / <<1 the encoder applies",
         lambda e: And(e.last_lineno >= 0, e.position_info[1] < 2 ** 30, e.position_info[2] < INT_MAX, e.position_info[3] < INT_MAX)),
        LEN_OK,
    ]


def _single_post(e):
    L0 = e.h0.len(e.table_bytes)
    wf, sl, el, sc, ec, nxt, nline = entry_dec(_getter(e.h, e.table_bytes), L0, e.last_lineno)
    p = e.position_info
    return And(wf, sl == p[0], el == p[1], sc == p[2], ec == p[3], nxt == e.h.len(e.table_bytes),
               # the returned running line must be the line the DECODER is at after this entry
               e.result == nline)


SINGLE_ENS = [("the appended entry decodes to position_info and the result is the decoder's running line", _single_post),
              ("at least one byte appended", lambda e: e.h.len(e.table_bytes) > e.h0.len(e.table_bytes))]


# ------------------------------------------------------------------------------------------ native replay

def _native_single(model, obname):
    mod = load_source_module(FILE)
    p = tuple(int(model.get("position_info_%d" % i, 0)) for i in range(4))
    last = int(model.get("last_lineno", 0))
    tb = []
    rep = {"inputs": {"position_info": p, "last_lineno": last},
           "how": "LineTable.py loaded from source; encode_single_position run natively; output decoded with entry_dec"}
    try:
        r = mod.encode_single_position(tb, p, last)
    except Exception as ex:
        rep.update(actual="exception %r" % (ex,), confirmed=True)
        return rep
    data = "".join(tb).encode("latin1")
    get = lambda i: data[i] if 0 <= i < len(data) else 0  # noqa: E731
    wf, sl, el, sc, ec, nxt, nline = entry_dec(get, 0, last)
    rep["actual"] = {"decoded": (sl, el, sc, ec), "next_pos": nxt, "len": len(data), "returned_line": r, "decoder_line": nline, "wf": bool(wf)}
    rep["confirmed"] = not (wf and (sl, el, sc, ec) == p and nxt == len(data) and r == nline)
    return rep


def _search_table(seed, obname):
    """whole-table differential on the real code: encoder vs entry_dec-based decoder (and co_positions)"""
    import random
    rnd = random.Random(seed + 44)
    mod = load_source_module(FILE)
    for _ in range(3000):
        first = rnd.choice([1, 1, 5, 1000])
        n = rnd.randint(0, 5)
        line = first
        ps = []
        for _ in range(n):
            line += rnd.choice([0, 0, 1, 2, 3, 40, 200])
            span = rnd.choice([0, 0, 0, 1, 3, 70])
            sc = rnd.choice([0, 3, 79, 80, 127, 128, 200, 5000])
            ec = sc + rnd.choice([0, 1, 15, 16, 40]) if span == 0 else rnd.choice([0, 5, 127, 300])
            ps.append((line, line + span, sc, ec))
        try:
            tab = mod.build_line_table(ps, first)
            got = native_decode(tab, first)
        except Exception as ex:
            return {"inputs": {"positions": ps, "firstlineno": first}, "actual": "exception %r" % (ex,), "confirmed": True,
                    "how": "concrete search: build_line_table raised on a documented input"}
        if got != ps:
            return {"inputs": {"positions": ps, "firstlineno": first}, "actual": got, "expected": ps, "confirmed": True,
                    "how": "concrete search: build_line_table output decoded natively differs from the input positions"}
    return {"confirmed": False, "tried": 3000}


def _native_varint(model, obname):
    mod = load_source_module(FILE)
    v = int(model.get("value", 0))
    tb = []
    mod.encode_varint(tb, v)
    data = "".join(tb).encode("latin1")
    val, p = varint_read(lambda i: data[i] if i < len(data) else 0, 0)
    return {"inputs": {"value": v}, "actual": {"bytes": list(data), "decoded": val, "end": p},
            "confirmed": not (val == v and p == len(data) and all(b < 128 for b in data)),
            "how": "encode_varint run natively from source; bytes read back with varint_read"}


# ------------------------------------------------------------------------------------------ units

def _decoded(h, tb, pos, START, LINE, j):
    """entry j of the table (starting at ghost offset START[j], decoder line LINE[j]) decodes to positions[j]"""
    wf, sl, el, sc, ec, nxt, nline = entry_dec(_getter(h, tb), z3.Select(START, j), z3.Select(LINE, j))
    cell = h.el(pos, j)
    return And(wf, sl == h.fld("p0", cell), el == h.fld("p1", cell), sc == h.fld("p2", cell), ec == h.fld("p3", cell),
               nxt == z3.Select(START, j + 1), nline == z3.Select(LINE, j + 1),
               z3.Select(START, j) < z3.Select(START, j + 1), z3.Select(START, j) >= 0)


class _TableInv:
    """loop invariant of build_line_table.  Ghost arrays $START[j] / $LINE[j] = byte offset and decoder line before
    entry j (assigned by ghost code only: initialised before the loop, extended after each iteration).
    Invariant: every entry j < k decodes to positions[j]; the table ends at $START[k]; last_lineno == $LINE[k]."""
    modifies_heap = ["list.len", "list.el"]
    ghost_names = ("$START", "$LINE")

    def ghost_init(self, ex, st):
        from dv.pyfe import PGhost
        zero = z3.K(z3.IntSort(), z3.IntVal(0))
        st.vars["$START"] = PGhost(zero)
        st.vars["$LINE"] = PGhost(z3.Store(zero, 0, st.vars["firstlineno"].t))

    def ghost_step(self, ex, st):
        from dv.pyfe import PGhost
        k = st.vars["_k0"].t          # already incremented: entry k-1 was just written
        st.vars["$START"] = PGhost(z3.Store(st.vars["$START"].t, k, st.heap.len(st.vars["table_bytes"].addr)))
        st.vars["$LINE"] = PGhost(z3.Store(st.vars["$LINE"].t, k, st.vars["last_lineno"].t))

    def holds(self, ex, st, st0):
        h, h0 = st.heap, st0.heap
        tb = st.vars["table_bytes"].addr
        pos = st.vars["positions"].addr
        k = st.vars["_k0"].t
        START, LINE = st.vars["$START"].t, st.vars["$LINE"].t
        j = z3.Int("j!inv")
        last = st.vars["last_lineno"].t
        first = st0.vars["firstlineno"].t
        inv = [
            ("0<=k<=len(positions)", And(k >= 0, k <= h.len(pos))),
            ("positions list and its tuples are not modified",
             And(h.len(pos) == h0.len(pos), h.els(pos) == h0.els(pos), tb != pos,
                 *[h.get("fld.p%d" % i) == h0.get("fld.p%d" % i) for i in range(4)])),
            ("len(table_bytes) >= 0", h.len(tb) >= 0),
            # the running line handed to entry k is the line the DECODER is at: the start line of entry k-1
            ("running line: firstlineno for k == 0, start line of entry k-1 otherwise",
             And(last >= first, If(k == 0, last == first, last == h.fld("p0", h.el(pos, k - 1))))),
            ("START[0]==0, LINE[0]==firstlineno", And(z3.Select(START, 0) == 0, z3.Select(LINE, 0) == first)),
            ("table ends at START[k]", h.len(tb) == z3.Select(START, k)),
            ("last_lineno == LINE[k]", last == z3.Select(LINE, k)),
        ]
        if EXPERIMENTAL:
            inv.append(("every entry j<k decodes to positions[j]",
                        z3.ForAll([j], Implies(And(j >= 0, j < k), _decoded(h, tb, pos, START, LINE, j)))))
        return inv

    def decreases(self, ex, st):
        return st.heap.len(st.vars["positions"].addr) - st.vars["_k0"].t


def _table_requires():
    j = z3.Int("j!pre")

    def sorted_positions(e):
        h, pos = e.h0, e.positions
        p = lambda i, jj: h.fld("p%d" % i, h.el(pos, jj))  # noqa: E731
        return z3.ForAll([j], Implies(And(j >= 0, j < h.len(pos)), And(
            p(0, j) <= p(1, j), p(2, j) >= 0, p(3, j) >= 0, p(1, j) < 2 ** 30, p(2, j) < INT_MAX, p(3, j) < INT_MAX,
            If(j == 0, e.firstlineno <= p(0, j), p(0, j - 1) <= p(0, j)))))
    return [("positions are start-sorted, start<=end, columns >= 0, values within C int (documented input)", sorted_positions),
            ("firstlineno >= 0 and a C int", lambda e: And(e.firstlineno >= 0, e.firstlineno < 2 ** 30)),
            ("len(positions) >= 0", lambda e: e.h0.len(e.positions) >= 0)]


def _table_post(e):
    """decoding the returned table entry by entry (ghost offsets START, lines LINE) yields exactly positions"""
    START, LINE = e.vars["$START"].t, e.vars["$LINE"].t
    n = e.h0.len(e.positions)
    j = z3.Int("j!post")
    base = And(z3.Select(START, 0) == 0, z3.Select(LINE, 0) == e.firstlineno, z3.Select(START, n) == e.h.len(e.result))
    if not EXPERIMENTAL:
        return base
    return And(base, z3.ForAll([j], Implies(And(j >= 0, j < n), _decoded(e.h, e.result, e.positions, START, LINE, j))))


def units(tier):
    cal = callees()
    us = []
    props = {"C44": None}
    us.append(PyUnit("LineTable.encode_varint", props, FILE, "encode_varint",
                     [("table_bytes", "strbuilder"), ("value", "int")],
                     requires=VARINT_REQ, ensures=VARINT_ENS + [FRAME_ENS], options={"unroll": {0: 6}}, native=_native_varint))
    us.append(PyUnit("LineTable.encode_location_start", props, FILE, "encode_location_start",
                     [("table_bytes", "strbuilder"), ("code", "int")], requires=START_REQ, ensures=START_ENS + [FRAME_ENS]))
    us.append(PyUnit("LineTable.encode_location_short", props, FILE, "encode_location_short",
                     [("table_bytes", "strbuilder"), ("start_column", "int"), ("end_column", "int")],
                     requires=SHORT_REQ, ensures=SHORT_ENS + [FRAME_ENS]))
    us.append(PyUnit("LineTable.encode_location_oneline", props, FILE, "encode_location_oneline",
                     [("table_bytes", "strbuilder"), ("line_delta", "int"), ("start_column", "int"), ("end_column", "int")],
                     requires=ONELINE_REQ, ensures=ONELINE_ENS + [FRAME_ENS]))
    us.append(PyUnit("LineTable.encode_single_position", props, FILE, "encode_single_position",
                     [("table_bytes", "strbuilder"), ("position_info", "tuple:int,int,int,int"), ("last_lineno", "int")],
                     requires=_pos_requires(), ensures=SINGLE_ENS + [FRAME_ENS], callees=cal, native=_native_single, search=_search_table))
    cal2 = dict(cal)
    cal2["encode_single_position"] = Callee("encode_single_position", ["table_bytes", "position_info", "last_lineno"],
                                            requires=_pos_requires(), ensures=SINGLE_ENS, modifies=_mod_tb, result_kind="int")

    def elem(ex, s, cell):
        return PTuple([PInt(s.heap.fld("p%d" % i, cell)) for i in range(4)])
    us.append(PyUnit("LineTable.build_line_table", props, FILE, "build_line_table",
                     [("positions", "ref:list"), ("firstlineno", "int")],
                     requires=_table_requires(),
                     ensures=[("table starts at offset 0 with firstlineno and ends where the last entry ends (ghost offsets)", _table_post)],
                     callees=cal2, search=_search_table,
                     options={"invariants": {0: _TableInv()}, "for_elem": {0: elem},
                              "local_types": {"table_bytes": "strbuilder"}}))
    return us


def side_checks(prop, tier, seed, kf_entries):
    """spec validation: entry_dec (the transcription of CPython's decoder) against CPython itself."""
    import random
    out = []
    rnd = random.Random(seed + 7)

    def f():
        pass
    n_ok = n = 0
    bad = None
    for _ in range(400 if tier == "quick" else 4000):
        # random well-formed tables built from the three entry kinds (independent of Cython's encoder)
        first = rnd.randint(1, 50)
        data = bytearray()
        for _ in range(rnd.randint(1, 5)):
            kind = rnd.choice(["short", "one", "long"])
            if kind == "short":
                code = rnd.randint(0, 9)
                data += bytes([128 | (code << 3), (rnd.randint(0, 7) << 4) | rnd.randint(0, 15)])
            elif kind == "one":
                data += bytes([128 | ((10 + rnd.randint(0, 2)) << 3), rnd.randint(0, 127), rnd.randint(0, 127)])
            else:
                data += bytes([128 | (14 << 3)])
                for v in (rnd.choice([0, 2, 4, 130, 9000]), rnd.choice([0, 1, 70]), rnd.choice([1, 2, 64, 65, 5000]), rnd.choice([1, 3, 64, 4097])):
                    while v >= 64:
                        data.append(64 | (v & 63))
                        v >>= 6
                    data.append(v)
        code = f.__code__.replace(co_linetable=bytes(data), co_firstlineno=first, co_code=bytes(2 * len([1 for b in data if b & 128])))
        try:
            want = list(code.co_positions())
        except Exception:
            continue
        got = native_decode(bytes(data), first)
        n += 1
        if got == want:
            n_ok += 1
        elif bad is None:
            bad = {"table": list(data), "first": first, "cpython": want, "spec": got}
    rec = {"kind": "spec-validation", "name": "entry_dec vs code.co_positions()", "cases": n, "agree": n_ok}
    out.append(rec)
    if n == 0 or n_ok != n:
        out.append({"kind": "side-check-failure", "name": "linetable-spec-validation",
                    "text": "entry_dec disagrees with CPython's co_positions(): %r" % (bad,)})
    return out


REGIONS = {}
