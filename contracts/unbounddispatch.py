"""Contract for the dispatch of unbound builtin-method calls `T.meth(obj, ...)` (C13 kernel; its memory safety for C36),
Cython/Compiler/Visitor.py::MethodDispatcherTransform._dispatch_to_handler.

`list.pop(o)`, `dict.get(o, k)`, `bytearray.append(o, v)` ... are dispatched to the same specialised handlers as the bound
forms `o.pop()`...; those handlers emit C helpers that read `o` as a list / dict / bytearray WITHOUT checking its type (for
the bound form the receiver's static type guarantees it).  CPython raises TypeError when `o` is not a T.  From the statement
("the same result and exception ... for every argument value, including wrong types"), and because the helper would otherwise
reinterpret the memory of another object:
    kernel: the called function is an attribute of a Python object (function.is_attribute, function.type.is_pyobject);
    post:   the call is dispatched as an UNBOUND method of type T only when the first argument's static type IS the builtin
            type named T (`Builtin.builtin_types.get(name) is arg_list[0].type`); every other dispatch is the bound form with
            the receiver `function.obj` (or the generic "object" dispatch).
`_dispatch_to_method_handler` is a contract stub that records how it was called.
"""
import z3

from dv.spec import And, Or, Not, Implies
from dv.pyunit import PyUnit
from dv.pyfe import Callee, POpt, PRef, NONE_ADDR

SERVES = ("C13", "C36")
FILE = "Cython/Compiler/Visitor.py"
I = z3.IntSort()
BT = z3.Function("builtin_types_get", I, I)        # Builtin.builtin_types.get(name): the type object, or NONE_ADDR
G_SELF, G_UNBOUND, G_TYPENAME, G_ARGS, G_CALLS = z3.Ints("ghost.dispatch.self_arg ghost.dispatch.is_unbound ghost.dispatch.type_name "
                                                         "ghost.dispatch.arg_list ghost.dispatch.count")
FIELDS = {"obj:MethodDispatcherTransform": {},
          "obj:Node": {"is_name": "bool", "is_attribute": "bool", "attribute": "any", "type": "ref:obj:Type", "obj": "ref:obj:Node", "name": "any",
                       "entry": "any", "self": "any"},
          "obj:Type": {"is_pyobject": "bool", "is_builtin_type": "bool", "is_exception_type": "bool", "name": "any"}}


def _callees():
    rec = Callee("MethodDispatcherTransform._dispatch_to_method_handler",
                 ["self", "attr_name", "self_arg", "is_unbound_method", "type_name", "node", "function", "arg_list", "kwargs"],
                 result_kind="ref:obj:Node",
                 ensures=[("ghost record of the dispatch", lambda e: And(G_CALLS == 1, G_UNBOUND == z3.If(e.is_unbound_method, 1, 0), G_TYPENAME == e.type_name,
                                                                        G_ARGS == e.arg_list,
                                                                        G_SELF == (e.self_arg if e.self_arg is not None else z3.IntVal(NONE_ADDR))))])
    get = Callee("Builtin.builtin_types.get", ["name"], result_kind=lambda ex, e: POpt(BT(e.name) == NONE_ADDR, PRef("obj:Type", BT(e.name))))
    return {"MethodDispatcherTransform._dispatch_to_method_handler": rec, "Builtin.builtin_types.get": get}


def _post(e):
    recv = e.h0.fld("obj", e.function)
    first = e.h0.el(e.arg_list, 0)
    unbound_ok = And(e.h0.len(e.arg_list) >= 1, BT(e.h0.fld("name", recv)) != NONE_ADDR, BT(e.h0.fld("name", recv)) == e.h0.fld("type", first))
    return Or(e.result == e.node,
              And(G_CALLS == 1, Implies(G_UNBOUND == 1, unbound_ok), Implies(G_UNBOUND == 0, G_SELF == recv)))


def _native(model, obname):
    import os
    import subprocess
    from dv import cextract
    src = ("# cython: language_level=3\n"
           "def lpop(o): return list.pop(o)\ndef lpopi(o, i): return list.pop(o, i)\ndef dpop(o, k): return dict.pop(o, k)\n"
           "def bapp(o, v): return bytearray.append(o, v)\ndef dget(o, k): return dict.get(o, k)\ndef lsort(o): return list.sort(o)\n")
    try:
        ctext, cfile = cextract.compile_pyx(src, name="dvunbound")
    except Exception as ex:
        return {"confirmed": False, "note": "compile failed: %r" % ex}
    d = os.path.dirname(cfile)
    p = subprocess.run(["clang", "-shared", "-fPIC", "-O0", "-w", "-DNDEBUG", "-I" + cextract.PY_INCLUDE, cfile, "-o", os.path.join(d, "dvunbound.so")],
                       capture_output=True, text=True)
    if p.returncode != 0:
        return {"confirmed": False, "note": "build failed " + p.stderr[-300:]}
    bad = []
    for name, args in (("lpop", "({1: 2},)"), ("lpop", "('ab',)"), ("lpopi", "({1: 2}, 1)"), ("lpopi", "(bytearray(b'ab'), 1)"), ("dpop", "([2, 1], 1)"),
                       ("bapp", "([1, 2], 66)"), ("dget", "((1, 2), 1)"), ("lsort", "((2, 1),)"), ("lpop", "({1, 2, 3, 4},)")):
        code = ("import sys; sys.path.insert(0, %r); import dvunbound as m\n"
                "try: r = m.%s(*%s); print('returned', repr(r))\nexcept TypeError: print('TypeError')\nexcept Exception as e: print(type(e).__name__)\n" % (d, name, args))
        r = subprocess.run(["/venv/bin/python", "-c", code], capture_output=True, text=True, timeout=60)
        out = r.stdout.strip() if r.returncode >= 0 else "crashed with signal %d" % -r.returncode
        if out != "TypeError":
            bad.append((name, args, out))
    return {"inputs": "T.meth(o, ..) with an untyped o that is not a T: list.pop on dict / str / set / bytearray, dict.pop / dict.get on a list / tuple, "
                      "bytearray.append on a list, list.sort on a tuple (each in its own process)",
            "actual": repr(bad[:5]), "expected": "TypeError for every call", "confirmed": bool(bad), "obligation": obname,
            "how": "module compiled by the working-tree compiler (Python sources); calls made natively"}


def units(tier):
    def kernel(e):
        ft = e.h0.fld("type", e.function)
        return And(e.h0.fld("is_name", e.function) == 0, e.h0.fld("is_attribute", e.function) != 0, e.h0.fld("is_pyobject", ft) != 0)
    u = PyUnit("Visitor.MethodDispatcherTransform._dispatch_to_handler[attribute call]", {"C13": None, "C36": ["post", "subset"]}, FILE,
               "MethodDispatcherTransform._dispatch_to_handler",
               [("self", "ref:obj:MethodDispatcherTransform"), ("node", "ref:obj:Node"), ("function", "ref:obj:Node"), ("arg_list", "ref:list"), ("kwargs", "any")],
               requires=[("kernel: the called function is an attribute of a Python object", kernel),
                         ("the argument list is a list of nodes", lambda e: e.h0.len(e.arg_list) >= 0)],
               ensures=[("an unbound dispatch T.meth(o, ..) happens only when o's static type is the builtin type named T; otherwise the receiver is function.obj",
                         _post)],
               callees=_callees(), native=_native, search=lambda seed, ob: _native({}, ob),
               options={"fields": FIELDS, "merge": False, "modules": {"Builtin": "obj:Type"}, "elem_kind": {"list": "ref:obj:Node"}})
    return [u]


REGIONS = {}
