"""L3 catalogue for C20: the order in which the emitted C evaluates the operands of an expression / assignment.

Subject: the C function the working-tree compiler generates for each catalogue function.  The leaves of the catalogue
expressions are calls of external C functions dv_a() .. dv_e() and dv_f2(x, y); in the proof each of them is a CONTRACT whose
effect is to append its identity to a ghost call trace and to return a symbolic value (one per leaf, any value in
[-100, 100]).  Contract of every catalogue function, from the statement ("evaluates sub-expressions and calls in the order
CPython does ... each at most once and short-circuiting stops at the same point"): for ALL leaf values
    the ghost trace at exit  ==  the sequence of leaf calls Python's evaluation rules give for the same source text
    (left to right; `and`/`or`/conditional expressions/chained comparisons stop where Python stops; the right-hand side of an
    assignment before its targets), and the returned value is Python's value.
The expected trace is computed from the catalogue's own `ast` by the reference evaluator below (threading the trace through
Python's evaluation order) and is validated against CPython's `exec` of the same text with logging leaves on every run.
Kernel: C-typed leaves in these expression shapes; object operands, attribute / subscript targets, unpacking of iterables,
dict / set displays and argument evaluation of Python calls are NOT covered.
"""
import ast
import itertools
import re

import z3

from dv.spec import And, Or, Not, Implies, If
from dv.l3 import L3Unit, CExecL3
from dv import cextract
from dv import pyref

SERVES = ("C20",)

LEAVES = ["dv_a", "dv_b", "dv_c", "dv_d", "dv_e", "dv_f2"]
VAL = z3.Function("leaf_value", z3.IntSort(), z3.IntSort())           # leaf index -> the value its call returns
F2 = z3.Function("leaf_f2_value", z3.IntSort(), z3.IntSort(), z3.IntSort())
MAXTRACE = 12

EXTERN = '''# cython: language_level=3
cdef extern from *:
    """
    int dv_a(void); int dv_b(void); int dv_c(void); int dv_d(void); int dv_e(void); int dv_f2(int, int);
    """
    int dv_a() noexcept
    int dv_b() noexcept
    int dv_c() noexcept
    int dv_d() noexcept
    int dv_e() noexcept
    int dv_f2(int x, int y) noexcept
'''

LOGGING = '''# cython: language_level=3
LOG = []
VALS = [0, 0, 0, 0, 0]
cdef int dv_a() noexcept:
    LOG.append(0); return VALS[0]
cdef int dv_b() noexcept:
    LOG.append(1); return VALS[1]
cdef int dv_c() noexcept:
    LOG.append(2); return VALS[2]
cdef int dv_d() noexcept:
    LOG.append(3); return VALS[3]
cdef int dv_e() noexcept:
    LOG.append(4); return VALS[4]
cdef int dv_f2(int x, int y) noexcept:
    LOG.append(5); return (x * 3 + y * 5) % 7 - 3
'''

BODY = '''
cdef int add3() noexcept:
    return dv_a() + dv_b() + dv_c()

cdef int mixed() noexcept:
    return dv_a() - dv_b() * dv_c()

cdef int args2() noexcept:
    return dv_f2(dv_a(), dv_b())

cdef int nested_args() noexcept:
    return dv_f2(dv_f2(dv_a(), dv_b()), dv_c())

cdef int and2() noexcept:
    return dv_a() and dv_b()

cdef int or3() noexcept:
    return dv_a() or dv_b() or dv_c()

cdef int andor() noexcept:
    return (dv_a() and dv_b()) or dv_c()

cdef int cond() noexcept:
    return dv_a() if dv_b() else dv_c()

cdef int chain() noexcept:
    return dv_a() < dv_b() < dv_c()

cdef int chain_mixed() noexcept:
    return dv_a() <= dv_b() == dv_c() != dv_d()

cdef int max3() noexcept:
    return max(dv_a(), dv_b(), dv_c())

cdef int min2() noexcept:
    return min(dv_a(), dv_b())

cdef int max_min() noexcept:
    return max(dv_a(), min(dv_b(), dv_c()), dv_d())

cdef int not_eq() noexcept:
    return not (dv_a() == dv_b())

cdef int pair() noexcept:
    cdef int x, y
    x, y = dv_a(), dv_b()
    return x - y

cdef int cascade() noexcept:
    cdef int x, y
    x = y = dv_a()
    return x + y

cdef int aug() noexcept:
    cdef int x
    x = dv_a()
    x += dv_b()
    x -= dv_c() * dv_d()
    return x

cdef int if_stmt() noexcept:
    if dv_a() > dv_b():
        return dv_c()
    return dv_d()

cdef int neg_add() noexcept:
    return -dv_a() + dv_b()

cdef int inline_then_abs() noexcept:
    return -dv_a() + abs(dv_b())

cdef int inline_then_minmax() noexcept:
    return dv_a() - max(dv_b(), dv_c())

cdef int inline_then_cond() noexcept:
    return dv_a() * (dv_b() if dv_c() else dv_d())

cdef int inline_then_bool() noexcept:
    return dv_a() + (dv_b() and dv_c())

cdef int cond_in_args() noexcept:
    return dv_f2(dv_a() if dv_b() else dv_c(), dv_d() or dv_e())

cdef int nested_cond() noexcept:
    return dv_a() if dv_b() else dv_c() if dv_d() else dv_e()

cdef int not_or() noexcept:
    return (not dv_a()) or dv_b()

cdef int cmp_and_cmp() noexcept:
    if dv_a() < dv_b() and dv_c() < dv_d():
        return 1
    return dv_e()

cdef int locals_chain() noexcept:
    cdef int x = dv_a()
    cdef int y = x + dv_b()
    return dv_f2(y, dv_c())

cdef int aug_min() noexcept:
    cdef int x = dv_a()
    x += min(dv_b(), dv_c())
    return x

cdef int two_calls() noexcept:
    return dv_f2(dv_a(), dv_b()) + dv_f2(dv_c(), dv_d())

cdef int max_plus_min() noexcept:
    return max(dv_a(), dv_b()) + min(dv_c(), dv_d())

cdef int arith4() noexcept:
    return dv_a() + dv_b() * dv_c() - dv_d()

cdef int abs_abs() noexcept:
    return abs(dv_a()) + abs(dv_b())

cdef int eq_ne_chain() noexcept:
    return dv_a() == dv_b() != dv_c()

cdef int cond_of_minmax() noexcept:
    return max(dv_a(), dv_b()) if dv_c() else min(dv_d(), dv_e())

cdef int floordiv2() noexcept:
    return dv_a() // (dv_b() * dv_b() + 1)

cdef int mod2() noexcept:
    return dv_a() % (dv_b() * dv_b() + 1)

cdef int in_tuple() noexcept:
    return dv_a() in (dv_b(), dv_c())

cdef int not_in_tuple() noexcept:
    return dv_a() not in (dv_b(), dv_c(), dv_d())
'''

# membership in a C array: the left operand is evaluated once, not once per item (the emitted loop is unrolled: 3 items)
ABODY = '''
cdef int in_carray(int* arr) noexcept:
    return dv_a() in arr[:3]

cdef int not_in_carray(int* arr) noexcept:
    return dv_b() not in arr[:3]
'''
AFUNCS = ["in_carray", "not_in_carray"]
ALEN = 3

CATALOGUE = EXTERN + BODY + ABODY
FUNCS = re.findall(r"^cdef int (\w+)\(\) noexcept:", BODY, re.M)


# ------------------------------------------------------------------------------------------------ reference evaluator

class _Ref:
    """Python's evaluation order over the loop-free catalogue subset.  Values are ints (bools as 0/1); the trace is
    (array, length); `mode` 'z3' builds terms, 'py' computes with Python values (used for the validation against exec)."""

    def __init__(self, mode, vals=None):
        self.mode, self.vals = mode, vals

    # --- value helpers
    def ite(self, c, a, b):
        if self.mode == "py":
            return a if c else b
        return z3.If(c, a, b)

    def truth(self, v):
        return (v != 0)

    def b2i(self, c):
        return self.ite(c, 1, 0) if self.mode == "py" else z3.If(c, z3.IntVal(1), z3.IntVal(0))

    def leaf(self, idx, args, tr):
        arr, n = tr
        if self.mode == "py":
            v = self.vals[idx] if idx < 5 else (args[0] * 3 + args[1] * 5) % 7 - 3
            return v, (arr + [idx], n + 1)
        v = VAL(idx) if idx < 5 else F2(args[0], args[1])
        return v, (z3.Store(arr, n, idx), n + 1)

    def merge(self, c, t1, t2):
        if self.mode == "py":
            return t1 if c else t2
        return (z3.If(c, t1[0], t2[0]), z3.If(c, t1[1], t2[1]))

    # --- expressions: returns (value, trace)
    def ev(self, n, env, tr):
        if isinstance(n, ast.Constant) and isinstance(n.value, int):
            return (n.value if self.mode == "py" else z3.IntVal(int(n.value))), tr
        if isinstance(n, ast.Name):
            return env[n.id], tr
        if isinstance(n, ast.Call) and isinstance(n.func, ast.Name):
            args = []
            for a in n.args:
                v, tr = self.ev(a, env, tr)
                args.append(v)
            f = n.func.id
            if f in LEAVES:
                return self.leaf(LEAVES.index(f), args, tr)
            if f in ("min", "max"):
                r = args[0]
                for a in args[1:]:
                    r = self.ite(a < r if f == "min" else a > r, a, r)
                return r, tr
            if f == "abs":
                return self.ite(args[0] < 0, -args[0], args[0]), tr
            raise pyref.OutOfSubset("call of %s" % f)
        if isinstance(n, ast.BinOp):
            a, tr = self.ev(n.left, env, tr)
            b, tr = self.ev(n.right, env, tr)
            if isinstance(n.op, ast.Add):
                return a + b, tr
            if isinstance(n.op, ast.Sub):
                return a - b, tr
            if isinstance(n.op, ast.Mult):
                return a * b, tr
            if isinstance(n.op, (ast.FloorDiv, ast.Mod)):
                # catalogue divisors are of the form x*x + 1 (positive): floor division / non-negative remainder, no ZeroDivisionError
                if self.mode == "py":
                    return (a // b if isinstance(n.op, ast.FloorDiv) else a % b), tr
                return (a / b if isinstance(n.op, ast.FloorDiv) else a % b), tr
            raise pyref.OutOfSubset("operator")
        if isinstance(n, ast.UnaryOp):
            a, tr = self.ev(n.operand, env, tr)
            if isinstance(n.op, ast.USub):
                return -a, tr
            if isinstance(n.op, ast.Not):
                return self.b2i(a == 0), tr
            raise pyref.OutOfSubset("unary operator")
        if isinstance(n, ast.BoolOp):
            v, tr = self.ev(n.values[0], env, tr)
            for nxt in n.values[1:]:
                go_on = self.truth(v) if isinstance(n.op, ast.And) else (v == 0)
                v2, tr2 = self.ev(nxt, env, tr)
                v, tr = self.ite(go_on, v2, v), self.merge(go_on, tr2, tr)
            return v, tr
        if isinstance(n, ast.IfExp):
            c, tr = self.ev(n.test, env, tr)
            a, tra = self.ev(n.body, env, tr)
            b, trb = self.ev(n.orelse, env, tr)
            return self.ite(self.truth(c), a, b), self.merge(self.truth(c), tra, trb)
        if isinstance(n, ast.Compare) and len(n.ops) == 1 and isinstance(n.ops[0], (ast.In, ast.NotIn)) and isinstance(n.comparators[0], ast.Tuple):
            # x in (a, b, ...): the left operand, then EVERY element of the display (the tuple is built before the test)
            left, tr = self.ev(n.left, env, tr)
            hit = False if self.mode == "py" else z3.BoolVal(False)
            for el in n.comparators[0].elts:
                v, tr = self.ev(el, env, tr)
                hit = (hit or left == v) if self.mode == "py" else z3.Or(hit, left == v)
            if isinstance(n.ops[0], ast.NotIn):
                hit = (not hit) if self.mode == "py" else z3.Not(hit)
            return self.b2i(hit), tr
        if (isinstance(n, ast.Compare) and len(n.ops) == 1 and isinstance(n.ops[0], (ast.In, ast.NotIn)) and isinstance(n.comparators[0], ast.Subscript)
                and isinstance(n.comparators[0].value, ast.Name) and isinstance(env.get(n.comparators[0].value.id), list)):
            # x in arr[:k] on a C array: the left operand ONCE, then a scan of the items (no calls)
            left, tr = self.ev(n.left, env, tr)
            items = env[n.comparators[0].value.id]
            hit = False if self.mode == "py" else z3.BoolVal(False)
            for v in items:
                hit = (hit or left == v) if self.mode == "py" else z3.Or(hit, left == v)
            if isinstance(n.ops[0], ast.NotIn):
                hit = (not hit) if self.mode == "py" else z3.Not(hit)
            return self.b2i(hit), tr
        if isinstance(n, ast.Compare):
            left, tr = self.ev(n.left, env, tr)
            return self.chain(left, list(zip(n.ops, n.comparators)), env, tr)
        raise pyref.OutOfSubset("expression %s" % type(n).__name__)

    def chain(self, left, rest, env, tr):
        op, rn = rest[0]
        right, tr = self.ev(rn, env, tr)
        c = {ast.Lt: lambda: left < right, ast.LtE: lambda: left <= right, ast.Gt: lambda: left > right, ast.GtE: lambda: left >= right,
             ast.Eq: lambda: left == right, ast.NotEq: lambda: left != right}[type(op)]()
        if len(rest) == 1:
            return self.b2i(c), tr
        v2, tr2 = self.chain(right, rest[1:], env, tr)
        return self.ite(c, v2, 0 if self.mode == "py" else z3.IntVal(0)), self.merge(c, tr2, tr)

    # --- statements: returns (returned?, value, trace, env)
    def run(self, stmts, env, tr):
        """-> list of (path condition, value, trace) for the returns (loop-free; conditions are disjoint and exhaustive)"""
        outs = []
        self._run(stmts, dict(env), tr, True if self.mode == "py" else z3.BoolVal(True), outs)
        return outs

    def _run(self, stmts, env, tr, pc, outs):
        for k, s in enumerate(stmts):
            if isinstance(s, ast.Pass):
                continue
            if isinstance(s, ast.Return):
                v, tr = self.ev(s.value, env, tr)
                outs.append((pc, v, tr))
                return
            if isinstance(s, ast.Assign):
                v, tr = self.evrhs(s.value, env, tr)
                for t in s.targets:
                    if isinstance(t, ast.Name):
                        env[t.id] = v
                    elif isinstance(t, ast.Tuple) and isinstance(v, list) and len(t.elts) == len(v):
                        for te, ve in zip(t.elts, v):
                            env[te.id] = ve
                    else:
                        raise pyref.OutOfSubset("assignment target")
                continue
            if isinstance(s, ast.AugAssign) and isinstance(s.target, ast.Name):
                cur = env[s.target.id]
                v, tr = self.ev(s.value, env, tr)
                env[s.target.id] = cur + v if isinstance(s.op, ast.Add) else cur - v
                continue
            if isinstance(s, ast.If):
                c, tr = self.ev(s.test, env, tr)
                t = self.truth(c)
                rest = stmts[k + 1:]
                if self.mode == "py":
                    self._run((s.body if t else s.orelse) + rest, env, tr, pc, outs)
                else:
                    self._run(s.body + rest, dict(env), tr, z3.And(pc, t), outs)
                    self._run(s.orelse + rest, dict(env), tr, z3.And(pc, z3.Not(t)), outs)
                return
            raise pyref.OutOfSubset("statement %s" % type(s).__name__)

    def evrhs(self, n, env, tr):
        if isinstance(n, ast.Tuple):
            vs = []
            for e in n.elts:
                v, tr = self.ev(e, env, tr)
                vs.append(v)
            return vs, tr
        return self.ev(n, env, tr)


def _fn_ast(name):
    src = pyref.python_source(BODY + ABODY)
    tree = ast.parse(src)
    fn = [n for n in tree.body if isinstance(n, ast.FunctionDef) and n.name == name]
    if not fn:
        raise pyref.OutOfSubset("no catalogue function %s" % name)
    return fn[0], src


def expected(name, env=None):
    """[(condition, value, (trace array, trace length))] of catalogue function `name` for symbolic leaf values"""
    fn, _src = _fn_ast(name)
    return _Ref("z3").run(fn.body, env or {}, (z3.K(z3.IntSort(), z3.IntVal(-1)), z3.IntVal(0)))


# ------------------------------------------------------------------------------------------------ the C side

class CExecTrace(CExecL3):
    def mem_default(self, key):
        return {"ghost.trace": z3.K(z3.IntSort(), z3.IntVal(-1)), "ghost.trace_n": z3.IntVal(0)}.get(key)


class Leaf:
    """contract of an external leaf function: it appends its identity to the ghost call trace and returns its (symbolic) value"""

    def __init__(self, idx):
        self.idx = idx

    def apply(self, ex, st, args, n):
        from dv.cfe import CV, node_type
        arr = st.mem.get("ghost.trace", z3.K(z3.IntSort(), z3.IntVal(-1)))
        cnt = st.mem.get("ghost.trace_n", z3.IntVal(0))
        st.mem["ghost.trace"] = z3.Store(arr, cnt, z3.IntVal(self.idx))
        st.mem["ghost.trace_n"] = cnt + 1
        v = VAL(self.idx) if self.idx < 5 else F2(args[0].t, args[1].t)
        st.path.append(And(v >= -100, v <= 100))
        ex.assumptions.add("leaf functions dv_*: each call appends to the ghost trace and returns a value in [-100, 100] that depends on the leaf "
                           "(and, for dv_f2, on its arguments) only")
        return CV(node_type(n), v)


def _post(name):
    def post(e):
        arr = e.mem.get("ghost.trace", z3.K(z3.IntSort(), z3.IntVal(-1)))
        cnt = e.mem.get("ghost.trace_n", z3.IntVal(0))
        cases = []
        env = {"arr": [z3.Select(e.mem0["arr"], i) for i in range(ALEN)]} if name in AFUNCS else {}
        for pc, val, (xarr, xcnt) in expected(name, env):
            same = And(cnt == xcnt, *[Implies(i < xcnt, z3.Select(arr, i) == z3.Select(xarr, i)) for i in range(MAXTRACE)])
            cases.append(Implies(pc, And(same, e.result == val)))
        return And(e.err == 0, *cases)
    return post


def _native(model, ob=None, only=None):
    """compile the catalogue with LOGGING leaves and compare trace and value of every function with CPython's exec of the same text"""
    import os
    import subprocess
    m = re.match(r"L3order\.(\w+)/", getattr(ob, "name", "") or "")
    funcs = [m.group(1)] if m and m.group(1) in FUNCS else list(FUNCS)      # the function of the failed obligation only
    if m and m.group(1) in AFUNCS:
        funcs = [m.group(1)]
    elif not m:
        funcs = funcs + AFUNCS
    wrappers = "".join("\ndef py_%s():\n    del LOG[:]\n    r = %s()\n    return r, list(LOG)\n" % (f, f) for f in funcs if f not in AFUNCS)
    wrappers += "".join("\ndef py_%s():\n    cdef int a[3]\n    a[0] = VALS[2]; a[1] = VALS[3]; a[2] = VALS[4]\n    del LOG[:]\n    r = %s(a)\n"
                        "    return r, list(LOG)\n" % (f, f) for f in funcs if f in AFUNCS)
    text = LOGGING + BODY + ABODY + wrappers
    try:
        ctext, cfile = cextract.compile_pyx(text, name="dvorderrep")
    except Exception as ex:
        return {"confirmed": False, "note": "compile failed: %r" % ex}
    d = os.path.dirname(cfile)
    so = os.path.join(d, "dvorderrep.so")
    p = subprocess.run(["clang", "-shared", "-fPIC", "-O0", "-w", "-I" + cextract.PY_INCLUDE, cfile, "-o", so], capture_output=True, text=True)
    if p.returncode != 0:
        return {"confirmed": False, "note": "build failed " + p.stderr[-300:]}
    pysrc = pyref.python_source(BODY + ABODY)
    code = r'''
import sys, itertools; sys.path.insert(0, %r); import dvorderrep as m
AF = %r
LOG = []; VALS = [0] * 5
def leaf(i):
    def f(): LOG.append(i); return VALS[i]
    return f
ns = {"dv_a": leaf(0), "dv_b": leaf(1), "dv_c": leaf(2), "dv_d": leaf(3), "dv_e": leaf(4)}
def f2(x, y): LOG.append(5); return (x * 3 + y * 5) %% 7 - 3
ns["dv_f2"] = f2
exec(%r, ns)
bad = []
for vals in itertools.product((-2, 0, 1, 3), repeat=5):
    VALS[:] = vals; m.VALS[:] = vals
    for name in %r:
        del LOG[:]
        want = (int(ns[name](*([[vals[2], vals[3], vals[4]]] if name in AF else []))), list(LOG))
        got = getattr(m, "py_" + name)()
        got = (int(got[0]), got[1])
        if got != want: bad.append((name, vals, got, want))
print(bad[:3]); print(len(bad))
''' % (d, AFUNCS, pysrc, funcs)
    r = subprocess.run(["/venv/bin/python", "-c", code], capture_output=True, text=True, timeout=300)
    out = r.stdout.strip().splitlines()
    ok = len(out) == 2 and out[0] == "[]"
    return {"inputs": "every catalogue function for all leaf values in {-2, 0, 1, 3}^5 (1024 assignments)", "actual": (r.stdout.strip() or r.stderr[-400:])[:700],
            "confirmed": not ok and len(out) == 2, "how": "catalogue compiled by the working-tree compiler with logging leaves; value and call "
            "trace compared with CPython's exec of the same source text", "obligation": getattr(ob, "name", None)}


def units(tier):
    us = []
    props = {"C20": None}
    callees = {nm: Leaf(i) for i, nm in enumerate(LEAVES)}
    # `//` and `%` go through the division helpers, used here by the contracts proved for them (contracts/cmath.py)
    from contracts.cmath import div_callee, mod_callee
    for sn in ("int", "long"):
        callees["__Pyx_div_" + sn] = div_callee("__Pyx_div_" + sn)
        callees["__Pyx_mod_" + sn] = mod_callee("__Pyx_mod_" + sn)
    for name in FUNCS:
        u = L3Unit("L3order.%s" % name, props, CATALOGUE, name, callees=callees,
                   ensures=[("the leaf calls happen in Python's evaluation order, each at most once, stopping where Python stops; the value is Python's", _post(name))],
                   options={"merge": False},
                   subject={"mechanism": "code generation of expressions / assignments (ExprNodes.py, Nodes.py, Optimize.py: min/max, ParseTreeTransforms.ExpandInplaceOperators)"})
        u.exec_cls = CExecTrace
        u.replay = _native
        u.concrete_search = lambda ob, regions=(): _native({}, ob)
        us.append(u)
    for name in AFUNCS:
        u = L3Unit("L3order.%s" % name, props, CATALOGUE, name, callees=callees, arrays={"arr": ("int", ALEN)},
                   ensures=[("the left operand of a C-array membership test is evaluated once, before the scan; the value is Python's", _post(name))],
                   options={"merge": False, "unroll": {0: ALEN}},
                   subject={"mechanism": "Optimize.IterationTransform.visit_PrimaryCmpNode (x in c_array / ptr[:n] as a loop)"})
        u.exec_cls = CExecTrace
        u.replay = _native
        u.concrete_search = lambda ob, regions=(): _native({}, ob)
        us.append(u)
    return us


REGIONS = {}


def side_checks(prop, tier, seed, kf_entries):
    """the reference evaluator against CPython: exec of the catalogue text with logging leaves, all leaf values in a grid"""
    pysrc = pyref.python_source(BODY + ABODY)
    LOG, VALS = [], [0] * 5

    def leaf(i):
        def f():
            LOG.append(i)
            return VALS[i]
        return f
    ns = {"dv_a": leaf(0), "dv_b": leaf(1), "dv_c": leaf(2), "dv_d": leaf(3), "dv_e": leaf(4)}

    def f2(x, y):
        LOG.append(5)
        return (x * 3 + y * 5) % 7 - 3
    ns["dv_f2"] = f2
    exec(compile(pysrc, "<catalogue>", "exec"), ns)
    n = bad = 0
    first = None
    for vals in itertools.product((-2, 0, 1, 3), repeat=5):
        VALS[:] = vals
        for name in FUNCS + AFUNCS:
            del LOG[:]
            arr = [vals[2], vals[3], vals[4]]
            want = (int(ns[name](*([arr] if name in AFUNCS else []))), list(LOG))
            fn, _ = _fn_ast(name)
            outs = _Ref("py", list(vals)).run(fn.body, {"arr": arr} if name in AFUNCS else {}, ([], 0))
            got = [(int(v), tr[0]) for pc, v, tr in outs if pc]
            n += 1
            if got != [want]:
                bad += 1
                first = first or (name, vals, got, want)
    out = [{"kind": "spec-validation", "name": "reference evaluator (evaluation order + value) vs CPython exec of the catalogue text with logging leaves",
            "cases": n, "disagree": bad}]
    if bad:
        out.append({"kind": "side-check-failure", "name": "order-reference-validation", "text": repr(first)})
    for k in kf_entries:
        if not k.get("id", "").startswith("C20-"):
            continue
        r = _native({}, None)
        # the recorded finding is about the inline_* functions only: it is still there iff one of THEM disagrees natively
        still = "inline_then_" in (r.get("actual") or "") or _inline_mismatch()
        out.append({"kind": "known-finding-witness", "id": k["id"], "text": k["text"], "still_fails": bool(still), "detail": r})
    return out


def _inline_mismatch():
    """does one of the inline_then_* catalogue functions evaluate its leaves out of order on the real compiler output?"""
    import os
    import subprocess
    names = [f for f in FUNCS if f.startswith("inline_then_")]
    wrappers = "".join("\ndef py_%s():\n    del LOG[:]\n    r = %s()\n    return r, list(LOG)\n" % (f, f) for f in names)
    try:
        ctext, cfile = cextract.compile_pyx(LOGGING + BODY + wrappers, name="dvorderkf")
    except Exception:
        return False
    d = os.path.dirname(cfile)
    p = subprocess.run(["clang", "-shared", "-fPIC", "-O0", "-w", "-I" + cextract.PY_INCLUDE, cfile, "-o", os.path.join(d, "dvorderkf.so")],
                       capture_output=True, text=True)
    if p.returncode != 0:
        return False
    code = ("import sys; sys.path.insert(0, %r); import dvorderkf as m\nm.VALS[:] = [1, 1, 1, 1, 1]\n"
            "print([n for n in %r if getattr(m, 'py_' + n)()[1][0] != 0])\n" % (d, names))
    r = subprocess.run(["/venv/bin/python", "-c", code], capture_output=True, text=True, timeout=120)
    return r.stdout.strip() not in ("", "[]")
