"""Contract for __pyx_memoryview_slice_memviewslice (Cython/Utility/MemoryView_C.c)  -- C16, UB part -> C36.

The function normalises ONE index or slice of one dimension of a typed memoryview.  It serves both
the compile-time path (a[i:j:k] on `int[:] a`) and the run-time path (memoryview.__getitem__).
Subject: the function as found in the C file the working-tree compiler generates for a module that
slices a typed memoryview (module route: real Py_ssize_t, real __Pyx_memviewslice struct).

Contract from the property statement: with (s, e) = slice(start?, stop?, step?).indices(shape)[:2]
as CPython computes them (spec.slice_adjust == PySlice_AdjustIndices; validated against slice.indices
natively) the destination dimension gets shape len(range(s, e, step)), stride stride*step, and - when
that length is > 0 - the data pointer advances by s*stride; when it is 0 the pointer must stay inside
[0, shape]*stride (no out-of-bounds base).  Integer index i: -shape <= i < shape selects element
i mod shape, anything else raises IndexError; zero step raises ValueError.
"""
import z3

from dv import spec as S
from dv.spec import And, Or, Not, Implies, If
from dv.cunit import CUnit
from dv.l3 import CExecL3, compiled, ERR, ERRS
from dv import cextract

SERVES = ("C16", "C36")
FNAME = "__pyx_memoryview_slice_memviewslice"

PYX = """# cython: language_level=3
def s111(int[:] a, Py_ssize_t i, Py_ssize_t j, Py_ssize_t k):
    return list(a[i:j:k])
def s110(int[:] a, Py_ssize_t i, Py_ssize_t j):
    return list(a[i:j])
def s101(int[:] a, Py_ssize_t i, Py_ssize_t k):
    return list(a[i::k])
def s011(int[:] a, Py_ssize_t j, Py_ssize_t k):
    return list(a[:j:k])
def s100(int[:] a, Py_ssize_t i):
    return list(a[i:])
def s010(int[:] a, Py_ssize_t j):
    return list(a[:j])
def s001(int[:] a, Py_ssize_t k):
    return list(a[::k])
def idx(int[:] a, Py_ssize_t i):
    return a[i]
"""

MAXS = 2 ** 63 - 1


def _tu():
    return compiled(PYX, None, "dvmv"), "module route: catalogue module slicing an int[:] memoryview, compiled by the working-tree compiler"


def _flags(e):
    return And(*[Or(x == 0, x == 1) for x in (e.have_start, e.have_stop, e.have_step, e.is_slice)])


REQUIRES = [
    ("shape >= 0", lambda e: e.shape >= 0),
    ("flags are 0/1", _flags),
    ("0 <= new_ndim < 8 (destination dimension inside the struct arrays)", lambda e: And(e.new_ndim >= 0, e.new_ndim < 8)),
    ("no indirect dimension so far (*suboffset_dim == -1) and this one is direct (suboffset < 0); "
     "PIL-style indirect buffers are outside the modelled C subset (char** dereference)",
     lambda e: And(e.suboffset_dim == -1, e.suboffset < 0)),
    # the view describes existing memory: the extent of the dimension fits Py_ssize_t
    ("|stride| <= PY_SSIZE_T_MAX and shape * |stride| fits Py_ssize_t",
     lambda e: And(e.stride >= -MAXS, e.shape * e.stride <= MAXS, e.shape * e.stride >= -MAXS)),
]


def _off(e, mem):
    """current offset the function adds to: dst->data, or dst->suboffsets[*suboffset_dim] when that is >= 0"""
    return If(e.suboffset_dim < 0, z3.Select(mem["dst.data"], 0), z3.Select(mem["dst.suboffsets"], e.suboffset_dim))


def _step(e):
    # CPython (PySlice_Unpack) clamps a step below -PY_SSIZE_T_MAX to -PY_SSIZE_T_MAX
    return If(e.have_step == 1, If(e.step < -MAXS, -MAXS, e.step), 1)


def _adj(e):
    return S.slice_adjust(e.start, e.stop, _step(e), e.shape, e.have_start == 1, e.have_stop == 1)


def _slice_ok(e):
    return And(e.is_slice == 1, Not(And(e.have_step == 1, e.step == 0)))


def _n(e):
    s, t = _adj(e)
    return S.range_len(s, t, _step(e))


ENSURES = [
    ("zero step => ValueError, -1",
     lambda e: Implies(And(e.is_slice == 1, e.have_step == 1, e.step == 0), And(e.result == -1, e.err == ERR("ValueError")))),
    ("slice => returns 0 without error", lambda e: Implies(_slice_ok(e), And(e.result == 0, e.err == 0))),
    ("slice => new shape == len(range(*slice.indices(shape)))",
     lambda e: Implies(_slice_ok(e), z3.Select(e.mem["dst.shape"], e.new_ndim) == _n(e))),
    ("slice => new stride == stride*step",
     lambda e: Implies(_slice_ok(e), z3.Select(e.mem["dst.strides"], e.new_ndim) == e.stride * _step(e))),
    ("slice => suboffset copied",
     lambda e: Implies(_slice_ok(e), If(e.suboffset_dim == e.new_ndim, True,
                                        z3.Select(e.mem["dst.suboffsets"], e.new_ndim) == e.suboffset))),
    ("non-empty slice => data advanced by start*stride with CPython's adjusted start",
     lambda e: Implies(And(_slice_ok(e), _n(e) > 0), _off(e, e.mem) == _off(e, e.mem0) + _adj(e)[0] * e.stride)),
    # CPython's own memoryview also advances an empty negative-step slice of an empty dimension to element -1
    # (PySlice_AdjustIndices yields start == -1 there), so -1 is admitted; nothing is ever read through it
    ("empty slice => base pointer stays within [-1, shape]*stride",
     lambda e: Implies(And(_slice_ok(e), _n(e) == 0),
                       z3.Exists([z3.Int("t!w")], And(z3.Int("t!w") >= -1, z3.Int("t!w") <= e.shape,
                                                      _off(e, e.mem) == _off(e, e.mem0) + z3.Int("t!w") * e.stride)))),
    ("index in range => element (i mod shape), no error",
     lambda e: Implies(And(e.is_slice == 0, e.start >= -e.shape, e.start < e.shape),
                       And(e.result == 0, e.err == 0,
                           _off(e, e.mem) == _off(e, e.mem0) + If(e.start < 0, e.start + e.shape, e.start) * e.stride))),
    ("index out of range => IndexError, -1",
     lambda e: Implies(And(e.is_slice == 0, Not(And(e.start >= -e.shape, e.start < e.shape))),
                       And(e.result == -1, e.err == ERR("IndexError")))),
    ("errors leave *dst untouched",
     lambda e: Implies(e.result == -1, And(*[e.mem[k] == e.mem0[k] for k in ("dst.shape", "dst.strides", "dst.suboffsets", "dst.data")]))),
]


def _native(unit):
    def run(model, obname):
        """rebuild the catalogue module and run the matching slicing function on a real buffer"""
        import json
        import os
        import subprocess
        m = model or {}
        shape = int(m.get("shape", 0))
        if not (0 <= shape <= 10 ** 6):
            return {"confirmed": False, "note": "counter-model shape %d not replayable on a real buffer" % shape}
        hs, hp, hk, sl = (int(m.get(k, 0)) for k in ("have_start", "have_stop", "have_step", "is_slice"))
        start, stop, step = int(m.get("start", 0)), int(m.get("stop", 0)), int(m.get("step", 0))
        return _run_cases([(shape, sl, hs, hp, hk, start, stop, step)], "replay of the counter-model")[0]
    return run


_built = {}


def _build():
    if "dir" not in _built:
        import os
        import subprocess
        ctext, cfile = cextract.compile_pyx(PYX, name="dvmvrep")
        d = os.path.dirname(cfile)
        so = os.path.join(d, "dvmvrep.so")
        p = subprocess.run(["clang", "-shared", "-fPIC", "-O0", "-w", "-I" + cextract.PY_INCLUDE, cfile, "-o", so],
                           capture_output=True, text=True)
        if p.returncode != 0:
            raise RuntimeError(p.stderr[-2000:])
        _built["dir"] = d
    return _built["dir"]


_RUNNER = r'''
import sys, json, array
sys.path.insert(0, %r)
import dvmvrep as m
for line in sys.stdin:
    shape, sl, hs, hp, hk, start, stop, step = json.loads(line)
    base = array.array('i', range(100, 100 + shape + 2))
    a = memoryview(base)[1:1 + shape]          # one guard element on each side
    lst = list(a)
    if sl and hs + hp + hk == 0:
        print(json.dumps({"skip": True}), flush=True); continue
    if not sl:
        call = lambda: m.idx(a, start)
        want_f = lambda: lst[start]
    else:
        args = [v for v, h in ((start, hs), (stop, hp), (step, hk)) if h]
        call = lambda: getattr(m, "s%%d%%d%%d" %% (hs, hp, hk))(a, *args)
        want_f = lambda: lst[slice(start if hs else None, stop if hp else None, step if hk else None)]
    try:
        got = call()
    except Exception as e:
        got = type(e).__name__
    try:
        want = want_f()
    except Exception as e:
        want = type(e).__name__
    print(json.dumps({"got": got, "want": want}), flush=True)
'''


def _run_cases(cases, how):
    import json
    import subprocess
    d = _build()
    inp = "".join(json.dumps(list(c)) + "\n" for c in cases)
    r = subprocess.run(["/venv/bin/python", "-c", _RUNNER % d], input=inp, capture_output=True, text=True, timeout=300)
    out = []
    lines = r.stdout.splitlines()
    for i, c in enumerate(cases):
        keys = ("shape", "is_slice", "have_start", "have_stop", "have_step", "start", "stop", "step")
        rep = {"inputs": dict(zip(keys, c)), "how": how + ": catalogue module built from the working tree, real int buffer, compared with "
               "CPython's list indexing/slicing of the same data"}
        if i >= len(lines):
            rep.update(confirmed=True, actual="process died (exit %s)" % r.returncode, stderr=r.stderr[-300:])
            out.append(rep)
            break
        d_ = json.loads(lines[i])
        if d_.get("skip"):
            rep["confirmed"] = False
        else:
            rep.update(actual=d_["got"], expected=d_["want"], confirmed=d_["got"] != d_["want"])
        out.append(rep)
    return out


def _search(seed, obname):
    import random
    rnd = random.Random(seed + 16)
    cases = []
    for shape in range(0, 5):
        vals = sorted(set([-2 * shape - 1, -shape - 1, -shape, -1, 0, 1, shape - 1, shape, shape + 1, 2 * shape + 1]))
        for i in vals:
            cases.append((shape, 0, 1, 0, 0, i, 0, 0))
        for hs in (0, 1):
            for hp in (0, 1):
                for hk in (0, 1):
                    if hs + hp + hk == 0:
                        continue
                    for st in (vals if hs else [0]):
                        for sp in (vals if hp else [0]):
                            for k in ([-3, -2, -1, 1, 2, 3] if hk else [1]):
                                cases.append((shape, 1, hs, hp, hk, st, sp, k))
    rnd.shuffle(cases)
    cases = cases[:6000]
    for rep in _run_cases(cases, "concrete search"):
        if rep.get("confirmed"):
            return rep
    return {"confirmed": False, "tried": len(cases)}


def units(tier):
    # value obligations -> C16; UB-freedom obligations of the same function -> C36 (C16's statement is about values)
    u = CUnit("MemoryView.slice_memviewslice", {"C16": ["post", "pre", "subset", "inv"], "C36": ["ub", "subset"]}, FNAME, _tu, filt=FNAME,
              requires=REQUIRES, ensures=ENSURES, cells=("suboffset_dim",),
              structs={"dst": {"shape": ("Py_ssize_t", 8), "strides": ("Py_ssize_t", 8), "suboffsets": ("Py_ssize_t", 8),
                               "data": ("ptr", "buffer")}},
              options={"inline": ("__pyx_memoryview_slice_memviewslice_err_dim",)},
              subject={"file": "Cython/Utility/MemoryView_C.c", "template": "SliceMemoryviewSlice"})
    u.exec_cls = CExecL3
    u.err_ghost = True
    nat = _native(u)
    u.replay = lambda model, ob=None: dict(nat(model, ob.name if ob else None), obligation=ob.name if ob else None)
    u.concrete_search = lambda ob, regions=(): _search(0, ob.name)
    return [u]


def side_checks(prop, tier, seed, kf_entries):
    """spec validation: spec.slice_adjust / range_len against CPython's slice.indices and len(range())"""
    import random
    rnd = random.Random(seed + 5)
    n = bad = 0
    first_bad = None
    for _ in range(3000 if tier == "quick" else 30000):
        ln = rnd.randint(0, 7)
        a = rnd.choice([None, rnd.randint(-20, 20)])
        b = rnd.choice([None, rnd.randint(-20, 20)])
        c = rnd.choice([None, 1, -1, 2, -2, 3, -3, 7, -7])
        st = 1 if c is None else c
        s, e = S.slice_adjust(0 if a is None else a, 0 if b is None else b, st, ln, a is not None, b is not None)
        want = slice(a, b, c).indices(ln)
        n += 1
        if (s, e, st) != want or S.range_len(s, e, st) != len(range(*want)):
            bad += 1
            first_bad = first_bad or {"slice": (a, b, c), "len": ln, "spec": (s, e, st), "cpython": want}
    out = [{"kind": "spec-validation", "name": "slice_adjust/range_len vs slice.indices()/len(range())", "cases": n, "disagree": bad}]
    if bad:
        out.append({"kind": "side-check-failure", "name": "slice-spec-validation", "text": repr(first_bad)})
    out.extend(known_finding_witnesses(prop, kf_entries))
    return out


def _witness_stride_step():
    """a[::2**62] on an int buffer: stride(4) * step(2**62) overflows Py_ssize_t (signed overflow, UB);
    run on a module built with -fsanitize=undefined in trap mode: the process must die on the trap."""
    import os
    import subprocess
    ctext, cfile = cextract.compile_pyx(PYX, name="dvmvub")
    d = os.path.dirname(cfile)
    so = os.path.join(d, "dvmvub.so")
    p = subprocess.run(["clang", "-shared", "-fPIC", "-O0", "-w", "-fsanitize=signed-integer-overflow",
                        "-fsanitize-trap=signed-integer-overflow", "-I" + cextract.PY_INCLUDE, cfile, "-o", so],
                       capture_output=True, text=True)
    if p.returncode != 0:
        return {"still_fails": False, "note": "build failed: " + p.stderr[-300:]}
    code = ("import sys, array; sys.path.insert(0, %r); import dvmvub as m; "
            "print(m.s001(memoryview(array.array('i', [1, 2, 3])), 2**62))" % d)
    r = subprocess.run(["/venv/bin/python", "-c", code], capture_output=True, text=True, timeout=60)
    return {"still_fails": r.returncode < 0, "exit": r.returncode, "stdout": r.stdout.strip()[-100:]}


def known_finding_witnesses(prop, kf_entries):
    out = []
    for k in kf_entries:
        if k.get("region_id") == "stride_times_step_overflows":
            w = _witness_stride_step()
            out.append({"kind": "known-finding-witness", "id": k["id"], "text": k["text"], "still_fails": w["still_fails"], "detail": w})
    return out


REGIONS = {
    # dst->strides[new_ndim] = stride * step: the product does not fit Py_ssize_t (the resulting dimension then has
    # at most one element, so the value is never used for addressing - but the multiplication is signed overflow)
    "stride_times_step_overflows": lambda e: Or(e.stride * _step(e) > MAXS, e.stride * _step(e) < -MAXS - 1),
}
