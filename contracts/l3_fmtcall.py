"""L3 unit for C18: which formatting helper an f-string field on a C integer calls (PyrexTypes.CIntLike.convert_to_pystring).

Subject: the C functions the working-tree compiler emits for
    cdef extern from *:  ctypedef int wide_t        (declared on an approximate base; the real C type is `long long`)
    cdef str first_int(int i): return f"{i:5d}"         (a plain int is formatted FIRST: its helper gets cached on the type)
    cdef str only_wide(wide_t v): return f"{v:x}"       cdef str padded_wide(wide_t v): return f"{v:020d}"
The helpers `__Pyx_PyUnicode_From_<T>(value, width, padding, format)` are under contract in contracts/fmt.py (each equals
format(value, spec) for every value OF ITS TYPE T); here they enter by that contract - an uninterpreted TEXT(value, width,
padding, format) of the value the helper RECEIVES.  Contract of the call site, for ALL values: the field for v is
TEXT(v, ...) of the full 64-bit value, i.e. the argument reaches a helper whose parameter type holds it (an external typedef
must get its own helper `__Pyx_PyUnicode_From_wide_t`, not the cached one of its declared base type).
"""
import re

import z3

from dv.spec import And, Or, Not, Implies, If
from dv.l3 import L3Unit
from dv import pyobj as O
from dv import cextract

SERVES = ("C18",)
CATALOGUE = '''# cython: language_level=3
cdef extern from *:
    """
    typedef long long wide_t;
    """
    ctypedef int wide_t

cdef str first_int(int i):
    return f"{i:5d}"

cdef str only_wide(wide_t v):
    return f"{v:x}"

cdef str padded_wide(wide_t v):
    return f"{v:020d}"
'''
# the other order: an external typedef that is really NARROWER than its declared base is formatted first, a plain int afterwards - the plain int
# must still reach a helper whose parameter type is int (a helper cached on the shared base type by the typedef would convert it to signed char)
CATALOGUE2 = '''# cython: language_level=3
cdef extern from *:
    """
    typedef signed char tiny_t;
    """
    ctypedef int tiny_t

cdef str first_tiny(tiny_t t):
    return f"{t:d}"

cdef str later_int(int v):
    return f"{v:5d}"

cdef str later_int_hex(int v):
    return f"{v:08X}"
'''
TEXT = z3.Function("formatted_text_object", z3.IntSort(), z3.IntSort(), z3.IntSort(), z3.IntSort(), z3.IntSort())
G_WIDE = "ghost.text_of_wide_field"


class FromInt:
    """contract of __Pyx_PyUnicode_From_<T>(value, width, padding_char, format_char): the str object format(value, spec) - a function
    of the value the helper receives (after the C conversion to ITS parameter type)"""

    def apply(self, ex, st, args, n):
        from dv.cfe import node_type
        v, w, pad, fmt = (a.t for a in args[:4])
        r = ex.obj(st, node_type(n), "text")
        st.path.append(r.off == TEXT(v, w, pad, fmt))
        st.mem.setdefault("ghost.texts", z3.K(z3.IntSort(), z3.BoolVal(False)))
        st.mem["ghost.texts"] = z3.Store(st.mem["ghost.texts"], r.off, z3.BoolVal(True))
        ex.assumptions.add("__Pyx_PyUnicode_From_<T>(value, width, padding, format) returns the text of format(value, spec) (contracts/fmt.py), as an "
                           "uninterpreted function of the value received")
        return r


def _post(fmt_args):
    def post(e):
        made = e.mem.get("ghost.texts", z3.K(z3.IntSort(), z3.BoolVal(False)))
        w, pad, fmt = fmt_args
        return Or(e.err != 0, z3.Select(made, TEXT(e.v, z3.IntVal(w), z3.IntVal(pad), z3.IntVal(fmt))))
    return post


def _native(model, ob=None):
    import os
    import subprocess
    text = CATALOGUE + "\ndef py_first_int(i): return first_int(i)\ndef py_only_wide(v): return only_wide(v)\ndef py_padded_wide(v): return padded_wide(v)\n"
    try:
        ctext, cfile = cextract.compile_pyx(text, name="dvfmtcallrep")
    except Exception as ex:
        return {"confirmed": False, "note": "compile failed: %r" % ex}
    d = os.path.dirname(cfile)
    p = subprocess.run(["clang", "-shared", "-fPIC", "-O0", "-w", "-I" + cextract.PY_INCLUDE, cfile, "-o", os.path.join(d, "dvfmtcallrep.so")],
                       capture_output=True, text=True)
    if p.returncode != 0:
        return {"confirmed": False, "note": "build failed " + p.stderr[-300:]}
    code = ("import sys; sys.path.insert(0, %r); import dvfmtcallrep as m\nbad = []\n"
            "for v in (0, 5, -5, 2**31 - 1, 2**31, -2**31 - 1, 2**40 + 3, 2**63 - 1, -2**63):\n"
            "    for got, want in ((m.py_only_wide(v), f'{v:x}'), (m.py_padded_wide(v), f'{v:020d}')):\n"
            "        if got != want: bad.append((v, got, want))\nprint(bad[:3]); print(len(bad))\n" % d)
    r = subprocess.run(["/venv/bin/python", "-c", code], capture_output=True, text=True, timeout=120)
    out = r.stdout.strip().splitlines()
    return {"inputs": "f-string fields on an external typedef (declared int, really long long) for values around 2**31, 2**40, 2**63, formatted after a plain int",
            "actual": (r.stdout.strip() or r.stderr[-300:])[:400], "confirmed": len(out) == 2 and out[0] != "[]", "obligation": getattr(ob, "name", None),
            "how": "catalogue compiled by the working-tree compiler; texts compared with CPython's f-strings"}


def units(tier):
    us = []

    class AnyFrom(dict):
        """every __Pyx_PyUnicode_From_<T> helper of the module enters by the same contract"""
        def __contains__(self, k):
            return isinstance(k, str) and ((k.startswith("__Pyx_") and "PyUnicode_From_" in k) or dict.__contains__(self, k))

        def __getitem__(self, k):
            return dict.__getitem__(self, k) if dict.__contains__(self, k) else FromInt()

        def get(self, k, d=None):
            return self[k] if k in self else d
    for name, fmt_args in (("only_wide", (0, 32, 120)), ("padded_wide", (20, 48, 100))):
        u = L3Unit("L3fmtcall.%s" % name, {"C18": None}, CATALOGUE, name, callees=AnyFrom({"__Pyx_PyUnicode_From_": FromInt()}),      # (non-empty: an empty mapping would be dropped)
                   ensures=[("the text of the wide field is format(v, spec) of the FULL value of v (or an exception)", _post(fmt_args))],
                   options={"merge": False},
                   subject={"mechanism": "PyrexTypes.CIntLike.convert_to_pystring / CTypedefType.convert_to_pystring (helper selection per C type)"})
        u.exec_cls = O.CExecPyObj
        u.replay = _native
        u.concrete_search = lambda ob, regions=(): _native({}, ob)
        us.append(u)
    for name, fmt_args in (("later_int", (5, 32, 100)), ("later_int_hex", (8, 48, 88))):
        u = L3Unit("L3fmtcall.%s" % name, {"C18": None}, CATALOGUE2, name, callees=AnyFrom({"__Pyx_PyUnicode_From_": FromInt()}),
                   ensures=[("the text of a plain int field is format(v, spec) of the FULL int value, also after an external typedef of a narrower real type was formatted",
                             _post(fmt_args))],
                   options={"merge": False},
                   subject={"mechanism": "PyrexTypes.CIntLike.convert_to_pystring (what is cached on the shared base type)"})
        u.exec_cls = O.CExecPyObj
        u.replay = _native2
        u.concrete_search = lambda ob, regions=(): _native2({}, ob)
        us.append(u)
    return us


def _native2(model, ob=None):
    import os
    import subprocess
    text = CATALOGUE2 + "\ndef py_later_int(v): return later_int(v)\ndef py_later_int_hex(v): return later_int_hex(v)\n"
    try:
        ctext, cfile = cextract.compile_pyx(text, name="dvfmtcallrep2")
    except Exception as ex:
        return {"confirmed": False, "note": "compile failed: %r" % ex}
    d = os.path.dirname(cfile)
    p = subprocess.run(["clang", "-shared", "-fPIC", "-O0", "-w", "-I" + cextract.PY_INCLUDE, cfile, "-o", os.path.join(d, "dvfmtcallrep2.so")],
                       capture_output=True, text=True)
    if p.returncode != 0:
        return {"confirmed": False, "note": "build failed " + p.stderr[-300:]}
    code = ("import sys; sys.path.insert(0, %r); import dvfmtcallrep2 as m\nbad = []\n"
            "for v in (0, 5, -5, 127, 128, 1000, -129, 2**31 - 1, -2**31):\n"
            "    for got, want in ((m.py_later_int(v), f'{v:5d}'), (m.py_later_int_hex(v), f'{v:08X}')):\n"
            "        if got != want: bad.append((v, got, want))\nprint(bad[:3]); print(len(bad))\n" % d)
    r = subprocess.run(["/venv/bin/python", "-c", code], capture_output=True, text=True, timeout=120)
    out = r.stdout.strip().splitlines()
    return {"inputs": "f-string fields on a plain int (values around 127 / 128 / 1000 / 2**31) formatted after an external typedef that is really a signed char",
            "actual": (r.stdout.strip() or r.stderr[-300:])[:400], "confirmed": len(out) == 2 and out[0] != "[]", "obligation": getattr(ob, "name", None),
            "how": "catalogue compiled by the working-tree compiler; texts compared with CPython's f-strings"}


REGIONS = {}
