"""Contract for the static layout of a sliced typed memoryview (C16), ExprNodes.MemoryViewIndexNode.analyse_types.

For `m[a:b:s]` the compiler records, per axis, an (access, packing) pair in the TYPE of the result; a packing other than
'strided' ('contig', 'follow') tells the code generator that the items of this axis are adjacent in memory, in ascending
order: later C-level indexing then uses `((T *) data) + i` and ignores the run-time stride.  From the statement ("the same
elements ... as the same operation on a NumPy array ... slices with any start/stop/step including negative steps"): an axis
sliced with a step keeps a non-strided packing only if the step cannot reverse or spread the items, i.e. only if it is
absent (None) or the constant 1.
Subject: the statements of the `if index.is_slice:` branch that decide the axis (fragment selected structurally on every run:
the statements of that branch before its loop over start / stop / step).  Nodes are identities with fields;
has_constant_result() is a stub.  Not covered: the rest of analyse_types (integer indices dropping an axis, None / newaxis),
and whether a step-LESS slice of one axis may keep the contiguity of the OTHER axes (it may not in general: recorded probe
finding, DESIGN section 5).
"""
import z3

from dv.spec import And, Or, Not, Implies, If
from dv.pyunit import PyUnit
from dv.pyfe import Callee, intern_id, PAIR

SERVES = ("C16",)
FILE = "Cython/Compiler/ExprNodes.py"
FIELDS = {"obj:MVNode": {"is_memview_slice": "bool"},
          "obj:Slice": {"step": "ref:obj:Node", "start": "ref:obj:Node", "stop": "ref:obj:Node", "is_slice": "bool"},
          "obj:Node": {"is_none": "bool", "constant_result": "int"}}


def _post(e):
    n0 = e.h0.len(e.axes)
    last = e.h.el(e.axes, n0)
    step = e.h0.fld("step", e.index)
    unit_or_absent = Or(e.h0.fld("is_none", step) != 0, e.h0.fld("constant_result", step) == 1)
    strided = intern_id("strided")
    return And(e.h.len(e.axes) == n0 + 1,
               Or(last == PAIR(e.access, e.packing), last == PAIR(e.access, strided)),
               Implies(And(last == PAIR(e.access, e.packing), e.packing != strided), unit_or_absent))


def _select(fn):
    """the axis decision, selected structurally: inside the function, the `if <index>.is_slice:` statement; of its body the statements BEFORE the
    first loop (the loop coerces start / stop / step and is not part of the subject)"""
    import ast
    from dv.pyfe import StaleContract
    ifs = [n for n in ast.walk(fn) if isinstance(n, ast.If) and isinstance(n.test, ast.Attribute) and n.test.attr == "is_slice"]
    if len(ifs) != 1:
        raise StaleContract("no single `if <index>.is_slice:` statement in analyse_types")
    stmts = []
    for st_ in ifs[0].body:
        if isinstance(st_, (ast.For, ast.While)):
            break
        stmts.append(st_)
    if not stmts:
        raise StaleContract("the `if <index>.is_slice:` branch starts with a loop")
    return stmts, {}


def _pairs(e):
    I = z3.IntSort()
    fst, snd = z3.Function("pair_fst", I, I), z3.Function("pair_snd", I, I)
    strided = intern_id("strided")
    return And(*[And(fst(PAIR(e.access, x)) == e.access, snd(PAIR(e.access, x)) == x) for x in (e.packing, strided)])


def _native(model, obname):
    import os
    import subprocess
    from dv import cextract
    src = ("# cython: language_level=3\n"
           "def rev(int[::1] m):\n    return [m[3::-1][0], m[3::-1][1], m[3::-1][2]]\n"
           "def rev2(int[:, ::1] m):\n    return [m[:, 3::-1][1, 0], m[:, 3::-1][1, 1]]\n"
           "def fwd(int[::1] m):\n    return [m[1::1][0], m[1::1][1]]\n")
    try:
        ctext, cfile = cextract.compile_pyx(src, name="dvmvaxes")
    except Exception as ex:
        return {"confirmed": False, "note": "compile failed: %r" % ex}
    d = os.path.dirname(cfile)
    p = subprocess.run(["clang", "-shared", "-fPIC", "-O0", "-w", "-I" + cextract.PY_INCLUDE, cfile, "-o", os.path.join(d, "dvmvaxes.so")],
                       capture_output=True, text=True)
    if p.returncode != 0:
        return {"confirmed": False, "note": "build failed " + p.stderr[-300:]}
    code = ("import sys; sys.path.insert(0, %r); import dvmvaxes as m\nfrom array import array\n"
            "a = array('i', [10, 11, 12, 13, 14, 15])\nb = array('i', range(100, 118))\n"
            "bad = [(n, got, want) for n, got, want in (('m[3::-1]', m.rev(a), [13, 12, 11]), ('m[:, 3::-1][1]', m.rev2(memoryview(b).cast('B').cast('i', (3, 6))), [109, 108]),\n"
            "       ('m[1::1]', m.fwd(a), [11, 12])) if got != want]\nprint(bad)\n" % d)
    r = subprocess.run(["/venv/bin/python", "-c", code], capture_output=True, text=True, timeout=120)
    out = r.stdout.strip() if r.returncode >= 0 else "crashed with signal %d" % -r.returncode
    return {"inputs": "C-level indexing of m[3::-1], m[:, 3::-1], m[1::1] on contiguous int memoryviews", "actual": (out or r.stderr[-300:])[:500],
            "expected": "the elements NumPy / list slicing gives", "confirmed": out != "[]", "obligation": obname,
            "how": "module compiled by the working-tree compiler; results compared with the slices of the underlying array"}


def units(tier):
    u = PyUnit("ExprNodes.MemoryViewIndexNode.analyse_types[slice axis]", {"C16": None}, FILE, "MemoryViewIndexNode.analyse_types",
               [("self", "ref:obj:MVNode"), ("index", "ref:obj:Slice"), ("axes", "ref:list"), ("access", "any"), ("packing", "any")],
               requires=[("the axes collected so far form a list", lambda e: e.h0.len(e.axes) >= 0),
                         ("ASSUMED: tuples are pairs with projections (ground instances, for the two tuples this code can build, of the pairing axiom)", _pairs)],
               ensures=[("one axis is added; it keeps a non-strided packing only for an absent step or the constant step 1", _post)],
               callees={"Node.has_constant_result": Callee("Node.has_constant_result", ["self"], result_kind="bool")},
               native=_native, search=lambda seed, ob: _native({}, ob),
               options={"fields": FIELDS, "merge": False, "dynamic_classes": (),
                        "fragment": {"select": _select}},
               subject={"fragment": "the axis decision of the `if index.is_slice:` branch (structurally selected: its statements before the loop over start / stop / step)"})
    return [u]


REGIONS = {}
