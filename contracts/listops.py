"""Contracts for the list.pop() fast paths of Optimize.c (C13 kernel; their memory safety for C36).

Subjects (module route: the helpers as found in the C the working-tree compiler generates for `l.pop()` / `l.pop(i)` on a
`list`-typed receiver; CPython 3.12 configuration with CYTHON_USE_PYLIST_INTERNALS):
  * __Pyx_PyList_Pop(L)
  * __Pyx__PyList_PopIndex(L, py_ix, ix)
  * __Pyx_PyList_Append(list, x), __Pyx_ListComp_Append(list, x), __Pyx_PyObject_Append(L, x)   (l.append(x), comprehensions)
Model (dv/pyobj.py): a list is its size at entry seq_len(L), its elements item(L, i) and `allocated >= size`; the subject's
writes go to ghost state (current size, current element array), so the MUTATED container is part of the contract.
From the statement ("the same result and exception as the original call for every argument value ... out-of-range values"):
  pop():   either the last element is returned and the size drops by one (elements below untouched), or CPython's own
           list.pop is called on the unchanged list (which raises IndexError for an empty list);
  pop(i):  with i wrapped ONCE: in range => element i is returned, the size drops by one, elements below i stay, elements
           above move down by one; otherwise CPython's own list.pop is called on the unchanged list with an int object
           holding the ORIGINAL index.  memmove stays inside the element array.
"""
import z3

from dv.spec import And, Or, Not, Implies, If
from dv.cunit import CUnit
from dv.l3 import compiled
from dv import pyobj as O
from dv import cextract

SERVES = ("C13", "C36")

PYX = """# cython: language_level=3
def pop(list l): return l.pop()
def popi(list l, Py_ssize_t i): return l.pop(i)
def app(list l, x): l.append(x)
def oapp(l, x): l.append(x)
def comp(it): return [x for x in it]
"""


def _tu():
    return compiled(PYX, None, "dvlistops"), "module route: l.pop() / l.pop(i) on a typed list, compiled by the working-tree compiler; clang -DNDEBUG"


def _state(e, name):
    ks = [k for k in e.mem if k.startswith(name + "[")]
    return e.mem[ks[0]] if ks else None


def _pop_post(e):
    L = e.L
    n = O.seq_len(L)
    size_now = _state(e, "listsize")
    items_now = _state(e, "listitems")
    r = e.result_id
    if r is None:
        return False
    if size_now is None:
        # nothing written: delegated to CPython's list.pop on the unchanged list
        return O.generic(z3.IntVal(O.OPCODES["methodcall"]), L, z3.IntVal(0), z3.IntVal(0), r)
    return And(n > 0, size_now == n - 1, r == O.item(L, n - 1), items_now is None, e.err == 0)


def _popi_post(e):
    L = e.L
    n = O.seq_len(L)
    size_now = _state(e, "listsize")
    items_now = _state(e, "listitems")
    r = e.result_id
    if r is None:
        return False
    w = If(e.ix < 0, e.ix + n, e.ix)
    in_range = And(w >= 0, w < n)
    if size_now is None:
        # delegated: the list is untouched and CPython's list.pop gets the original index (as the given object, or as a new int)
        idx = z3.Int("pop_index_object")
        return And(items_now is None,
                   z3.Exists([idx], And(O.generic(z3.IntVal(O.OPCODES["methodcall"]), L, idx, z3.IntVal(0), r),
                                        Or(idx == e.py_ix, And(O.is_long(idx), O.intval(idx) == e.ix)))))
    i = z3.Int("i!popi")
    cur = items_now if items_now is not None else z3.Lambda([i], O.item(L, i))
    parts = [in_range, e.err == 0, r == O.item(L, w), size_now == n - 1,
             z3.ForAll([i], Implies(And(i >= 0, i < w), z3.Select(cur, i) == O.item(L, i))),
             z3.ForAll([i], Implies(And(i >= w, i < n - 1), z3.Select(cur, i) == O.item(L, i + 1)))]
    which = getattr(e, "_part", None)
    return parts[which] if which is not None else And(*parts)


def _append_post(arg_list, may_be_other):
    """append: either slot `size` (inside the allocated slots) gets x, the size grows by one and NOTHING else is written, result 0;
    or CPython's own PyList_Append on the unchanged list; for a non-list receiver the Python-level call L.append(x)."""
    from dv.pyfe import intern_id

    def post(e):
        L = getattr(e, arg_list)
        n = O.seq_len(L)
        size_now, store, nstores = _state(e, "listsize"), _state(e, "liststore"), _state(e, "liststores")
        r = e.result
        if _state(e, "listitems") is not None:
            return False                       # no bulk move belongs to an append
        # ghost cells not written on a path keep their "unwritten" value
        size_now = size_now if size_now is not None else n
        store = store if store is not None else z3.K(z3.IntSort(), z3.IntVal(0))
        nstores = nstores if nstores is not None else z3.IntVal(0)
        fast = And(r == 0, size_now == n + 1, z3.Select(store, n) == e.x, nstores == 1, n < O.list_allocated(L), e.err == 0)
        untouched = And(size_now == n, nstores == 0)
        deleg = And(untouched, O.generic(z3.IntVal(O.OPCODES["list_append"]), L, e.x, z3.IntVal(0), r))
        if not may_be_other:
            return Or(fast, deleg)
        rid = z3.Int("append_method_result")
        other = And(untouched, z3.Exists([rid], And(rid >= 0, O.generic(z3.IntVal(O.OPCODES["methodcall"]), L, z3.IntVal(intern_id("method:append")), e.x, rid),
                                                    r == If(rid == 0, -1, 0))))
        return If(O.is_list(L), Or(fast, deleg), other)
    return post


def _native(model, ob=None):
    import os
    import subprocess
    ctext, cfile = cextract.compile_pyx(PYX, name="dvlistopsrep")
    d = os.path.dirname(cfile)
    so = os.path.join(d, "dvlistopsrep.so")
    p = subprocess.run(["clang", "-shared", "-fPIC", "-O0", "-w", "-DNDEBUG", "-fsanitize=address", "-I" + cextract.PY_INCLUDE, cfile, "-o", so], capture_output=True, text=True)
    if p.returncode != 0:
        return {"confirmed": False, "note": "build failed " + p.stderr[-300:]}
    code = r'''
import sys; sys.path.insert(0, %r); import dvlistopsrep as m
bad = []
for n in range(0, 7):
    for i in [None] + list(range(-2 * n - 2, 2 * n + 3)):
        a, b = [object() for _ in range(n)], None
        b = list(a)
        def run(f):
            try: return ("ok", f())
            except IndexError: return ("IndexError",)
        ra = run((lambda: m.pop(a)) if i is None else (lambda: m.popi(a, i)))
        rb = run((lambda: b.pop()) if i is None else (lambda: b.pop(i)))
        if ra != rb or a != b: bad.append((n, i, ra[0], rb[0], len(a), len(b)))
import collections
class Rec:
    def __init__(self): self.got = []
    def append(self, x): self.got.append(x); return "ignored"
class Boom:
    def append(self, x): raise KeyError(x)
for n in range(0, 40):
    for make in (lambda n: [object() for _ in range(n)], lambda n: list(range(n)), lambda n: [None] * n):
        a = make(n); b = list(a)
        for k in range(20):
            x = object()
            ra = m.app(a, x); b.append(x)
            if ra is not None or a != b: bad.append(("app", n, k, len(a), len(b)))
            x = object()
            ra = m.oapp(a, x); b.append(x)
            if ra is not None or a != b: bad.append(("oapp", n, k, len(a), len(b)))
    if m.comp(iter(range(n))) != list(range(n)): bad.append(("comp", n))
r = Rec(); m.oapp(r, 5); d = collections.deque(); m.oapp(d, 6)
if r.got != [5] or list(d) != [6]: bad.append(("oapp-other", r.got, list(d)))
try: m.oapp(Boom(), 7); bad.append(("oapp-raise", "no exception"))
except KeyError: pass
try: m.oapp(3, 7); bad.append(("oapp-attr", "no exception"))
except AttributeError: pass
print(bad[:4])
''' % d
    env = dict(os.environ, ASAN_OPTIONS="detect_leaks=0", LD_PRELOAD=subprocess.run(["clang", "-print-file-name=libclang_rt.asan-x86_64.so"],
                                                                                  capture_output=True, text=True).stdout.strip())
    r = subprocess.run(["/venv/bin/python", "-c", code], capture_output=True, text=True, timeout=300, env=env)
    out = r.stdout.strip()
    return {"inputs": "lists of length 0..6: pop() and pop(i) for i in [-2n-2, 2n+2]; lists of length 0..39 built three ways: 20 appends each "
                      "through the typed and the untyped route; non-list receivers (recorder, deque, raising append, no append); a comprehension", "actual": out or r.stderr[-400:], "confirmed": out != "[]",
            "how": "catalogue module built from the working tree with ASan; result and mutated list compared with CPython", "obligation": getattr(ob, "name", None)}


def units(tier):
    us = []
    props = {"C13": ["post", "pre", "subset"], "C36": ["ub", "subset"]}
    common = [("kernel: the receiver is an exact list (typed receiver, None excluded by the caller)", lambda e: O.is_list(e.L)),
              ("0 <= len(L) <= PY_SSIZE_T_MAX / sizeof(PyObject*) (CPython's limit for a list)",
               lambda e: And(O.seq_len(e.L) >= 0, O.seq_len(e.L) < 2 ** 60))]
    u = CUnit("Optimize.PyList_Pop", props, "__Pyx_PyList_Pop", _tu, filt=["__Pyx_PyList_Pop"], defines=("NDEBUG",), pyobjs=("L",),
              requires=common, ensures=[("last element returned and size - 1, or CPython's list.pop on the unchanged list", _pop_post)],
              options={"inline": ("*",), "merge": False}, subject={"file": "Cython/Utility/Optimize.c", "template": "pop"})
    u.exec_cls = O.CExecPyObj
    u.err_ghost = True
    u.replay = _native
    u.concrete_search = lambda ob, regions=(): _native({}, ob)
    us.append(u)
    u = CUnit("Optimize.PyList_PopIndex", props, "__Pyx__PyList_PopIndex", _tu, filt=["__Pyx__PyList_PopIndex", "__Pyx_is_valid_index"],
              defines=("NDEBUG",), pyobjs=("L", "py_ix"), requires=common,
              ensures=[("in range (after one wrap): element returned, size - 1, elements above moved down; otherwise CPython's list.pop "
                        "on the unchanged list with the original index", _popi_post)],
              options={"inline": ("__Pyx_is_valid_index",), "merge": False}, subject={"file": "Cython/Utility/Optimize.c", "template": "pop_index"})
    u.exec_cls = O.CExecPyObj
    u.err_ghost = True
    u.replay = _native
    u.concrete_search = lambda ob, regions=(): _native({}, ob)
    us.append(u)
    app_common = [("0 <= len(list) far below PY_SSIZE_T_MAX when the receiver is a list", lambda e: And(O.seq_len(e.list) >= 0, O.seq_len(e.list) < 2 ** 60)),
                  ("x is an object", lambda e: e.x >= 1)]
    for uid, fname, template, filt, other, req in (
            ("Optimize.PyList_Append", "__Pyx_PyList_Append", "ListAppend", ["__Pyx_PyList_Append", "__Pyx__ListComp_AppendAndDecref"], False,
             [("kernel: the receiver is an exact list", lambda e: O.is_list(e.list))]),
            ("Optimize.ListComp_Append", "__Pyx_ListComp_Append", "ListCompAppend", ["__Pyx_ListComp_Append", "__Pyx__ListComp_AppendAndDecref"], False,
             [("kernel: the receiver is an exact list", lambda e: O.is_list(e.list))]),
            ("Optimize.PyObject_Append", "__Pyx_PyObject_Append", "append",
             ["__Pyx_PyObject_Append", "__Pyx_PyList_Append", "__Pyx__ListComp_AppendAndDecref"], True, [])):
        lname = "L" if other else "list"
        reqs = [(t, (lambda f, lname: lambda e: f(_ListView(e, lname)))(f, lname)) for t, f in app_common + req]
        u = CUnit(uid, props, fname, _tu, filt=filt, defines=("NDEBUG",), pyobjs=(lname, "x"), requires=reqs,
                  ensures=[("x is stored in slot `size` (inside the allocated slots), size + 1, nothing else written, result 0; or CPython's own "
                            "PyList_Append on the unchanged list" + ("; for a non-list receiver the call L.append(x)" if other else ""),
                            _append_post(lname, other))],
                  options={"inline": tuple(f for f in filt if f != fname), "merge": False}, subject={"file": "Cython/Utility/Optimize.c", "template": template})
        u.exec_cls = O.CExecPyObj
        u.err_ghost = True
        u.replay = _native
        u.concrete_search = lambda ob, regions=(): _native({}, ob)
        us.append(u)
    return us


class _ListView:
    """the append units name their receiver `list` or `L`: one spelling for the shared preconditions"""

    def __init__(self, e, lname):
        self._e, self._l = e, lname

    def __getattr__(self, k):
        return getattr(self._e, self._l if k == "list" else k)


REGIONS = {}
