"""Contracts for the list.pop() fast paths of Optimize.c (C13 kernel; their memory safety for C36).

Subjects (module route: the helpers as found in the C the working-tree compiler generates for `l.pop()` / `l.pop(i)` on a
`list`-typed receiver; CPython 3.12 configuration with CYTHON_USE_PYLIST_INTERNALS):
  * __Pyx_PyList_Pop(L)
  * __Pyx__PyList_PopIndex(L, py_ix, ix)
Model (dv/pyobj.py): a list is its size at entry seq_len(L), its elements item(L, i) and `allocated >= size`; the subject's
writes go to ghost state (current size, current element array), so the MUTATED container is part of the contract.
From the statement ("the same result and exception as the original call for every argument value ... out-of-range values"):
  pop():   either the last element is returned and the size drops by one (elements below untouched), or CPython's own
           list.pop is called on the unchanged list (which raises IndexError for an empty list);
  pop(i):  with i wrapped ONCE: in range => element i is returned, the size drops by one, elements below i stay, elements
           above move down by one; otherwise CPython's own list.pop is called on the unchanged list with an int object
           holding the ORIGINAL index.  memmove stays inside the element array.
"""
import z3

from dv.spec import And, Or, Not, Implies, If
from dv.cunit import CUnit
from dv.l3 import compiled
from dv import pyobj as O
from dv import cextract

SERVES = ("C13", "C36")

PYX = """# cython: language_level=3
def pop(list l): return l.pop()
def popi(list l, Py_ssize_t i): return l.pop(i)
"""


def _tu():
    return compiled(PYX, None, "dvlistops"), "module route: l.pop() / l.pop(i) on a typed list, compiled by the working-tree compiler; clang -DNDEBUG"


def _state(e, name):
    ks = [k for k in e.mem if k.startswith(name + "[")]
    return e.mem[ks[0]] if ks else None


def _pop_post(e):
    L = e.L
    n = O.seq_len(L)
    size_now = _state(e, "listsize")
    items_now = _state(e, "listitems")
    r = e.result_id
    if r is None:
        return False
    if size_now is None:
        # nothing written: delegated to CPython's list.pop on the unchanged list
        return O.generic(z3.IntVal(O.OPCODES["methodcall"]), L, z3.IntVal(0), z3.IntVal(0), r)
    return And(n > 0, size_now == n - 1, r == O.item(L, n - 1), items_now is None, e.err == 0)


def _popi_post(e):
    L = e.L
    n = O.seq_len(L)
    size_now = _state(e, "listsize")
    items_now = _state(e, "listitems")
    r = e.result_id
    if r is None:
        return False
    w = If(e.ix < 0, e.ix + n, e.ix)
    in_range = And(w >= 0, w < n)
    if size_now is None:
        # delegated: the list is untouched and CPython's list.pop gets the original index (as the given object, or as a new int)
        idx = z3.Int("pop_index_object")
        return And(items_now is None,
                   z3.Exists([idx], And(O.generic(z3.IntVal(O.OPCODES["methodcall"]), L, idx, z3.IntVal(0), r),
                                        Or(idx == e.py_ix, And(O.is_long(idx), O.intval(idx) == e.ix)))))
    i = z3.Int("i!popi")
    cur = items_now if items_now is not None else z3.Lambda([i], O.item(L, i))
    parts = [in_range, e.err == 0, r == O.item(L, w), size_now == n - 1,
             z3.ForAll([i], Implies(And(i >= 0, i < w), z3.Select(cur, i) == O.item(L, i))),
             z3.ForAll([i], Implies(And(i >= w, i < n - 1), z3.Select(cur, i) == O.item(L, i + 1)))]
    which = getattr(e, "_part", None)
    return parts[which] if which is not None else And(*parts)


def _native(model, ob=None):
    import os
    import subprocess
    ctext, cfile = cextract.compile_pyx(PYX, name="dvlistopsrep")
    d = os.path.dirname(cfile)
    so = os.path.join(d, "dvlistopsrep.so")
    p = subprocess.run(["clang", "-shared", "-fPIC", "-O0", "-w", "-DNDEBUG", "-fsanitize=address", "-I" + cextract.PY_INCLUDE, cfile, "-o", so], capture_output=True, text=True)
    if p.returncode != 0:
        return {"confirmed": False, "note": "build failed " + p.stderr[-300:]}
    code = r'''
import sys; sys.path.insert(0, %r); import dvlistopsrep as m
bad = []
for n in range(0, 7):
    for i in [None] + list(range(-2 * n - 2, 2 * n + 3)):
        a, b = [object() for _ in range(n)], None
        b = list(a)
        def run(f):
            try: return ("ok", f())
            except IndexError: return ("IndexError",)
        ra = run((lambda: m.pop(a)) if i is None else (lambda: m.popi(a, i)))
        rb = run((lambda: b.pop()) if i is None else (lambda: b.pop(i)))
        if ra != rb or a != b: bad.append((n, i, ra[0], rb[0], len(a), len(b)))
print(bad[:4])
''' % d
    env = dict(os.environ, ASAN_OPTIONS="detect_leaks=0", LD_PRELOAD=subprocess.run(["clang", "-print-file-name=libclang_rt.asan-x86_64.so"],
                                                                                  capture_output=True, text=True).stdout.strip())
    r = subprocess.run(["/venv/bin/python", "-c", code], capture_output=True, text=True, timeout=300, env=env)
    out = r.stdout.strip()
    return {"inputs": "lists of length 0..6, pop() and pop(i) for i in [-2n-2, 2n+2]", "actual": out or r.stderr[-400:], "confirmed": out != "[]",
            "how": "catalogue module built from the working tree with ASan; result and mutated list compared with CPython", "obligation": getattr(ob, "name", None)}


def units(tier):
    us = []
    props = {"C13": ["post", "pre", "subset"], "C36": ["ub", "subset"]}
    common = [("kernel: the receiver is an exact list (typed receiver, None excluded by the caller)", lambda e: O.is_list(e.L)),
              ("0 <= len(L) <= PY_SSIZE_T_MAX / sizeof(PyObject*) (CPython's limit for a list)",
               lambda e: And(O.seq_len(e.L) >= 0, O.seq_len(e.L) < 2 ** 60))]
    u = CUnit("Optimize.PyList_Pop", props, "__Pyx_PyList_Pop", _tu, filt=["__Pyx_PyList_Pop"], defines=("NDEBUG",), pyobjs=("L",),
              requires=common, ensures=[("last element returned and size - 1, or CPython's list.pop on the unchanged list", _pop_post)],
              options={"inline": ("*",), "merge": False}, subject={"file": "Cython/Utility/Optimize.c", "template": "pop"})
    u.exec_cls = O.CExecPyObj
    u.err_ghost = True
    u.replay = _native
    u.concrete_search = lambda ob, regions=(): _native({}, ob)
    us.append(u)
    u = CUnit("Optimize.PyList_PopIndex", props, "__Pyx__PyList_PopIndex", _tu, filt=["__Pyx__PyList_PopIndex", "__Pyx_is_valid_index"],
              defines=("NDEBUG",), pyobjs=("L", "py_ix"), requires=common,
              ensures=[("in range (after one wrap): element returned, size - 1, elements above moved down; otherwise CPython's list.pop "
                        "on the unchanged list with the original index", _popi_post)],
              options={"inline": ("__Pyx_is_valid_index",), "merge": False}, subject={"file": "Cython/Utility/Optimize.c", "template": "pop_index"})
    u.exec_cls = O.CExecPyObj
    u.err_ghost = True
    u.replay = _native
    u.concrete_search = lambda ob, regions=(): _native({}, ob)
    us.append(u)
    return us


REGIONS = {}
