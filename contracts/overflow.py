"""Contracts for Cython/Utility/Overflow.c  (C04; UB part -> C36; both preprocessor configurations -> C39).

Contract (from the property statement): after a checked operation
  (never-misses)   exact(a op b) not representable in T   ==>  *overflow != 0
  (exact-if-clear) *overflow == 0                         ==>  result == exact(a op b)
  (or-ed)          *overflow was != 0                     ==>  *overflow stays != 0
These three are what makes folding several operations under one shared flag sound.
Spurious flags are permitted by the statement ("reports ... the overflowing arithmetic" is read as:
no overflow is missed and no wrapped value is ever delivered with a clear flag); they are *measured*
as optional goals (kind 'measured'), not required.
"""
from dv import spec as S
from dv.spec import And, Or, Not, Implies, If
from dv.cunit import CUnit, Callee
from dv import cextract

SERVES = ("C04", "C36", "C39")

BASE = [("int", True), ("long", True), ("long long", True),
        ("unsigned int", False), ("unsigned long", False), ("unsigned long long", False)]
CONFIGS = {"builtin": (), "nobuiltin": ("__ibmxl__",)}   # -D__ibmxl__ deselects __PYX_HAVE_BUILTIN_OVERFLOW
OPS = {"add": lambda a, b: a + b, "sub": lambda a, b: a - b, "mul": lambda a, b: a * b}


def _fits(e, x):
    return And(e.T.min <= x, x <= e.T.max)


def _clauses(exact_fn):
    ens = [
        ("never-misses: exact result not representable => flag set",
         lambda e: Implies(Not(_fits(e, exact_fn(e))), e.overflow_out != 0)),
        ("exact-if-clear: flag clear => result == exact",
         lambda e: Implies(e.overflow_out == 0, e.result == exact_fn(e))),
        ("or-ed: a set flag stays set",
         lambda e: Implies(e.overflow != 0, e.overflow_out != 0)),
    ]
    measured = [("no-spurious-flag: flag newly set => exact result not representable",
                 lambda e: Implies(And(e.overflow == 0, e.overflow_out != 0), Not(_fits(e, exact_fn(e)))))]
    return ens, measured


def _base_tu(ctype, signed):
    def tu():
        name = ctype.replace(" ", "_")
        common = cextract.load_utility("Common", "Overflow.c")
        if signed:
            base = cextract.load_utility("BaseCaseSigned", "Overflow.c", context={"INT": ctype, "NAME": name})
        else:
            base = cextract.load_utility("BaseCaseUnsigned", "Overflow.c", context={"UINT": ctype, "NAME": name})
        return cextract.template_tu(common, base), \
            "template route: TempitaUtilityCode.load('BaseCase%s', 'Overflow.c', %s) + Common, real module preamble" % (
                "Signed" if signed else "Unsigned", ctype)
    return tu


def _callee_contract(fname, op):
    exact = (lambda f: lambda e: f(e.a, e.b))(OPS[op])
    ens, _ = _clauses(exact)
    return Callee(fname, ["a", "b", "overflow"], cells=("overflow",), ensures=ens)


# exact = a * 2^b; for b < 0 (Python: ValueError) or a < 0 "not representable" is the demanded answer
def lshift_exact(e):
    return e.a * S.pow2(If(And(e.b >= 0, e.b <= 64), e.b, 64))


LSHIFT_ENS = [
    ("never-misses: b<0, b>=width or a*2^b not representable => flag set",
     lambda e: Implies(Or(e.b < 0, e.b >= e.T.bits, Not(_fits(e, lshift_exact(e)))), e.overflow_out != 0)),
    ("exact-if-clear: flag clear => result == a*2^b",
     lambda e: Implies(e.overflow_out == 0, e.result == lshift_exact(e))),
    ("or-ed: a set flag stays set", lambda e: Implies(e.overflow != 0, e.overflow_out != 0)),
]
LSHIFT_MEASURED = [("no-spurious-flag", lambda e: Implies(And(e.overflow == 0, e.overflow_out != 0),
                                                           Or(e.b < 0, e.b >= e.T.bits, Not(_fits(e, lshift_exact(e))))))]


def callee(fname, op):
    """contract of a checking helper for use at call sites (l3_overflow.py); op in add/sub/mul/lshift"""
    if op == "lshift":
        return Callee(fname, ["a", "b", "overflow"], cells=("overflow",), ensures=LSHIFT_ENS)
    return _callee_contract(fname, op)


def _binop_tu(tname, binop):
    def tu():
        cextract.ensure_repo_on_path()
        from Cython.Compiler import PyrexTypes
        t = getattr(PyrexTypes, tname)
        type_ = t.empty_declaration_code()
        name = t.specialization_name()
        parts = [cextract.load_utility("Common", "Overflow.c")]
        for ct in ("int", "long", "long long"):
            parts.append(cextract.load_utility("BaseCaseSigned", "Overflow.c",
                                               context={"INT": ct, "NAME": ct.replace(" ", "_")}))
        for ct in ("unsigned int", "unsigned long", "unsigned long long"):
            parts.append(cextract.load_utility("BaseCaseUnsigned", "Overflow.c",
                                               context={"UINT": ct, "NAME": ct.replace(" ", "_")}))
        parts.append(cextract.load_utility("SizeCheck", "Overflow.c", context={"TYPE": type_, "NAME": name}))
        parts.append(cextract.load_utility("Binop", "Overflow.c",
                                           context={"TYPE": type_, "NAME": name, "BINOP": binop}))
        return cextract.template_tu(*parts), \
            "template route: the utilities PyrexTypes.CIntLike.overflow_check_binop(%r) loads for %s" % (binop, tname)
    return tu


def _lshift_tu(tname):
    def tu():
        cextract.ensure_repo_on_path()
        from Cython.Compiler import PyrexTypes
        t = getattr(PyrexTypes, tname)
        parts = [cextract.load_utility("Common", "Overflow.c"),
                 cextract.load_utility("LeftShift", "Overflow.c",
                                       context={"TYPE": t.empty_declaration_code(), "NAME": t.specialization_name(),
                                                "SIGNED": t.signed})]
        return cextract.template_tu(*parts), "template route: LeftShift for %s as overflow_check_binop('lshift') loads it" % tname
    return tu


def _spec_name(tname):
    cextract.ensure_repo_on_path()
    from Cython.Compiler import PyrexTypes
    return getattr(PyrexTypes, tname).specialization_name()


BINOP_TYPES_QUICK = ["c_py_ssize_t_type", "c_size_t_type"]
BINOP_TYPES_ALL = ["c_py_ssize_t_type", "c_size_t_type", "c_ssize_t_type", "c_ptrdiff_t_type", "c_py_hash_t_type",
                   "c_slong_type", "c_sint_type", "c_slonglong_type", "c_py_unicode_type", "c_bint_type"]
LSHIFT_TYPES_QUICK = ["c_int_type", "c_long_type", "c_uint_type", "c_ulong_type", "c_short_type"]
LSHIFT_TYPES_ALL = LSHIFT_TYPES_QUICK + ["c_longlong_type", "c_ulonglong_type", "c_py_ssize_t_type", "c_size_t_type",
                                         "c_char_type", "c_uchar_type", "c_ushort_type", "c_schar_type"]


def units(tier):
    us = []
    props = {"C04": None, "C36": ["ub"], "C39": None}
    for cfg, defs in CONFIGS.items():
        for ctype, signed in BASE:
            name = ctype.replace(" ", "_")
            ops = ["add", "sub", "mul"] + (["mul_const"] if cfg == "nobuiltin" else [])
            for op in ops:
                exact = (lambda f: lambda e: f(e.a, e.b))(OPS[op.split("_")[0]])
                ens, meas = _clauses(exact)
                fname = "__Pyx_%s_%s_checking_overflow" % (op, name)
                callees = {}
                if cfg == "nobuiltin" and op == "mul":
                    # __Pyx_mul_* dispatches to __Pyx_mul_const_*: use its contract, not its body
                    callees["__Pyx_mul_const_%s_checking_overflow" % name] = _callee_contract(
                        "__Pyx_mul_const_%s_checking_overflow" % name, "mul")
                us.append(CUnit(
                    uid="Overflow.%s[%s,%s]" % (op, ctype, cfg), props=props, fname=fname,
                    tu=_base_tu(ctype, signed), filt="__Pyx_%s_%s_checking" % (op, name), defines=defs,
                    cells=("overflow",), ensures=ens, measured=meas, callees=callees,
                    subject={"file": "Cython/Utility/Overflow.c",
                             "template": "BaseCaseSigned" if signed else "BaseCaseUnsigned",
                             "instantiation": ctype, "config": cfg}))
    # Binop dispatch: proved from the base-case contracts (callee by contract, never by body)
    btypes = BINOP_TYPES_QUICK if tier == "quick" else BINOP_TYPES_ALL
    for tname in btypes:
        for binop in ("add", "sub", "mul") + (("add_const", "mul_const") if tier != "quick" else ()):
            op = binop.split("_")[0]
            callees = {}
            for ct, _sg in BASE:
                fn = "__Pyx_%s_%s_checking_overflow" % (op, ct.replace(" ", "_"))
                callees[fn] = _callee_contract(fn, op)
            exact = (lambda f: lambda e: f(e.a, e.b))(OPS[op])
            ens, meas = _clauses(exact)
            # with the builtin config __Pyx_<op>_const_* are #defines of the non-const functions
            us.append(CUnit(
                uid="Overflow.Binop.%s[%s]" % (binop, tname), props=props,
                fname="__Pyx_%s_%s_checking_overflow" % (binop, _spec_name(tname)),
                tu=_binop_tu(tname, binop), cells=("overflow",), ensures=ens, measured=meas, callees=callees,
                subject={"file": "Cython/Utility/Overflow.c", "template": "Binop", "instantiation": tname,
                         "config": "builtin", "callees_by_contract": sorted(callees)}))
    ltypes = LSHIFT_TYPES_QUICK if tier == "quick" else LSHIFT_TYPES_ALL
    for tname in ltypes:
        ens, meas = LSHIFT_ENS, LSHIFT_MEASURED
        us.append(CUnit(
            uid="Overflow.LeftShift[%s]" % tname, props=props,
            fname="__Pyx_lshift_%s_checking_overflow" % _spec_name(tname),
            tu=_lshift_tu(tname), cells=("overflow",), ensures=ens, measured=meas,
            subject={"file": "Cython/Utility/Overflow.c", "template": "LeftShift", "instantiation": tname}))
    return us


REGIONS = {}
