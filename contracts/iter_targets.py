"""Contract for the target unpacking of optimised enumerate() / dict.items() loops (C14),
Optimize.IterationTransform._transform_enumerate_iteration and _transform_dict_iteration.

`for i, x in enumerate(seq)` and `for k, v in d.items()` are rewritten into loops that assign the counter / key and the item / value
SEPARATELY to the two targets.  Python allows a starred target there (`for i, *rest in enumerate(seq)`: rest = [item]); assigning
the two halves separately is then not the same unpacking.  From the statement ("run the same iterations ... leave the loop variable
with the same final value"): the rewrite may split the target only if it consists of exactly two PLAIN (un-starred) targets.
Subjects: the statements that split the target (fragments located by source anchors on every run); nodes are identities with
fields.  Not covered: the rest of both transforms.
"""
import z3

from dv.spec import And, Or, Not, Implies, If
from dv.pyunit import PyUnit
from dv.pyfe import Callee

SERVES = ("C14",)
FILE = "Cython/Compiler/Optimize.py"
FIELDS = {"obj:Loop": {"target": "ref:obj:Node", "body": "ref:obj:Node", "pos": "any"},
          "obj:Call": {"arg_tuple": "ref:obj:Node", "pos": "any"},
          "obj:Node": {"is_sequence_constructor": "bool", "args": "ref:list", "is_starred": "bool", "type": "ref:obj:Type", "pos": "any"},
          "obj:Type": {"is_pyobject": "bool", "is_int": "bool"}}


def _plain(e, first, second):
    """both split targets are the two items of the loop target, and neither is starred"""
    args = e.h0.fld("args", e.h0.fld("target", e.node))
    return And(e.h0.len(args) == 2, first == e.h0.el(args, 0), second == e.h0.el(args, 1),
               e.h0.fld("is_starred", first) == 0, e.h0.fld("is_starred", second) == 0)


def _local(e, name):
    from dv.pyfe import StaleContract
    v = e.vars.get(name)
    if v is None:
        raise StaleContract("the fragment no longer binds a local called %r (the contract reads the decision off it)" % name)
    return v


def _select_enum(fn):
    """the decision prefix of _transform_enumerate_iteration (leading assignments / guard-ifs with calls only to len() / error()); roles: the two
    locals bound by the unpacking `<a>, <b> = <targets>`"""
    import ast
    from dv.pyunit import guard_prefix
    from dv.pyfe import StaleContract
    stmts = guard_prefix(fn, allowed_calls=("len", "error"))
    unpacks = [n for s in stmts for n in ast.walk(s) if isinstance(n, ast.Assign) and len(n.targets) == 1 and isinstance(n.targets[0], ast.Tuple)
               and len(n.targets[0].elts) == 2 and all(isinstance(x, ast.Name) for x in n.targets[0].elts) and not isinstance(n.value, ast.Tuple)]
    if len(unpacks) != 1:
        raise StaleContract("the decision prefix does not unpack the loop target into exactly two locals")
    return stmts, {"first": unpacks[0].targets[0].elts[0].id, "second": unpacks[0].targets[0].elts[1].id}


def _post_enum(e):
    if "$fell_through" not in e.vars:
        return z3.BoolVal(True)                 # `return node`: the loop is left alone
    return _plain(e, _local(e, e.roles["first"]).addr, _local(e, e.roles["second"]).addr)


def _select_dict(fn):
    """the target selection of _transform_dict_iteration, selected structurally: from the first top-level statement that assigns None to a local up to
    the first later top-level `if` whose test mentions the parameters `keys` / `values`; roles: the two locals bound by the 2-tuple unpacking inside it"""
    import ast
    from dv.pyfe import StaleContract
    body = list(fn.body)
    start = next((i for i, s_ in enumerate(body) if isinstance(s_, ast.Assign) and isinstance(s_.value, ast.Constant) and s_.value.value is None), None)
    if start is None:
        raise StaleContract("no top-level `<local> = None` statement in _transform_dict_iteration")
    end = next((j for j in range(start + 1, len(body)) if isinstance(body[j], ast.If)
                and any(isinstance(n, ast.Name) and n.id in ("keys", "values") for n in ast.walk(body[j].test))), None)
    if end is None:
        raise StaleContract("no top-level `if` on keys / values after the None assignments")
    stmts = body[start:end + 1]
    unpacks = [n for s_ in stmts for n in ast.walk(s_) if isinstance(n, ast.Assign) and len(n.targets) == 1 and isinstance(n.targets[0], ast.Tuple)
               and len(n.targets[0].elts) == 2 and all(isinstance(x, ast.Name) for x in n.targets[0].elts) and not isinstance(n.value, ast.Tuple)]
    if len(unpacks) != 1:
        raise StaleContract("the target selection does not unpack the loop target into exactly two locals")
    return stmts, {"first": unpacks[0].targets[0].elts[0].id, "second": unpacks[0].targets[0].elts[1].id}


def _post_dict(e):
    if "$fell_through" not in e.vars:
        return z3.BoolVal(True)                 # `return node`: the loop is left alone
    kt = _local(e, e.roles["first"])
    vt = _local(e, e.roles["second"])
    from dv.pyfe import PRef
    if not (isinstance(kt, PRef) and isinstance(vt, PRef)):
        return z3.BoolVal(True)                 # one target only (keys or values), a tuple target, or `return node`
    return Implies(And(e.keys, e.values), _plain(e, kt.addr, vt.addr))


def _native(model, obname):
    import os
    import subprocess
    from dv import cextract
    src = ("# cython: language_level=3\n"
           "def en1(seq):\n    r = []\n    for i, *rest in enumerate(seq):\n        r.append((i, rest))\n    return r\n"
           "def en2(seq):\n    r = []\n    for *head, x in enumerate(seq):\n        r.append((head, x))\n    return r\n"
           "def di1(dict d):\n    r = []\n    for k, *rest in d.items():\n        r.append((k, rest))\n    return r\n"
           "def plain(seq, dict d):\n    return [(i, x) for i, x in enumerate(seq)] + [(k, v) for k, v in d.items()]\n")
    try:
        ctext, cfile = cextract.compile_pyx(src, name="dvitertargets")
    except Exception as ex:
        return {"confirmed": False, "note": "compile failed: %r" % ex}
    d = os.path.dirname(cfile)
    p = subprocess.run(["clang", "-shared", "-fPIC", "-O0", "-w", "-I" + cextract.PY_INCLUDE, cfile, "-o", os.path.join(d, "dvitertargets.so")],
                       capture_output=True, text=True)
    if p.returncode != 0:
        return {"confirmed": False, "note": "build failed " + p.stderr[-300:]}
    code = r'''
import sys; sys.path.insert(0, %r); import dvitertargets as m
def run(f, *a):
    try: return f(*a)
    except Exception as e: return type(e).__name__
bad = [(n, got, want) for n, got, want in (
    ("for i, *rest in enumerate([10, 20])", run(m.en1, [10, 20]), [(0, [10]), (1, [20])]),
    ("for *head, x in enumerate([10, 20])", run(m.en2, [10, 20]), [([0], 10), ([1], 20)]),
    ("for k, *rest in {1: 2}.items()", run(m.di1, {1: 2}), [(1, [2])]),
    ("plain targets", run(m.plain, [7], {1: 2}), [(0, 7), (1, 2)])) if got != want]
print(bad)
''' % d
    r = subprocess.run(["/venv/bin/python", "-c", code], capture_output=True, text=True, timeout=120)
    out = r.stdout.strip() if r.returncode >= 0 else "crashed with signal %d" % -r.returncode
    return {"inputs": "enumerate() / dict.items() loops with a starred target, and with plain targets", "actual": (out or r.stderr[-300:])[:500],
            "expected": "CPython's unpacking", "confirmed": out != "[]", "obligation": obname,
            "how": "module compiled by the working-tree compiler; collected targets compared with CPython's"}


def units(tier):
    common = {"fields": FIELDS, "merge": False, "dynamic_classes": (), "elem_kind": {"list": "ref:obj:Node"}}
    u1 = PyUnit("Optimize.IterationTransform._transform_enumerate_iteration[targets]", {"C14": None}, FILE, "IterationTransform._transform_enumerate_iteration",
                [("self", "ref:obj:Transform"), ("node", "ref:obj:Loop"), ("enumerate_function", "ref:obj:Call")],
                requires=[("the target's items and enumerate()'s arguments form lists",
                           lambda e: And(e.h0.len(e.h0.fld("args", e.h0.fld("target", e.node))) >= 0,
                                         e.h0.len(e.h0.fld("args", e.h0.fld("arg_tuple", e.enumerate_function))) >= 0))],
                ensures=[("the target is split only into two plain targets", _post_enum)],
                callees={"error": Callee("error", ["pos", "message"], result_kind="none")},
                native=_native, search=lambda seed, ob: _native({}, ob),
                options=dict(common, fragment={"select": _select_enum}),
                subject={"fragment": "the decision prefix of the function (structurally selected: leading assignments and guard-ifs, up to the first statement that builds nodes)"})
    u2 = PyUnit("Optimize.IterationTransform._transform_dict_iteration[targets]", {"C14": None}, FILE, "IterationTransform._transform_dict_iteration",
                [("self", "ref:obj:Transform"), ("node", "ref:obj:Loop"), ("keys", "bool"), ("values", "bool")],
                requires=[("the target's items form a list", lambda e: e.h0.len(e.h0.fld("args", e.h0.fld("target", e.node))) >= 0)],
                ensures=[("the target is split only into two plain targets", _post_dict)],
                native=_native, search=lambda seed, ob: _native({}, ob),
                options=dict(common, fragment={"select": _select_dict}),
                subject={"fragment": "the target selection (structurally selected: from the first `<local> = None` statement to the `if` on keys / values)"})
    return [u1, u2]


REGIONS = {}
