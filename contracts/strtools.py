"""Contracts for builtin-method helpers of StringTools.c (C13 kernel; their memory safety for C36).

Subject (module route: the helper as found in the C the working-tree compiler generates for `s.startswith(sub, i, j)` /
`s.endswith(sub, i, j)` on a `bytes`-typed receiver; CPython 3.12 configuration):
  * __Pyx_PyBytes_SingleTailmatch(self, arg, start, end, direction)
From the statement ("the same result ... as the original call for every argument value, including out-of-range values"):
for a bytes receiver and a bytes affix, ALL Py_ssize_t start / end and both directions, the helper returns exactly what
CPython's bytes.startswith / bytes.endswith return.  The specification is a transcription of CPython 3.12's
_Py_bytes_tailmatch (ADJUST_INDICES, the startswith/endswith window, the final memcmp), validated against
bytes.startswith/endswith on a grid every run; the contents of the two objects are arbitrary arrays.
Memory safety (C36): the memcmp stays inside both objects (len + 1 readable chars).
"""
import z3

from dv.spec import And, Or, Not, Implies, If
from dv.cunit import CUnit
from dv.l3 import compiled
from dv import pyobj as O
from dv import cextract

SERVES = ("C13", "C36")

PYX = """# cython: language_level=3
def sw(bytes s, sub, Py_ssize_t i, Py_ssize_t j): return s.startswith(sub, i, j)
def ew(bytes s, sub, Py_ssize_t i, Py_ssize_t j): return s.endswith(sub, i, j)
"""


def _tu():
    return compiled(PYX, None, "dvstr"), "module route: bytes.startswith/endswith on a typed receiver, compiled by the working-tree compiler"


def tailmatch_spec(ln, slen, start, end, direction):
    """CPython 3.12 Objects/bytes_methods.c::_Py_bytes_tailmatch up to the memcmp: (a match is possible, offset compared).
    Dual mode."""
    # ADJUST_INDICES(start, end, len)
    end1 = If(end > ln, ln, If(end < 0, If(end + ln < 0, 0, end + ln), end))
    start1 = If(start < 0, If(start + ln < 0, 0, start + ln), start)
    if direction < 0:       # startswith
        ok = Not(start1 > ln - slen)
        start2 = start1
    else:                   # endswith
        ok = Not(Or(end1 - start1 < slen, start1 > ln))
        start2 = If(end1 - slen > start1, end1 - slen, start1)
    ok = And(ok, Not(end1 - start2 < slen))
    return ok, start2


def _post(direction):
    def post(e):
        a, b = e.recv, e.arg
        ln, slen = O.blen(a), O.blen(b)
        ok, cs = tailmatch_spec(ln, slen, e.start, e.end, direction)
        i = z3.Int("i!tm")
        same = z3.ForAll([i], Implies(And(i >= 0, i < slen), z3.Select(O.bytes_of(a), cs + i) == z3.Select(O.bytes_of(b), i)))
        return And(e.err == 0, e.result == If(And(ok, same), 1, 0))
    return post


def _native(model, ob=None):
    import os
    import subprocess
    ctext, cfile = cextract.compile_pyx(PYX, name="dvstrrep")
    d = os.path.dirname(cfile)
    so = os.path.join(d, "dvstrrep.so")
    p = subprocess.run(["clang", "-shared", "-fPIC", "-O0", "-w", "-fsanitize=address,undefined", "-I" + cextract.PY_INCLUDE, cfile, "-o", so],
                       capture_output=True, text=True)
    if p.returncode != 0:
        return {"confirmed": False, "note": "build failed " + p.stderr[-300:]}
    code = r'''
import sys; sys.path.insert(0, %r); import dvstrrep as m
idx = [-2**63, -2**62, -7, -4, -3, -2, -1, 0, 1, 2, 3, 4, 5, 7, 2**62, 2**63 - 2, 2**63 - 1]
bad = []
for s in (b"", b"a", b"abc", b"abcabc"):
    for sub in (b"", b"a", b"c", b"ab", b"bc", b"abc", b"abcd", b"abcabc"):
        for i in idx:
            for j in idx:
                for n, f in (("sw", bytes.startswith), ("ew", bytes.endswith)):
                    if getattr(m, n)(s, sub, i, j) != f(s, sub, i, j):
                        bad.append((n, s, sub, i, j))
print(bad[:4])
''' % d
    env = dict(os.environ, ASAN_OPTIONS="detect_leaks=0", LD_PRELOAD=subprocess.run(["clang", "-print-file-name=libclang_rt.asan-x86_64.so"],
                                                                                  capture_output=True, text=True).stdout.strip())
    r = subprocess.run(["/venv/bin/python", "-c", code], capture_output=True, text=True, timeout=300, env=env)
    out = r.stdout.strip()
    return {"inputs": "receivers/affixes of length 0..6, start/end in a boundary grid incl. +-2**62, both directions",
            "actual": out or r.stderr[-600:], "confirmed": out != "[]",
            "how": "catalogue module built from the working tree with ASan+UBSan; answers compared with bytes.startswith/endswith",
            "obligation": getattr(ob, "name", None)}


def units(tier):
    us = []
    props = {"C13": None, "C36": ["ub", "pre", "subset"]}
    for dname, direction in (("startswith", -1), ("endswith", 1)):
        fname = "__Pyx_PyBytes_SingleTailmatch"
        u = CUnit("StringTools.PyBytes_SingleTailmatch[%s]" % dname, props, fname, _tu, filt=[fname], pyobjs=("recv", "arg"),
                  requires=[("the receiver is a bytes object (typed receiver, None excluded by the caller)", lambda e: O.is_bytes_sub(e.recv)),
                            ("kernel: the affix is a bytes object (other buffer providers go through PyObject_GetBuffer)", lambda e: O.is_bytes_sub(e.arg))],
                  ensures=[("the result is CPython's bytes.%s(sub, start, end) for all start / end" % dname, _post(direction))],
                  options={"merge": False, "inline": ("*",)},
                  subject={"file": "Cython/Utility/StringTools.c", "template": "bytes_tailmatch", "instantiation": dname})
        u.consts = {"direction": direction}
        u.rename = lambda nm: "recv" if nm == "self" else nm
        u.exec_cls = O.CExecPyObj
        u.err_ghost = True
        u.replay = _native
        u.concrete_search = lambda ob, regions=(): _native({}, ob)
        us.append(u)
    return us


def side_checks(prop, tier, seed, kf_entries):
    """the transcription of _Py_bytes_tailmatch against bytes.startswith / bytes.endswith"""
    bad, n, first = 0, 0, None
    idx = [-2 ** 62, -9, -7, -4, -3, -2, -1, 0, 1, 2, 3, 4, 5, 6, 7, 9, 2 ** 62]
    for s in (b"", b"a", b"abc", b"abcabc"):
        for sub in (b"", b"a", b"c", b"ab", b"bc", b"abc", b"abcd", b"abcabc", b"cabc"):
            for i in idx:
                for j in idx:
                    for direction, f in ((-1, bytes.startswith), (1, bytes.endswith)):
                        ok, cs = tailmatch_spec(len(s), len(sub), i, j, direction)
                        got = bool(ok) and s[cs:cs + len(sub)] == sub
                        n += 1
                        if got != f(s, sub, i, j):
                            bad += 1
                            first = first or (s, sub, i, j, direction)
    out = [{"kind": "spec-validation", "name": "_Py_bytes_tailmatch transcription vs bytes.startswith/endswith", "cases": n, "disagree": bad}]
    if bad:
        out.append({"kind": "side-check-failure", "name": "tailmatch-spec-validation", "text": repr(first)})
    return out


REGIONS = {}
