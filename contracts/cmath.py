"""Contracts for Cython/Utility/CMath.c: DivInt, ModInt, ModFloat, IntPow  (C03, C06, C07; UB part -> C36; C39).

Postconditions come from the property statements ("result == a // b as CPython computes it"),
preconditions from the call sites (DivNode.generate_div_warning_code establishes b != 0 and - for
long-sized types only, see the L3 units - the MIN/-1 guard before calling __Pyx_div_T).
"""
from dv import spec as S
from dv.spec import And, Or, Not, Implies, If
from dv.cunit import CUnit
from dv import cextract

SERVES = ("C03", "C07", "C36", "C39")

# C integer types for which Cython instantiates the signed helpers (PyrexTypes names)
SIGNED_QUICK = ["c_int_type", "c_long_type", "c_short_type", "c_schar_type"]
SIGNED_ALL = ["c_char_type", "c_schar_type", "c_short_type", "c_sshort_type", "c_int_type", "c_sint_type",
              "c_long_type", "c_slong_type", "c_longlong_type", "c_slonglong_type", "c_py_ssize_t_type",
              "c_ptrdiff_t_type", "c_py_hash_t_type", "c_ssize_t_type"]


def _pyrex_type(tname):
    cextract.ensure_repo_on_path()
    from Cython.Compiler import PyrexTypes
    return getattr(PyrexTypes, tname)


def _template_tu(util, tname, extra=None):
    def tu():
        t = _pyrex_type(tname)
        text = cextract.template_tu(cextract.load_utility(util, "CMath.c", specialize_type=t, extra=extra))
        return text, "template route: UtilityCode.load(%r, 'CMath.c').specialize(%s) appended to the real module preamble" % (util, tname)
    return tu


def _fname(prefix, tname):
    return "__Pyx_%s_%s" % (prefix, _pyrex_type(tname).specialization_name())


def units(tier):
    us = []
    types = SIGNED_QUICK if tier == "quick" else SIGNED_ALL
    for tname in types:
        for util, pre, spec_fn, label in (("DivInt", "div", S.floordiv, "result==a//b"),
                                          ("ModInt", "mod", S.pymod, "result==a%b")):
            req = [("b!=0", lambda e: e.b != 0),
                   ("b_is_constant in {0,1}", lambda e: Or(e.b_is_constant == 0, e.b_is_constant == 1))]
            if util == "DivInt":
                # call-site fact demanded of the generated guard: the quotient fits
                req.append(("not(a==MIN and b==-1)", lambda e: Not(And(e.a == e.T.min, e.b == -1))))
            us.append(CUnit(
                uid="CMath.%s[%s]" % (util, tname),
                props={"C03": None, "C36": ["ub"], "C39": None},
                fname=_fname(pre, tname), tu=_template_tu(util, tname),
                requires=req,
                ensures=[(label, (lambda f: lambda e: e.result == f(e.a, e.b))(spec_fn))],
                subject={"file": "Cython/Utility/CMath.c", "template": util, "instantiation": tname}))
    return us


REGIONS = {
    # a % b with a == MIN, b == -1: the C expression MIN % -1 is UB although the result (0) fits
    "mod_min_minus1": lambda e: And(e.a == e.T.min, e.b == -1),
}
