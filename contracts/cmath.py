"""Contracts for Cython/Utility/CMath.c: DivInt, ModInt, IntPow  (C03, C07; UB part -> C36; C39).

Postconditions come from the property statements ("result == a // b as CPython computes it"),
preconditions from the call sites (DivNode.generate_div_warning_code establishes b != 0 and the
MIN/-1 guard before calling __Pyx_div_T; the L3 units in l3_div.py check that the emitted call
sites really establish them).
"""
from dv import spec as S
from dv.spec import And, Or, Not, Implies, If
from dv.cunit import CUnit, Callee
from dv import cextract

SERVES = ("C03", "C07", "C36", "C39")

# C integer types for which Cython instantiates the signed helpers (PyrexTypes names)
SIGNED_QUICK = ["c_int_type", "c_long_type", "c_short_type", "c_schar_type"]
SIGNED_ALL = ["c_char_type", "c_schar_type", "c_short_type", "c_sshort_type", "c_int_type", "c_sint_type",
              "c_long_type", "c_slong_type", "c_longlong_type", "c_slonglong_type", "c_py_ssize_t_type",
              "c_ptrdiff_t_type", "c_py_hash_t_type", "c_ssize_t_type"]


def _pyrex_type(tname):
    cextract.ensure_repo_on_path()
    from Cython.Compiler import PyrexTypes
    return getattr(PyrexTypes, tname)


def _template_tu(util, tname, extra=None):
    def tu():
        t = _pyrex_type(tname)
        text = cextract.template_tu(cextract.load_utility(util, "CMath.c", specialize_type=t, extra=extra))
        return text, "template route: UtilityCode.load(%r, 'CMath.c').specialize(%s) appended to the real module preamble" % (util, tname)
    return tu


def _fname(prefix, tname):
    return "__Pyx_%s_%s" % (prefix, _pyrex_type(tname).specialization_name())


# ---- the contracts (shared by the helper units below and by the call sites verified in l3_div.py)

DIV_REQUIRES = [
    ("b!=0", lambda e: e.b != 0),
    ("b_is_constant in {0,1}", lambda e: Or(e.b_is_constant == 0, e.b_is_constant == 1)),
    # types of at least int width: MIN / -1 is C undefined behaviour (traps on x86), so the caller must
    # exclude it; narrower types are divided as int (no UB) and merely do not fit afterwards
    ("width>=int => not(a==MIN and b==-1)", lambda e: Implies(e.T.bits >= 32, Not(And(e.a == e.T.min, e.b == -1)))),
]
# statement: "whenever the mathematical result fits the result type"
DIV_ENSURES = [("quotient fits => result==a//b",
                lambda e: Implies(Not(And(e.a == e.T.min, e.b == -1)), e.result == S.floordiv(e.a, e.b)))]
MOD_REQUIRES = [
    ("b!=0", lambda e: e.b != 0),
    ("b_is_constant in {0,1}", lambda e: Or(e.b_is_constant == 0, e.b_is_constant == 1)),
]
MOD_ENSURES = [("result==a%b", lambda e: e.result == S.pymod(e.a, e.b))]


def div_callee(name):
    return Callee(name, ["a", "b", "b_is_constant"], requires=DIV_REQUIRES, ensures=DIV_ENSURES)


def mod_callee(name):
    return Callee(name, ["a", "b", "b_is_constant"], requires=MOD_REQUIRES, ensures=MOD_ENSURES)


def units(tier):
    us = []
    types = SIGNED_QUICK if tier == "quick" else SIGNED_ALL
    for tname in types:
        for util, pre, req, ens in (("DivInt", "div", DIV_REQUIRES, DIV_ENSURES),
                                    ("ModInt", "mod", MOD_REQUIRES, MOD_ENSURES)):
            us.append(CUnit(
                uid="CMath.%s[%s]" % (util, tname),
                props={"C03": None, "C36": ["ub"], "C39": None},
                fname=_fname(pre, tname), tu=_template_tu(util, tname),
                requires=req, ensures=ens,
                subject={"file": "Cython/Utility/CMath.c", "template": util, "instantiation": tname}))
    return us


REGIONS = {
    # a % b with a == MIN, b == -1: the C expression MIN % -1 is UB although the result (0) fits
    "mod_min_minus1": lambda e: And(e.a == e.T.min, e.b == -1),
}
