"""L3 catalogue for C19: what the compiler emits for chained comparisons, `in` / `not in` against literal containers
and if/elif chains over C integers (Optimize.SwitchTransform, FlattenInListTransform, ExprNodes.PrimaryCmpNode /
CascadedCmpNode code generation).

Subject: the C function the working-tree compiler generates for each catalogue function (C `switch` statements with
fall-through labels, nested `if` for cascaded comparisons, temporaries).  Contract, from the statement ("select the same
outcomes as CPython"): for ALL argument values the C function returns what Python's semantics give the SAME source text.
That value is not transcribed by hand: dv/pyref.py evaluates the catalogue function's own `ast` (chained comparison =
left-to-right conjunction, `x in (a, b)` = `x == a or x == b`, first true branch of an if/elif chain wins); the evaluator
is compared with CPython executing the source on a grid every run (side check).
The catalogue uses C operand types throughout, so Python's unbounded comparison and C's coincide on the operand values;
what is decided is the lowering: case labels (incl. negative, hex-printed, duplicated and overlapping constants), branch
order, `not in` inversion, short-circuit structure, temporaries.  Mixed signed/unsigned C comparisons are not in the
catalogue (documented C semantics).
"""
from dv.spec import And
from dv.l3 import L3Unit
from dv import pyref

SERVES = ("C19", "C36")

CATALOGUE = """# cython: language_level=3
cdef int sw1(int x) except? -1:
    if x == 1 or x == 2:
        return 10
    elif x in (3, 4, 100):
        return 20
    elif x == 5:
        return 30
    else:
        return 40

cdef int sw2(long x) except? -1:
    cdef int r = 0
    if x == -1:
        r = 1
    elif x == 0 or x == 7:
        r = 2
    elif x not in (1, 2, 3):
        r = 3
    return r

cdef int sw3(int x) except? -1:
    if x == 1:
        return 1
    elif x == 2 or x == 1:
        return 2
    elif x in (2, 3):
        return 3
    return 0

cdef int sw4(long x) except? -1:
    if x == -2147483648 or x == 2147483647:
        return 1
    elif x == -2147483647 or x == 1073741824:
        return 2
    elif x in (255, 256, 65535, 65536):
        return 3
    return 4

cdef int swu(unsigned char x) except? -1:
    if x == 0:
        return 1
    elif x == 255 or x == 128:
        return 2
    return 3

cdef int sw_and(int x, int y) except? -1:
    if x == 1 and y == 2:
        return 1
    elif x == 1 or y == 3:
        return 2
    elif x in (4, 5) and y not in (4, 5):
        return 3
    return 4

cdef int chain3(int a, int b, int c) except? -1:
    return a < b <= c

cdef int chain4(long a, long b, long c, long d) except? -1:
    if a <= b < c != d:
        return 1
    return 0

cdef int chain_eq(int a, int b, int c) except? -1:
    if a == b == c:
        return 1
    elif a != b != c:
        return 2
    elif a > b >= c > 0:
        return 3
    return 0

cdef int inl(int x) except? -1:
    return x in (1, 5, 9)

cdef int ninl(int x) except? -1:
    return x not in (1, 5, 9)

cdef int in_vars(int x, int a, int b) except? -1:
    return x in (a, b, 7)

cdef int nin_vars(int x, int a, int b) except? -1:
    if x not in (a, 3, b):
        return 1
    return 0

cdef int in_single(long x) except? -1:
    return x in (42,)

cdef int cond_mix(int x, int y) except? -1:
    return 1 if (x < y or x in (0, -1)) and not (y == 5) else 2

cdef int ne_and(int x) except? -1:
    if x != 1 and x != 2 and x != 3:
        return 1
    return 0

cdef int mix_and(int x) except? -1:
    if x != 1 and x == 2:
        return 1
    elif x == 3 and x != 3:
        return 2
    elif x != 4 or x == 5:
        return 3
    return 0

cdef int in_bytes(unsigned char c) except? -1:
    if c in b'xyz\\x00\\xff':
        return 1
    elif c not in b'abc':
        return 2
    return 3

cdef int sw_nested(int x, int y) except? -1:
    if x == 1:
        if y in (1, 2):
            return 11
        elif y == 3:
            return 13
        return 10
    elif x == 2 or x == 3:
        return 20 if y not in (7, 8) else 21
    return 0

cdef int and_of_eq(int x) except? -1:
    if x == 1 and x == 2:
        return 1
    elif x == 4 and x in (5, 6):
        return 2
    elif x == 0 or (x == 7 and x == 8):
        return 3
    return 0

cdef int and_of_in(long x) except? -1:
    if x in (1, 2) and x in (2, 3):
        return 1
    elif x not in (1, 2) or x not in (2, 3):
        return 2
    return 0
"""

FUNCS = ["sw1", "sw2", "sw3", "sw4", "swu", "sw_and", "chain3", "chain4", "chain_eq", "inl", "ninl", "in_vars", "nin_vars",
         "in_single", "cond_mix", "ne_and", "mix_and", "in_bytes", "sw_nested", "and_of_eq", "and_of_in"]


def _ensures(name):
    params, f, _src = pyref.spec_of(CATALOGUE, name)

    def post(e):
        return And(e.err == 0, e.result == f(*[getattr(e, p) for p in params]))
    return [("no exception and the result is the value Python's semantics give the catalogue source (dv/pyref.py)", post)]


def units(tier):
    us = []
    props = {"C19": None, "C36": ["ub", "pre"]}
    for name in FUNCS:
        us.append(L3Unit("L3cmp.%s" % name, props, CATALOGUE, name, ensures=_ensures(name),
                         subject={"mechanism": "Optimize.SwitchTransform / FlattenInListTransform, ExprNodes.PrimaryCmpNode/CascadedCmpNode code generation"}))
    return us


def side_checks(prop, tier, seed, kf_entries):
    """the reference evaluator against CPython executing the same (de-typed) source"""
    import itertools
    import random
    rnd = random.Random(seed + 19)
    grid = [-9223372036854775807, -2147483648, -5, -2, -1, 0, 1, 2, 3, 4, 5, 7, 9, 42, 100, 128, 255, 256, 65535, 65536,
            2147483647, 4294967296]
    bad, n, first = 0, 0, None
    for name in FUNCS:
        params, f, src = pyref.spec_of(CATALOGUE, name)
        ns = {}
        exec(compile(src, "<catalogue>", "exec"), ns)
        ref = ns[name]
        # arguments range over the declared C parameter types (the compiled function cannot receive anything else)
        import re
        decl = re.search(r"cdef \w+ %s\((.*?)\)" % name, CATALOGUE).group(1)
        rng = {"int": (-2 ** 31, 2 ** 31 - 1), "long": (-2 ** 63, 2 ** 63 - 1), "unsigned char": (0, 255)}
        grids = []
        for d in decl.split(","):
            lo, hi = rng[d.strip().rsplit(" ", 1)[0]]
            grids.append([v for v in grid if lo <= v <= hi])
        combos = list(itertools.product(*grids))
        if len(combos) > 3000:
            combos = rnd.sample(combos, 3000)
        for c in combos:
            n += 1
            if int(f(*c)) != int(ref(*c)):
                bad += 1
                first = first or (name, c, f(*c), ref(*c))
    out = [{"kind": "spec-validation", "name": "dv/pyref.py evaluation of the catalogue source vs CPython exec of the same source",
            "cases": n, "disagree": bad}]
    if bad:
        out.append({"kind": "side-check-failure", "name": "pyref-validation", "text": repr(first)})
    return out


REGIONS = {}
