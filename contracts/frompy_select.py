"""Contract for the conversion function of Python-object -> C-integer coercions (C05), ExprNodes.CoerceFromPyTypeNode.generate_result_code.

A coercion node emits `type.from_py_call_code(..., from_py_function=<substitute or None>)`.  For a C integer target the type's OWN converter
(__Pyx_PyLong_As_<T>: TypeError for a non-integer such as None, OverflowError outside T's range - proved under C05, contracts/cint.py) is what
makes the conversion match CPython; a substitute function (the node has a shortcut for bytes -> char*) would bypass those checks.
From the statement ("conversion in both directions ... raises the same TypeError / OverflowError"): for an integer target no substitute is passed.
Subject: the whole function; the call of from_py_call_code enters by a contract with that PRECONDITION; nodes and types are identities with
fields; the string shortcut for char* targets is outside the kernel (proved unreachable for integer targets).
"""
import z3

from dv.spec import And, Or, Not, Implies, If
from dv.pyunit import PyUnit
from dv.pyfe import Callee

SERVES = ("C05",)
FILE = "Cython/Compiler/ExprNodes.py"
FIELDS = {"obj:CoerceNode": {"type": "ref:obj:Type", "arg": "ref:obj:Node", "pos": "any", "special_none_cvalue": "any"},
          "obj:Node": {"type": "ref:obj:Type"},
          "obj:Type": {"is_string": "bool", "is_int": "bool", "is_pyobject": "bool", "is_pybytes_type": "bool", "is_pybool_type": "bool", "from_py_function": "any"}}


def _callees():
    return {
        "Node.py_result": Callee("Node.py_result", ["self"], result_kind="int"),
        "CoerceNode.result": Callee("CoerceNode.result", ["self"], result_kind="int"),
        "CoerceNode.generate_gotref": Callee("CoerceNode.generate_gotref", ["self", "code"], result_kind="none"),
        "Code.putln": Callee("Code.putln", ["self", "text"], result_kind="none"),
        "Type.from_py_call_code": Callee(
            "Type.from_py_call_code", ["self", "source_code", "result_code", "error_pos", "code", "from_py_function", "special_none_cvalue"], result_kind="int",
            requires=[("an integer target is converted by the type's own checked converter: no substitute function is passed",
                       lambda e: z3.BoolVal(e.from_py_function is None))]),
    }


def _native(model, obname):
    import os
    import subprocess
    from dv import cextract
    src = ("# cython: language_level=3\n"
           "def to_int(flag: bool = None):\n    cdef int i = flag\n    return i\n"
           "def to_size_t(flag: bool = None):\n    cdef size_t i = flag\n    return i\n"
           "def plain(x):\n    cdef int i = x\n    return i\n")
    try:
        ctext, cfile = cextract.compile_pyx(src, name="dvfrompy")
    except Exception as ex:
        return {"confirmed": False, "note": "compile failed: %r" % ex}
    d = os.path.dirname(cfile)
    p = subprocess.run(["clang", "-shared", "-fPIC", "-O0", "-w", "-I" + cextract.PY_INCLUDE, cfile, "-o", os.path.join(d, "dvfrompy.so")],
                       capture_output=True, text=True)
    if p.returncode != 0:
        return {"confirmed": False, "note": "build failed " + p.stderr[-300:]}
    code = r'''
import sys; sys.path.insert(0, %r); import dvfrompy as m
def run(f, *a):
    try: return f(*a)
    except Exception as e: return type(e).__name__
bad = [(n, got, want) for n, got, want in (("cdef int i = <bool-typed None>", run(m.to_int), "TypeError"), ("cdef size_t i = <bool-typed None>", run(m.to_size_t), "TypeError"),
                                           ("True", run(m.to_int, True), 1), ("False", run(m.to_int, False), 0), ("untyped None", run(m.plain, None), "TypeError")) if got != want]
print(bad)
''' % d
    r = subprocess.run(["/venv/bin/python", "-c", code], capture_output=True, text=True, timeout=120)
    out = r.stdout.strip() if r.returncode >= 0 else "crashed with signal %d" % -r.returncode
    return {"inputs": "a variable typed Python bool holding None, True, False coerced to int / size_t", "actual": (out or r.stderr[-300:])[:400],
            "expected": "TypeError for None (None is not an integer); 1 / 0 for True / False", "confirmed": out != "[]", "obligation": obname,
            "how": "module compiled by the working-tree compiler; called natively"}


def units(tier):
    u = PyUnit("ExprNodes.CoerceFromPyTypeNode.generate_result_code[integer target]", {"C05": None}, FILE, "CoerceFromPyTypeNode.generate_result_code",
               [("self", "ref:obj:CoerceNode"), ("code", "ref:obj:Code")],
               requires=[("kernel: the target is a C integer type (not a C string, not a Python object)",
                          lambda e: And(e.h0.fld("is_int", e.h0.fld("type", e.self)) != 0, e.h0.fld("is_string", e.h0.fld("type", e.self)) == 0,
                                        e.h0.fld("is_pyobject", e.h0.fld("type", e.self)) == 0))],
               ensures=[("(the obligation is the precondition of from_py_call_code at its call)", lambda e: z3.BoolVal(True))],
               callees=_callees(), native=_native, search=lambda seed, ob: _native({}, ob),
               options={"fields": FIELDS, "merge": False, "dynamic_classes": (), "uf_methods": ("startswith",)})
    return [u]


REGIONS = {}
