"""L3 unit for C14 / C10: a for-loop over a bytes LITERAL with a Python-object target (Optimize.IterationTransform._try_optimise_array_iteration
/ _transform_carray_iteration).

Subject: the C function the working-tree compiler emits for
    cdef int lit(list l) except -1:
        cdef object c
        for c in b'a\\xff': l.append(c)
        return 0
and with a typed target (`cdef int c`).
Python: iterating bytes yields INT objects 97, 255 (a str yields one-character str objects; a char variable is an int in Python space).
Contract: the objects appended are, in order, int objects holding exactly the literal's bytes.  The conversion helpers enter by contract
(ghost record of what each call to __Pyx_PyList_Append receives); the loop over the 2-element C array is unrolled (bound 2, unwinding assertion).
"""
import z3

from dv.spec import And, Or, Not, Implies, If
from dv.l3 import L3Unit
from dv import pyobj as O
from dv import cextract

SERVES = ("C14", "C10")
CATALOGUE = """# cython: language_level=3
cdef int lit(list l) except -1:
    cdef object c
    for c in b'a\\xff':
        l.append(c)
    return 0

cdef int lit_typed(list l) except -1:
    cdef int c
    for c in b'a\\xff':
        l.append(c)
    return 0

cdef int first_byte(bytes data) except? -1:
    cdef int c
    for c in data:
        return c
    return -2

cdef int chars(list l, char x, char y) except -1:
    cdef object c
    for c in (x, y):
        l.append(c)
    return 0
"""
IS_INT = lambda k: "ghost.appended_is_int[%d]" % k          # noqa: E731
VAL = lambda k: "ghost.appended_value[%d]" % k              # noqa: E731
NAPP = "ghost.appends"
is_bytes_obj = z3.Function("is_bytes_object", z3.IntSort(), z3.BoolSort())


class _Exec(O.CExecPyObj):
    def mem_default(self, key):
        if key.startswith("ghost.appended_is_int"):
            return z3.IntVal(0)
        if key.startswith("ghost.appended_value"):
            return z3.IntVal(-1)
        if key == NAPP:
            return z3.IntVal(0)
        return O.CExecPyObj.mem_default(self, key)


class ListAppend:
    def apply(self, ex, st, args, n):
        from dv.cfe import CV, node_type
        o = ex.oid(args[1])
        cnt = st.mem.get(NAPP, z3.IntVal(0))
        for k in range(3):
            st.mem[IS_INT(k)] = If(cnt == k, If(O.is_long(o), 1, 0), st.mem.get(IS_INT(k), z3.IntVal(0)))
            st.mem[VAL(k)] = If(cnt == k, O.intval(o), st.mem.get(VAL(k), z3.IntVal(-1)))
        st.mem[NAPP] = cnt + 1
        ex.assumptions.add("__Pyx_PyList_Append(l, x) appends x (allocation never fails); a ghost record keeps type and value of each appended object")
        return CV(node_type(n), z3.IntVal(0))


class LongFrom:
    def apply(self, ex, st, args, n):
        from dv.cfe import node_type
        r = ex.obj(st, node_type(n), "long")
        st.path.append(And(O.is_long(r.off), O.intval(r.off) == args[0].t))
        ex.assumptions.add("__Pyx_PyLong_From_<T>(v) returns an int object holding v (contracts/cint.py; allocation never fails)")
        return r


class BytesFromStringAndSize:
    def apply(self, ex, st, args, n):
        from dv.cfe import node_type
        r = ex.obj(st, node_type(n), "bytes")
        st.path.append(And(is_bytes_obj(r.off), Not(O.is_long(r.off))))
        ex.assumptions.add("__Pyx_PyBytes_FromStringAndSize(p, n) returns a bytes object (not an int)")
        return r


def _post(vals):
    def post(e):
        vs = vals(e)
        cl = [e.err == 0, e.result == 0, e.mem.get(NAPP, z3.IntVal(0)) == len(vs)]
        for k, v in enumerate(vs):
            cl.append(And(e.mem.get(IS_INT(k), z3.IntVal(0)) == 1, e.mem.get(VAL(k), z3.IntVal(-1)) == v))
        return And(*cl)
    return post


def _native(model, ob=None):
    import os
    import subprocess
    text = CATALOGUE + ("\ndef py_lit():\n    l = []\n    lit(l)\n    return l\ndef py_lit_typed():\n    l = []\n    lit_typed(l)\n    return l\n"
                        "def py_chars(x, y):\n    l = []\n    chars(l, x, y)\n    return l\ndef py_first_byte(data): return first_byte(data)\nmod_level = []\nfor _c in b'a\\xff': mod_level.append(_c)\n")
    try:
        ctext, cfile = cextract.compile_pyx(text, name="dvbytesiter")
    except Exception as ex:
        return {"confirmed": False, "note": "compile failed: %r" % ex}
    d = os.path.dirname(cfile)
    p = subprocess.run(["clang", "-shared", "-fPIC", "-O0", "-w", "-I" + cextract.PY_INCLUDE, cfile, "-o", os.path.join(d, "dvbytesiter.so")],
                       capture_output=True, text=True)
    if p.returncode != 0:
        return {"confirmed": False, "note": "build failed " + p.stderr[-300:]}
    code = ("import sys; sys.path.insert(0, %r); import dvbytesiter as m\n"
            "bad = [(n, got, want) for n, got, want in ((\"for c in b'a\\\\xff' (object target)\", m.py_lit(), [97, 255]), (\"(int target)\", m.py_lit_typed(), [97, 255]), "
            "(\"for c in (x, y) with char x, y\", m.py_chars(65, 66), [65, 66]), (\"module level\", m.mod_level, [97, 255]), (\"cdef int c; for c in b'\\\\x80..'\", m.py_first_byte(b'\\x80a'), 128), (\"for c in b''\", m.py_first_byte(b''), -2)) if got != want]\nprint(bad)\n" % d)
    r = subprocess.run(["/venv/bin/python", "-c", code], capture_output=True, text=True, timeout=120)
    out = r.stdout.strip()
    return {"inputs": "the catalogue loops, plus the same loop at module level", "actual": (out or r.stderr[-300:])[:500], "expected": "lists of ints, as CPython",
            "confirmed": out != "[]", "obligation": getattr(ob, "name", None), "how": "catalogue compiled by the working-tree compiler; appended items compared with CPython's"}


def units(tier):
    us = []
    callees = {"__Pyx_PyList_Append": ListAppend(), "__Pyx_PyBytes_FromStringAndSize": BytesFromStringAndSize(), "PyBytes_FromStringAndSize": BytesFromStringAndSize()}
    for nm in ("int", "long", "unsigned_char", "char", "signed_char", "unsigned_int"):
        callees["__Pyx_PyLong_From_" + nm] = LongFrom()
    # (the display of C chars is compiled to a tuple of objects - generic iteration; it stays in the native replay only)
    for name, objs, vals in (("lit", ("l",), lambda e: [97, 255]), ("lit_typed", ("l",), lambda e: [97, 255])):
        u = L3Unit("L3bytesiter.%s" % name, {"C14": None, "C10": None}, CATALOGUE, name, pyobjs=objs, callees=callees,
                   requires=[("kernel: the list argument is a list (not None)", lambda e: e.l >= 1)],
                   ensures=[("the appended objects are int objects holding the bytes, in order", _post(vals))],
                   options={"merge": False, "unroll": {0: 2, 1: 2, 2: 2, 3: 2}},        # (`do { } while (0)` of the refcount macros count as loops, too)
                   subject={"mechanism": "Optimize.IterationTransform._try_optimise_array_iteration / _transform_carray_iteration (item conversion for an object target)"})
        u.exec_cls = _Exec
        u.replay = _native
        u.concrete_search = lambda ob, regions=(): _native({}, ob)
        us.append(u)
    # a loop over a bytes OBJECT with a C-integer target: the items are the bytes as unsigned values 0..255 (CPython yields ints 0..255);
    # the loop body returns in its first iteration, so one unrolling is complete (unwinding assertion)
    u = L3Unit("L3bytesiter.first_byte", {"C14": None}, CATALOGUE, "first_byte", pyobjs=("data",),
               requires=[("the argument is a bytes object (the typed argument is not None)", lambda e: O.is_bytes_sub(e.data))],
               ensures=[("the first item is the first byte as an unsigned value; -2 for an empty object",
                         lambda e: And(e.err == 0, e.result == If(O.blen(e.data) >= 1, z3.Select(O.bytes_of(e.data), 0) % 256, -2)))],
               options={"merge": False, "unroll": {0: 1}},
               subject={"mechanism": "Optimize.IterationTransform._transform_bytes_iteration (signedness of the item pointer)"})
    u.exec_cls = O.CExecPyObj
    u.replay = _native
    u.concrete_search = lambda ob, regions=(): _native({}, ob)
    us.append(u)
    return us


REGIONS = {}
