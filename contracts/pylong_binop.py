"""Contracts for Optimize.c::PyLongBinop  (C02: object arithmetic with constant operands matches CPython).

Subjects: __Pyx_PyLong_<Op>ObjC / <Op>CObj as found in the C the working-tree compiler generates for
`x + 7`, `x // 7`, `7 - x`, ... (module route; digit cases unrolled by Tempita, sub-functions inlined).
Contract (object model of dv/pyobj.py), for op1 (resp. op2) an exact int object and the constant c passed both
as object and as C long with |c| <= 2**30 (the call-site condition of Optimize.optimise_numeric_binop, which
also never passes a zero constant divisor):
    the result is an exact int whose value is  op(value(x), c)  with Python semantics (floor division,
    remainder with the divisor's sign, arbitrary-precision shifts, two's-complement bit operations),
    or it IS the result of CPython's own slot / PyNumber_* function for that operator (delegation),
and no C undefined behaviour on the fast path.
"""
import z3

from dv import spec as S
from dv.spec import And, Or, Not, Implies, If
from dv.cunit import CUnit
from dv.l3 import compiled, ERR
from dv import pyobj as O
from dv import cextract

SERVES = ("C02", "C36")

PYX = """# cython: language_level=3
def add(x): return x + 7
def sub(x): return x - 7
def floordiv(x): return x // 7
def mod(x): return x % 7
def and_(x): return x & 7
def or_(x): return x | 7
def xor(x): return x ^ 7
def lshift(x): return x << 7
def rshift(x): return x >> 7
def truediv(x): return x / 7
def radd(x): return 7 + x
def rsub(x): return 7 - x
def mul(x): return x * 7
"""


def _tu():
    return compiled(PYX, None, "dvbinop"), "module route: `x <op> 7` / `7 <op> x` on objects, compiled by the working-tree compiler"


def _bv(op):
    """Python's bit operation on two ints (two's complement of unbounded width).  With both operands inside 64 bits it is
    the 64-bit operation; `x & c` with 0 <= c < 2**30 only depends on x mod 2**30, for x of ANY size (validated natively)."""
    def f(a, b):
        x, y = z3.Int2BV(a, 64), z3.Int2BV(b, 64)
        wide = z3.BV2Int({"&": x & y, "|": x | y, "^": x ^ y}[op], is_signed=True)
        if op != "&":
            return wide
        low = z3.BV2Int(z3.Int2BV(a % (2 ** 30), 30) & z3.Int2BV(b, 30), is_signed=False)
        return If(And(b >= 0, b < 2 ** 30), low, wide)
    return f


def _shl(a, b):
    return a * If(And(b >= 0, b <= 64), S.pow2(If(And(b >= 0, b <= 64), b, 0)), O.pow2u(b))


def _shr(a, b):
    return S.floordiv(a, If(And(b >= 0, b <= 64), S.pow2(If(And(b >= 0, b <= 64), b, 0)), O.pow2u(b)))


# name -> (C function, order, spec(a, c) -> value, generic opcode, extra requires on c)
OPS = {
    "Add": ("ObjC", lambda a, c: a + c, "add"), "Subtract": ("ObjC", lambda a, c: a - c, "sub"),
    "FloorDivide": ("ObjC", lambda a, c: S.floordiv(a, c), "floordiv"), "Remainder": ("ObjC", lambda a, c: S.pymod(a, c), "mod"),
    "Lshift": ("ObjC", _shl, "lshift"), "Rshift": ("ObjC", _shr, "rshift"),
    "Multiply": ("ObjC", lambda a, c: a * c, "mul"),
}
# And / Or / Xor: both operands of the C operator are symbolic; decided in the bit-vector theory (EXPERIMENTAL units)
BITOPS = {"And": ("ObjC", _bv("&"), "and"), "Or": ("ObjC", _bv("|"), "or"), "Xor": ("ObjC", _bv("^"), "xor")}
ROPS = {"Add": lambda c, a: c + a, "Subtract": lambda c, a: c - a}


def _post(spec, opcode, var, other):
    def post(e):
        r = e.result_id
        if r is None:
            return e.err != 0 if e.result_null else False
        x = getattr(e, var)
        fast = And(O.is_long(r), O.intval(r) == spec(O.intval(x), e.intval))
        deleg = O.generic(z3.IntVal(O.OPCODES[opcode]), e.op1, e.op2, z3.IntVal(0), r)
        same = And(r == x, spec(O.intval(x), e.intval) == O.intval(x))        # __Pyx_NewRef(op): value unchanged by the operation
        return Or(fast, deleg, same)
    return post


def _td_post(e):
    """x / c: correctly rounded quotient.  (double)a / (double)c is correctly rounded exactly when both operands are
    exactly representable, i.e. |a| <= 2**53 (|c| <= 2**30 anyway): the fast path may only be taken then."""
    r = e.result_id
    if r is None:
        return e.err != 0 if e.result_null else False
    a = O.intval(e.op1)
    from dv.cfe import nearest_fp, fp_op
    fast = And(O.is_float(r), a >= -(2 ** 53), a <= 2 ** 53,
               O.fval(r) == fp_op("/", 64)(nearest_fp(a), nearest_fp(e.intval)))
    deleg = O.generic(z3.IntVal(O.OPCODES["truediv"]), e.op1, e.op2, z3.IntVal(0), r)
    return Or(fast, deleg)


def _requires(var, other, div, shift=False):
    req = [("the variable operand is an exact int object", lambda e: O.is_long(getattr(e, var))),
           ("the constant is passed consistently as object and as C long (call site)",
            lambda e: And(O.is_long(getattr(e, other)), O.intval(getattr(e, other)) == e.intval)),
           ("|constant| <= 2**30 (Optimize.optimise_numeric_binop)", lambda e: And(e.intval >= -(2 ** 30), e.intval <= 2 ** 30)),
           ("flags are 0/1", lambda e: And(Or(e.inplace == 0, e.inplace == 1), Or(e.zerodivision_check == 0, e.zerodivision_check == 1)))]
    if div:
        req.append(("a constant zero divisor is never optimised", lambda e: e.intval != 0))
    if shift:
        req.append(("shift constants are optimised only for 1 <= c <= 63 (Optimize._handle_simple_method_object___lshift__)",
                    lambda e: And(e.intval >= 1, e.intval <= 63)))
    return req


def _native(model, ob=None):
    import os
    import subprocess
    ctext, cfile = cextract.compile_pyx(PYX, name="dvbinoprep")
    d = os.path.dirname(cfile)
    so = os.path.join(d, "dvbinoprep.so")
    p = subprocess.run(["clang", "-shared", "-fPIC", "-O0", "-w", "-I" + cextract.PY_INCLUDE, cfile, "-o", so], capture_output=True, text=True)
    if p.returncode != 0:
        return {"confirmed": False, "note": "build failed " + p.stderr[-300:]}
    code = r'''
import sys, operator as op; sys.path.insert(0, %r); import dvbinoprep as m
fs = {"add": lambda x: x + 7, "sub": lambda x: x - 7, "floordiv": lambda x: x // 7, "mod": lambda x: x %% 7, "and_": lambda x: x & 7,
      "or_": lambda x: x | 7, "xor": lambda x: x ^ 7, "lshift": lambda x: x << 7, "rshift": lambda x: x >> 7, "truediv": lambda x: x / 7, "radd": lambda x: 7 + x, "rsub": lambda x: 7 - x, "mul": lambda x: x * 7}
vals = sorted(set(s * (2**k + d) for k in (0, 3, 29, 30, 31, 32, 56, 57, 59, 60, 61, 62, 63, 64, 89, 90, 91, 120) for d in (-8, -7, -1, 0, 1, 6, 7) for s in (1, -1)))
vals += [2**53 + 1, 2**53 + 3, 2**60 - 1, 2**58 + 9, -(2**53) - 1]
bad = [(n, v, getattr(m, n)(v)) for n, f in fs.items() for v in vals if getattr(m, n)(v) != f(v) or type(getattr(m, n)(v)) is not type(f(v))]
print(bad[:5])
''' % d
    r = subprocess.run(["/venv/bin/python", "-c", code], capture_output=True, text=True, timeout=120)
    out = r.stdout.strip()
    return {"inputs": "x = +-(2**k + d) at digit boundaries, every operator of the catalogue", "actual": out or r.stderr[-400:],
            "confirmed": out != "[]", "how": "catalogue module built from the working tree; results compared with CPython's big-int arithmetic",
            "obligation": getattr(ob, "name", None)}


def units(tier):
    us = []
    props = {"C02": None, "C36": ["ub", "pre", "subset"]}
    import os
    allops = dict(OPS)
    if os.environ.get("DV_EXPERIMENTAL"):
        allops.update(BITOPS)
    for name, (order, spec, opcode) in allops.items():
        fname = "__Pyx_PyLong_%s%s" % (name, order)
        u = CUnit("Optimize.PyLongBinop.%s%s" % (name, order), props, fname, _tu, filt="__Pyx_PyLong_%s%s" % (name, order),
                  pyobjs=("op1", "op2"), requires=_requires("op1", "op2", name in ("FloorDivide", "Remainder"), name in ("Lshift", "Rshift")),
                  ensures=[("result == Python's x %s c as an exact int, or CPython's own slot result" % name, _post(spec, opcode, "op1", "op2"))],
                  options=dict({"inline": ("*",), "merge": False},
                               **({"case_split": ("intval", list(range(1, 64)))} if name in ("Lshift", "Rshift") else {})),
                  subject={"file": "Cython/Utility/Optimize.c", "template": "PyLongBinop", "instantiation": name + order})
        u.exec_cls = O.CExecPyObj
        u.err_ghost = True
        u.replay = _native
        u.concrete_search = lambda ob, regions=(): _native({}, ob)
        us.append(u)
    u = CUnit("Optimize.PyLongBinop.TrueDivideObjC", props, "__Pyx_PyLong_TrueDivideObjC", _tu, filt="__Pyx_PyLong_TrueDivideObjC",
              pyobjs=("op1", "op2"), requires=_requires("op1", "op2", True),
              ensures=[("result is the float (double)x / (double)c only when x is exactly representable (|x| <= 2**53), else CPython's slot", _td_post)],
              options={"inline": ("*",), "merge": False, "fp_abstract": True},
              subject={"file": "Cython/Utility/Optimize.c", "template": "PyLongBinop", "instantiation": "TrueDivideObjC"})
    u.exec_cls = O.CExecPyObj
    u.err_ghost = True
    u.replay = _native
    u.concrete_search = lambda ob, regions=(): _native({}, ob)
    us.append(u)
    for name, spec in ROPS.items():
        fname = "__Pyx_PyLong_%sCObj" % name
        u = CUnit("Optimize.PyLongBinop.%sCObj" % name, props, fname, _tu, filt=fname,
                  pyobjs=("op1", "op2"), requires=_requires("op2", "op1", False),
                  ensures=[("result == Python's c %s x as an exact int, or CPython's own slot result" % name,
                            _post(lambda a, c, spec=spec: spec(c, a), {"Add": "add", "Subtract": "sub"}[name], "op2", "op1"))],
                  options={"inline": ("*",), "merge": False},
                  subject={"file": "Cython/Utility/Optimize.c", "template": "PyLongBinop", "instantiation": name + "CObj"})
        u.exec_cls = O.CExecPyObj
        u.err_ghost = True
        u.replay = _native
        u.concrete_search = lambda ob, regions=(): _native({}, ob)
        us.append(u)
    return us


REGIONS = {}
