"""Contracts for Optimize.c::PyNumberBinop (C02 / C06): `x + y`, `x - y`, `x * y` on two objects, float-with-int fast paths.

Subjects: __Pyx_PyNumber_<Op>_xfloat_object (op1 an exact float) and __Pyx_PyNumber_<Op>_xint_object (op1 an exact int) as found in
the C the working-tree compiler generates for `x * y`, `x + y`, `x - y` on untyped operands (module route).
Kernel of this contract: the OTHER operand is an exact int (resp. an exact float) - the fast path that converts the int to a double
and applies the IEEE operation.  CPython (float_mul / float_add / float_sub after convert_to_double): the exact float
`a <op> (double) n`, including the SIGN OF A ZERO result (0.0 * -5 is -0.0; -0.0 + 0 is 0.0).  Contract: the result is an exact float
bit-identical (up to NaN payload) to that IEEE result, or - for an int too large for a double - CPython's own conversion error.
IEEE addition and subtraction are z3's own (no abstraction): shortcuts that return an operand unchanged are decided by the theory.
Multiplication is the uninterpreted function shared with the subject plus the ASSUMED sign rule for a zero factor (two bit-blasted
multipliers fed by equal but differently written integer terms are a hard SAT problem; 12-20 s and unstable).
The paths for other operand types (type slots called through pointers) are outside the C subset: under this kernel they are proved
unreachable (`subset` obligations).
"""
import z3

from dv.spec import And, Or, Not, Implies, If
from dv.cunit import CUnit
from dv.l3 import compiled
from dv import pyobj as O
from dv import cextract
from dv.cfe import nearest_fp, i2d_facts

SERVES = ("C02", "C06")
PYX = """# cython: language_level=3
def mul(x, y): return x * y
def add(x, y): return x + y
def sub(x, y): return x - y
"""
RNE = z3.RNE()
from dv.cfe import fp_op  # noqa: E402


def _mul(rm, a, b):
    """IEEE multiplication as the uninterpreted function shared with the subject (option fp_abstract of the Multiply units): two multiplier
    circuits fed by equal but syntactically different integer terms (compact value vs intval) are a known hard SAT problem, congruence is not"""
    return fp_op("*", 64)(a, b)


OPS = {"Multiply": _mul, "Add": z3.fpAdd, "Subtract": z3.fpSub}


def _mul_zero_facts(a, b):
    """ASSUMED IEEE-754 facts about multiplication by a zero, instantiated for the operands (they decide shortcuts that return an operand):
    (+-0) * finite b is a zero whose sign is the XOR of the signs; commutes"""
    m, m2 = fp_op("*", 64)(a, b), fp_op("*", 64)(b, a)
    fin = lambda x: And(Not(z3.fpIsNaN(x)), Not(z3.fpIsInf(x)))      # noqa: E731
    return And(Implies(And(z3.fpIsZero(a), fin(b)), And(z3.fpIsZero(m), z3.fpIsNegative(m) == z3.Xor(z3.fpIsNegative(a), z3.fpIsNegative(b)))),
               Implies(And(z3.fpIsZero(a), fin(b)), And(z3.fpIsZero(m2), z3.fpIsNegative(m2) == z3.Xor(z3.fpIsNegative(a), z3.fpIsNegative(b)))))


def _tu():
    return compiled(PYX, None, "dvnumbinop"), "module route: `x <op> y` on two untyped objects, compiled by the working-tree compiler"


def _post(op, float_first):
    def post(e):
        f_obj, i_obj = (e.op1, e.op2) if float_first else (e.op2, e.op1)
        a, b = O.fval(f_obj), nearest_fp(O.intval(i_obj), 64)
        want = OPS[op](RNE, a, b) if float_first else OPS[op](RNE, b, a)
        if e.result_null:
            return e.err != 0                   # PyLong_AsDouble failed (int too large for a double): CPython raises OverflowError as well
        r = e.result_id
        if r is None:
            return False
        return And(O.is_float(r), O.fval(r) == want)
    return post


def _requires(float_first, mul=False):
    f, i = ("op1", "op2") if float_first else ("op2", "op1")
    return [("kernel: one operand is an exact float, the other an exact int", lambda e: And(O.is_float(getattr(e, f)), O.is_long(getattr(e, i)),
                                                                                            Not(O.is_long(getattr(e, f))), Not(O.is_float(getattr(e, i))))),
            ("ASSUMED facts about the int -> double conversion, instantiated for the operand's value (see dv/cfe.py i2d_facts)", lambda e: i2d_facts(O.intval(getattr(e, i)))),
            ("inplace is 0/1", lambda e: Or(e.inplace == 0, e.inplace == 1))] + ([
            ("ASSUMED: IEEE-754 multiplication of a zero by a finite value (sign rule), instantiated for the operands",
             lambda e: _mul_zero_facts(O.fval(getattr(e, f)), nearest_fp(O.intval(getattr(e, i)), 64)))] if mul else [])


def _native(model, ob=None):
    import os
    import subprocess
    ctext, cfile = cextract.compile_pyx(PYX, name="dvnumbinoprep")
    d = os.path.dirname(cfile)
    so = os.path.join(d, "dvnumbinoprep.so")
    p = subprocess.run(["clang", "-shared", "-fPIC", "-O0", "-w", "-I" + cextract.PY_INCLUDE, cfile, "-o", so], capture_output=True, text=True)
    if p.returncode != 0:
        return {"confirmed": False, "note": "build failed " + p.stderr[-300:]}
    code = r'''
import sys; sys.path.insert(0, %r); import dvnumbinoprep as m
fs = {"mul": lambda x, y: x * y, "add": lambda x, y: x + y, "sub": lambda x, y: x - y}
fl = [0.0, -0.0, 1.5, -1.5, 1e308, 5e-324, float("inf"), float("-inf"), float("nan")]
it = [0, 1, -1, 5, -5, 2**30, -2**31, 2**40, -2**40, 2**53 + 1, 2**64, -2**64, 2**1100]
def run(f, a, b):
    try: r = f(a, b)
    except Exception as e: return ("exc", type(e).__name__)
    return ("ok", type(r).__name__, repr(r))
bad = [(n, a, b) for n, f in fs.items() for x in fl for y in it for a, b in ((x, y), (y, x)) if run(getattr(m, n), a, b) != run(f, a, b)]
print(bad[:6]); print(len(bad))
''' % d
    r = subprocess.run(["/venv/bin/python", "-c", code], capture_output=True, text=True, timeout=120)
    out = r.stdout.strip().splitlines()
    return {"inputs": "x <op> y for floats (zeros of both signs, extremes, inf, nan) with ints of every size, both operand orders; type and repr compared",
            "actual": (r.stdout.strip() or r.stderr[-400:])[:500], "confirmed": len(out) == 2 and out[0] != "[]",
            "how": "catalogue module built from the working tree; type and repr of every result compared with CPython", "obligation": getattr(ob, "name", None)}


def units(tier):
    us = []
    for op in OPS:
        for variant, float_first in (("xfloat", True), ("xint", False)):
            fname = "__Pyx_PyNumber_%s_%s_object" % (op, variant)
            u = CUnit("Optimize.PyNumberBinop.%s_%s[float with int]" % (op, variant), {"C02": None, "C06": None}, fname, _tu, filt=fname, pyobjs=("op1", "op2"),
                      requires=_requires(float_first, op == "Multiply"),
                      ensures=[("the exact float `a %s (double) n` (resp. `(double) n %s a`) by the IEEE operation, sign of zero included" %
                                (({"Multiply": "*", "Add": "+", "Subtract": "-"}[op],) * 2), _post(op, float_first))],
                      options={"inline": ("*",), "merge": False, "stmt_guard": True, "fp_abstract": op == "Multiply"},
                      subject={"file": "Cython/Utility/Optimize.c", "template": "PyNumberBinop", "instantiation": "%s %s object" % (op, variant)})
            u.exec_cls = O.CExecPyObj
            u.err_ghost = True
            u.replay = _native
            u.concrete_search = lambda ob, regions=(): _native({}, ob)
            us.append(u)
    return us


REGIONS = {}
