"""Contract for the folding of `not <comparison>` (C19 kernel), Cython/Compiler/Optimize.py::ConstantFolding._handle_NotNode.

`not (a is b)` may be rewritten to `a is not b` (likewise is_not / in / not_in): one comparison with the negated operator.
A CHAINED comparison `a is b is c` means `(a is b) and (b is c)`; its negation is not obtained by negating the first link
(`a is not b is c` means `(a is not b) and (b is c)`).  From the statement ("chained comparisons ... select the same outcomes
as CPython"):
    the NotNode is returned unchanged whenever its operand is a comparison with a cascade (or no comparison at all, or an
    operator that has no negated form); otherwise the result is what visit_PrimaryCmpNode makes of a COPY of the operand
    carrying the negated operator - the operand itself is not modified.
Nodes are identities; `copy.copy`, `_negate_operator` and `visit_PrimaryCmpNode` are contract stubs.
"""
import z3

from dv.spec import And, Or, Not, Implies
from dv.pyunit import PyUnit
from dv.pyfe import Callee, NONE_ADDR

SERVES = ("C19",)
FILE = "Cython/Compiler/Optimize.py"
I = z3.IntSort()
IS_CMP = z3.Function("isinstance_PrimaryCmpNode", I, z3.BoolSort())
NEG = z3.Function("negate_operator", I, I)            # operator name -> negated operator name, 0 (falsy) if there is none
VISITED = z3.Function("visit_PrimaryCmpNode_result", I, I)
FIELDS = {"obj:ConstantFolding": {}, "obj:Node": {"operand": "ref:obj:Node", "operator": "any", "cascade": "opt:obj:Node"}}


def _post(e):
    op = e.h0.fld("operand", e.node)
    chained = e.h0.fld("cascade", op) != NONE_ADDR
    untouched = And(e.h.fld("operator", op) == e.h0.fld("operator", op), e.h.fld("cascade", op) == e.h0.fld("cascade", op))
    return And(untouched, Implies(Or(chained, Not(IS_CMP(op)), NEG(e.h0.fld("operator", op)) == 0), e.result == e.node))


def _native(model, obname):
    import os
    import subprocess
    from dv import cextract
    src = ("# cython: language_level=3\n"
           "def n1(a, b, c): return not (a is b is c)\ndef n2(a, b): return not (a is not None == b)\n"
           "def n3(a, b, c): return not (a in b in c)\ndef n4(a, b): return not (a is b)\ndef n5(a, b): return not (a not in b)\n")
    try:
        ctext, cfile = cextract.compile_pyx(src, name="dvfoldnot")
    except Exception as ex:
        return {"confirmed": False, "note": "compile failed: %r" % ex}
    d = os.path.dirname(cfile)
    p = subprocess.run(["clang", "-shared", "-fPIC", "-O0", "-w", "-I" + cextract.PY_INCLUDE, cfile, "-o", os.path.join(d, "dvfoldnot.so")],
                       capture_output=True, text=True)
    if p.returncode != 0:
        return {"confirmed": False, "note": "build failed " + p.stderr[-300:]}
    code = r'''
import sys, itertools; sys.path.insert(0, %r); import dvfoldnot as m
def run(f, *a):
    try: return ("ok", f(*a))
    except Exception as e: return (type(e).__name__,)
vals = [None, 1, 2, (1, 2), [None], "ab", True]
ref = {"n1": lambda a, b, c: not (a is b is c), "n2": lambda a, b: not (a is not None == b), "n3": lambda a, b, c: not (a in b in c),
       "n4": lambda a, b: not (a is b), "n5": lambda a, b: not (a not in b)}
bad = []
for name, f in ref.items():
    n = f.__code__.co_argcount
    for args in itertools.product(vals, repeat=n):
        if run(getattr(m, name), *args) != run(f, *args): bad.append((name, args, run(getattr(m, name), *args), run(f, *args)))
print(bad[:3]); print(len(bad))
''' % d
    r = subprocess.run(["/venv/bin/python", "-c", code], capture_output=True, text=True, timeout=120)
    out = r.stdout.strip().splitlines()
    ok = out[:1] == ["[]"]
    return {"inputs": "not (a is b is c), not (a is not None == b), not (a in b in c), not (a is b), not (a not in b) over 7 values per operand",
            "actual": (r.stdout.strip() or r.stderr[-300:])[:500], "confirmed": not ok and len(out) == 2, "obligation": obname,
            "how": "module compiled by the working-tree compiler; results compared with CPython evaluating the same expressions"}


def units(tier):
    P = __import__("dv.pyfe", fromlist=["PAny"])
    callees = {
        "OptimizeBuiltinCalls._negate_operator": None,
        "ConstantFolding._negate_operator": Callee("ConstantFolding._negate_operator", ["self", "operator"],
                                                   result_kind=lambda ex, e: P.PAny(NEG(e.operator))),
        "copy.copy": Callee("copy.copy", ["x"], result_kind="ref:obj:Node", modifies=lambda e: [("alloc",)],
                            ensures=[("a new object with the same attribute values",
                                      lambda e: And(e.result >= z3.Int("H0.alloc"), e.result != e.x,
                                                    e.h.fld("operator", e.result) == e.h.fld("operator", e.x),
                                                    e.h.fld("cascade", e.result) == e.h.fld("cascade", e.x)))]),
        "ConstantFolding.visit_PrimaryCmpNode": Callee("ConstantFolding.visit_PrimaryCmpNode", ["self", "node"], result_kind="ref:obj:Node",
                                                       ensures=[("", lambda e: e.result == VISITED(e.node))]),
    }
    callees = {k: v for k, v in callees.items() if v is not None}
    u = PyUnit("Optimize.ConstantFolding._handle_NotNode", {"C19": None}, FILE, "ConstantFolding._handle_NotNode",
               [("self", "ref:obj:ConstantFolding"), ("node", "ref:obj:Node")],
               requires=[("the operand is an existing node other than the NotNode", lambda e: e.h0.fld("operand", e.node) != e.node)],
               ensures=[("a chained comparison is never negated link-wise; the operand itself is not modified", _post)],
               callees=callees, native=_native, search=lambda seed, ob: _native({}, ob),
               options={"fields": FIELDS, "merge": False, "dynamic_classes": ("obj:Node",), "modules": {}, "opaque_names": ()})
    return [u]


REGIONS = {}
