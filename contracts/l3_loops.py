"""L3 catalogue for C14: what the compiler emits for `for i in range(...)` / `reversed(range(...))` over C integers
(Optimize.IterationTransform._transform_range_iteration / _transform_reversed_iteration / _build_range_step_calculation,
Nodes.ForFromStatNode code generation).

Subject: the C function the working-tree compiler generates for each catalogue function: a C `for` loop over compiler
temporaries.  Contract, from the statement ("run the same iterations in the same order ... leave the loop variable with
the same final value and run the else clause in the same cases"): every catalogue body counts its iterations in `n`, so
    loop invariant   at the k-th entry of the body the loop variable is  first + k*step  of Python's sequence
                     (range(a, b, s): first = a; reversed(range(a, b, s)): first = a + (len-1)*s, step = -s),
                     k == n - n0, and the previous value was still inside the sequence;
    postcondition    n == len(range(a, b, s)) (+ what the else clause adds), the loop variable is untouched for an empty
                     sequence and the last element otherwise; with `break`: the position of the first hit.
The invariant is STRUCTURAL: it reads the emitted loop's own counter, bound and constant increment from the C `for`
statement (no temporary is named), so renumbered temporaries do not disturb it.  `range_len` is the closed form of
len(range(a, b, s)), validated against CPython every run.
Signed overflow of the emitted counter arithmetic is an obligation of kind `ub` (C36), with one recorded finding.
"""
import z3

from dv import spec as S
from dv.spec import And, Or, Not, Implies, If
from dv.l3 import L3Unit
from dv.cfe import OutOfSubset, StaleContract
from contracts.cmath import div_callee, mod_callee

SERVES = ("C14", "C36")


def range_len(a, b, s):
    """len(range(a, b, s)) for a constant non-zero step s (dual mode)"""
    if s > 0:
        return If(b > a, S.floordiv(b - a + (s - 1), s), 0)
    return If(a > b, S.floordiv(a - b + (-s - 1), -s), 0)


CATALOGUE = """# cython: language_level=3
cdef long r_cnt(long a, long b) except? -1:
    cdef long i = -99, n = 0
    for i in range(a, b):
        n += 1
    return n

cdef long r_last(long a, long b) except? -1:
    cdef long i = -99, n = 0
    for i in range(a, b):
        n += 1
    return i

cdef long r_stop(long b) except? -1:
    cdef long i = -99, n = 0
    for i in range(b):
        n += 1
    return n

cdef long r_step3(int a, int b) except? -1:
    cdef int i = -99
    cdef long n = 0
    for i in range(a, b, 3):
        n += 1
    return n

cdef long r_step3_last(int a, int b) except? -1:
    cdef int i = -99
    cdef long n = 0
    for i in range(a, b, 3):
        n += 1
    return i

cdef long r_neg2(int a, int b) except? -1:
    cdef int i = -99
    cdef long n = 0
    for i in range(a, b, -2):
        n += 1
    return n

cdef long r_neg2_last(int a, int b) except? -1:
    cdef int i = -99
    cdef long n = 0
    for i in range(a, b, -2):
        n += 1
    return i

cdef long r_else(int a, int b) except? -1:
    cdef int i = -99
    cdef long n = 0
    for i in range(a, b, 3):
        n += 1
    else:
        n += 1000
    return n

cdef long r_break(int a, int b, int c) except? -1:
    cdef int i = -99
    cdef long n = 0
    for i in range(a, b, 2):
        if i == c:
            break
        n += 1
    else:
        n += 1000000
    return n

cdef long r_rebind(int a, int b) except? -1:
    cdef int i = -99
    cdef long n = 0
    for i in range(a, b, 2):
        n += 1
        if n == 2:
            b = a
        elif n == 3:
            a = 7
    return n

cdef long rev_rebind(int a, int b) except? -1:
    cdef int i = -99
    cdef long n = 0
    for i in reversed(range(a, b)):
        n += 1
        if n == 1:
            a = b
    return n

cdef long rev1(int a, int b) except? -1:
    cdef int i = -99
    cdef long n = 0
    for i in reversed(range(a, b)):
        n += 1
    return n

cdef long rev1_last(int a, int b) except? -1:
    cdef int i = -99
    cdef long n = 0
    for i in reversed(range(a, b)):
        n += 1
    return i

cdef long rev2(int a, int b) except? -1:
    cdef int i = -99
    cdef long n = 0
    for i in reversed(range(a, b, 2)):
        n += 1
    return n

cdef long rev2_last(int a, int b) except? -1:
    cdef int i = -99
    cdef long n = 0
    for i in reversed(range(a, b, 2)):
        n += 1
    return i

cdef long rev_neg3(int a, int b) except? -1:
    cdef int i = -99
    cdef long n = 0
    for i in reversed(range(a, b, -3)):
        n += 1
    return n

cdef long rev_neg3_last(int a, int b) except? -1:
    cdef int i = -99
    cdef long n = 0
    for i in reversed(range(a, b, -3)):
        n += 1
    return i
"""

# name -> (first(e), step, length(e), result kind)
#   the Python sequence is first, first+step, ... (length elements)
def _fwd(s, with_a=True):
    a = (lambda e: e.a) if with_a else (lambda e: 0)
    return (a, s, lambda e: range_len(a(e), e.b, s))


def _rev(s):
    # reversed(range(a, b, s)): starts at the last element of range(a, b, s), steps by -s
    ln = lambda e: range_len(e.a, e.b, s)  # noqa: E731
    return (lambda e: e.a + (ln(e) - 1) * s, -s, ln)


SEQ = {
    "r_cnt": _fwd(1), "r_last": _fwd(1), "r_stop": _fwd(1, with_a=False), "r_step3": _fwd(3), "r_step3_last": _fwd(3),
    "r_neg2": _fwd(-2), "r_neg2_last": _fwd(-2), "r_else": _fwd(3), "r_break": _fwd(2),
    # the body rebinds the variables the range arguments were read from: CPython evaluated range(a, b) once
    "r_rebind": _fwd(2), "rev_rebind": _rev(1),
    "rev1": _rev(1), "rev1_last": _rev(1), "rev2": _rev(2), "rev2_last": _rev(2), "rev_neg3": _rev(-3), "rev_neg3_last": _rev(-3),
}


def _break_pos(e):
    """index of c in range(a, b, 2), or -1"""
    ln = range_len(e.a, e.b, 2)
    hit = And(e.c >= e.a, S.pymod(e.c - e.a, 2) == 0, S.floordiv(e.c - e.a, 2) < ln)
    return If(hit, S.floordiv(e.c - e.a, 2), -1)


def expected(name, e):
    first, step, ln = SEQ[name]
    L = ln(e)
    if name.endswith("_last"):
        return If(L > 0, first(e) + (L - 1) * step, -99)
    if name == "r_else":
        return L + 1000
    if name == "r_break":
        p = _break_pos(e)
        return If(p >= 0, p, L + 1000000)
    return L


class CountedLoop:
    """structural invariant of an emitted counted loop `for (t = start; t <op> bound; t += const)` whose body assigns the
    loop variable from t and counts in __pyx_v_n"""

    def __init__(self, name, env):
        self.name, self.env = name, env

    def bind(self, ex, st, n, cond, inc):
        b = _Bound()
        b.name, b.e = self.name, self.env
        c = cond
        while c["kind"] in ("ParenExpr", "ImplicitCastExpr"):
            c = c["inner"][0]
        if c["kind"] != "BinaryOperator" or c["opcode"] not in ("<", ">", "<=", ">="):
            raise StaleContract("loop condition is not a comparison of the counter with a bound")
        lhs = c["inner"][0]
        while lhs["kind"] in ("ParenExpr", "ImplicitCastExpr"):
            lhs = lhs["inner"][0]
        if lhs["kind"] != "DeclRefExpr":
            raise StaleContract("loop condition does not start with the counter variable")
        b.counter = lhs["referencedDecl"]["id"]
        b.cmp, b.bound_node = c["opcode"], c["inner"][1]
        i = inc
        while i["kind"] in ("ParenExpr",):
            i = i["inner"][0]
        if i["kind"] != "CompoundAssignOperator" or i["opcode"] not in ("+=", "-="):
            raise StaleContract("loop increment is not `counter += constant`")
        sv = ex.ev(st.copy(), i["inner"][1]).t
        sv = z3.simplify(sv)
        if not z3.is_int_value(sv):
            raise StaleContract("loop increment is not a constant")
        b.cstep = sv.as_long() if i["opcode"] == "+=" else -sv.as_long()
        b.n0 = ex.local(st, "__pyx_v_n").t
        b.i0 = ex.local(st, "__pyx_v_i").t
        return b


class _Bound:
    def holds(self, ex, st):
        e = self.e
        first, step, ln = SEQ[self.name]
        t = st.vars[self.counter].t
        n = ex.local(st, "__pyx_v_n").t
        i = ex.local(st, "__pyx_v_i").t
        k = n - self.n0
        L = ln(e)
        bound = ex.ev(st.copy(), self.bound_node).t
        goes_on = {"<": t < bound, ">": t > bound, "<=": t <= bound, ">=": t >= bound}[self.cmp]
        out = [("emitted step is the step of Python's sequence", z3.BoolVal(self.cstep == step)),
               ("count", And(k >= 0, k <= L)),
               ("counter is element k of Python's sequence (or one step past its end); for an empty sequence it only has to "
                "fail the loop condition", If(L == 0, Not(goes_on), t == first(e) + k * step)),
               ("loop variable: untouched before the first iteration, element k-1 afterwards",
                If(k == 0, i == self.i0, i == first(e) + (k - 1) * step))]
        if self.name == "r_break":
            # no earlier element was equal to c
            out.append(("no hit so far", Not(And(e.c >= e.a, e.c < t, S.pymod(e.c - e.a, 2) == 0))))
        return out

    def decreases(self, ex, st):
        first, step, ln = SEQ[self.name]
        return ln(self.e) - (ex.local(st, "__pyx_v_n").t - self.n0)


class _EnvProxy:
    """parameters of the unit as z3 constants (the same constants CUnit creates: Int(<name>))"""

    def __getattr__(self, nm):
        return z3.Int(nm)


def _ensures(name):
    def post(e):
        return And(e.err == 0, e.result == expected(name, e))
    return [("no exception; the result (iteration count / final loop variable / else and break accounting) is Python's", post)]


def units(tier):
    us = []
    props = {"C14": None, "C36": ["ub", "pre"]}
    callees = {}
    for sn in ("int", "long", "Py_ssize_t"):
        callees["__Pyx_div_" + sn] = div_callee("__Pyx_div_" + sn)
        callees["__Pyx_mod_" + sn] = mod_callee("__Pyx_mod_" + sn)
    for name in SEQ:
        req = []
        if name in ("r_cnt", "r_last", "r_stop"):
            # the catalogue's own iteration counter `n` is a C long: keep the count representable
            req = [("the iteration count fits the catalogue's counter (|a|, |b| <= 2**62)",
                    lambda e: And(*[And(getattr(e, p) >= -2 ** 62, getattr(e, p) <= 2 ** 62) for p in ("a", "b") if hasattr(e, p)]))]
        u = L3Unit("L3loop.%s" % name, props, CATALOGUE, name, requires=req, ensures=_ensures(name), callees=callees,
                   options={"invariants": {0: CountedLoop(name, _EnvProxy())}},
                   subject={"mechanism": "Optimize.IterationTransform (range / reversed(range)), Nodes.ForFromStatNode code generation"})
        # native replay / search only on inputs whose loop runs at most 10**5 times
        u.native_guard = lambda vals: abs(vals.get("b", 0) - vals.get("a", 0)) <= 10 ** 5
        us.append(u)
    return us


def side_checks(prop, tier, seed, kf_entries):
    """the closed forms (range_len, expected) against CPython executing the de-typed catalogue source"""
    import itertools
    from dv import pyref
    src = pyref.python_source(CATALOGUE)
    ns = {}
    exec(compile(src, "<catalogue>", "exec"), ns)
    grid = list(range(-7, 8)) + [-100, 100, 2 ** 31 - 1, -2 ** 31, 2 ** 31 - 2]
    bad, n, first = 0, 0, None

    class E:
        pass
    for name in SEQ:
        f = ns[name]
        nparams = f.__code__.co_argcount
        for c in itertools.product(grid, repeat=nparams):
            if nparams >= 2 and abs(c[1] - c[0]) > 10000:
                continue        # CPython would really iterate
            if nparams == 1 and abs(c[0]) > 10000:
                continue
            e = E()
            for nm, v in zip(f.__code__.co_varnames[:nparams], c):
                setattr(e, nm, v)
            n += 1
            if int(expected(name, e)) != int(f(*c)):
                bad += 1
                first = first or (name, c, expected(name, e), f(*c))
    out = [{"kind": "spec-validation", "name": "closed forms of len(range()) / final loop variable / break position vs CPython running the catalogue source",
            "cases": n, "disagree": bad}]
    if bad:
        out.append({"kind": "side-check-failure", "name": "range-spec-validation", "text": repr(first)})
    # witnesses of the recorded findings, replayed on a freshly built catalogue module
    for k in kf_entries:
        if k.get("region_id") != "range_bounds_near_type_limits":
            continue
        u = [x for x in units("quick") if x.uid == "L3loop.r_step3"][0]
        u._param_names()
        try:
            r = u.run_native({"a": 2147483646, "b": 2147483647}, sanitize=(prop == "C36"))
        except Exception as ex:         # pragma: no cover
            r = {"error": repr(ex)}
        if prop == "C36":
            still = r.get("exit", 0) != 0            # trap build: `t += 3` past INT_MAX traps
        else:
            still = r.get("result") is not None and r.get("result") != 1      # CPython: exactly one iteration
        out.append({"kind": "known-finding-witness", "id": k["id"], "text": k["text"], "still_fails": bool(still), "detail": r})
    return out


def _near_limits(e):
    """a bound within a factor 4 of the limits of the loop's C type (the catalogue loops are `int` loops except r_cnt/r_last/
    r_stop, which are `long` loops with step 1 and have no overflowing arithmetic)"""
    lim = 2 ** 29
    conj = []
    for p in ("a", "b"):
        v = e.get(p) if hasattr(e, "get") else getattr(e, p, None)
        if v is not None:
            conj.append(And(v >= -lim, v <= lim))
    return Not(And(*conj))


REGIONS = {"range_bounds_near_type_limits": _near_limits}
