"""Contract for the helper selection of `**` on Python objects (C07): ExprNodes.PowNode.py_operation_function.

__Pyx_PyNumber_PowerOf2 / __Pyx_PyNumber_InPlacePowerOf2 compute `1 << n` (proved in contracts/pow.py to be the int 2**n for
an exact non-negative int n) and IGNORE their base argument.  They are therefore only correct at call sites whose base is
the int constant 2 - not 2.0, not (2+0j), which Python's `==` also equates with 2.  Contract (call-site precondition of the
helper, decided where the helper is chosen):
    the method returns one of the two PowerOf2 helper names  =>  the node's type is a Python object type, operand1's
    constant is an `int` AND equals 2, operand2 may be a Python int; the in-place name exactly for in-place nodes;
    otherwise the base class' choice is returned unchanged.
Constants are abstract values: `== 2` and isinstance(., int) are uninterpreted predicates on them (2.0 == 2 holds in Python,
so equality with 2 alone does not make a value the int 2).
"""
import z3

from dv.spec import And, Or, Not, Implies
from dv.pyunit import PyUnit
from dv.pyfe import Callee, PStr

SERVES = ("C07",)
FILE = "Cython/Compiler/ExprNodes.py"

EQ2 = z3.Function("py_eq_const_2", z3.IntSort(), z3.BoolSort())
IS_INT = z3.Function("isinstance_int", z3.IntSort(), z3.BoolSort())
BASE_CHOICE = z3.Int("ghost.base_class_choice")


def _name(text):
    return tuple(z3.IntVal(ord(c)) for c in text)


def _is(result, text):
    if not isinstance(result, tuple) or len(result) != len(text):
        return False
    return And(*[r == ord(c) for r, c in zip(result, text)])


def _post(e):
    r = e.result
    node = e.self
    op1 = e.h0.fld("operand1", node)
    op2 = e.h0.fld("operand2", node)
    cr = e.h0.fld("constant_result", op1)
    ok_site = And(e.h0.fld("is_pyobject", e.h0.fld("type", node)) != 0, IS_INT(cr), EQ2(cr),
                  e.h0.fld("may_be_pyint_type", e.h0.fld("type", op2)) != 0)
    inplace = e.h0.fld("inplace", node) != 0
    if isinstance(r, tuple):
        if _is(r, "__Pyx_PyNumber_PowerOf2") is not False:
            return And(ok_site, Not(inplace))
        if _is(r, "__Pyx_PyNumber_InPlacePowerOf2") is not False:
            return And(ok_site, inplace)
        return False
    # anything else must be the base class' own choice
    return r == BASE_CHOICE


def _native(model, obname):
    """the real method on stub nodes: a float / complex / bool constant base must never select the PowerOf2 helpers"""
    from dv import cextract
    cextract.ensure_repo_on_path()
    from Cython.Compiler import ExprNodes

    class T:
        is_pyobject = True
        may_be_pyint_type = True

    class Op:
        def __init__(self, cr):
            self.constant_result = cr
            self.type = T()

        def has_constant_result(self):
            return True

    class GS:
        def use_utility_code(self, x):
            pass

    class Code:
        globalstate = GS()
    for base in (2.0, (2 + 0j), True, 3, 2):
        n = ExprNodes.PowNode.__new__(ExprNodes.PowNode)
        n.type, n.operand1, n.operand2, n.inplace = T(), Op(base), Op(5), False
        n.operator = "**"
        try:
            r = ExprNodes.PowNode.py_operation_function(n, Code())
        except Exception as ex:
            r = "exc:" + type(ex).__name__
        chosen = isinstance(r, str) and "PowerOf2" in r
        if chosen != (type(base) is int and base == 2):
            return {"inputs": {"operand1.constant_result": repr(base)}, "actual": repr(r), "expected": "PowerOf2 helper only for the int constant 2",
                    "confirmed": True, "obligation": obname,
                    "how": "Cython.Compiler.ExprNodes.PowNode.py_operation_function from the working tree on a stub node"}
    return {"confirmed": False, "tried": 5}


def units(tier):
    T, N, OP = "obj:Type", "obj:PowNode", "obj:Operand"
    fields = {N: {"type": "ref:" + T, "operand1": "ref:" + OP, "operand2": "ref:" + OP, "inplace": "bool"},
              OP: {"constant_result": "opaque", "type": "ref:" + T},
              T: {"is_pyobject": "bool", "may_be_pyint_type": "bool"},
              "obj:Code": {"globalstate": "ref:obj:GlobalState"}}
    callees = {
        "UtilityCode.load_cached": Callee("UtilityCode.load_cached", ["name", "file"], result_kind="int"),
        "GlobalState.use_utility_code": Callee("GlobalState.use_utility_code", ["self", "code"], result_kind="none"),
        "super": Callee("super", [], result_kind="ref:obj:Super"),
        "Super.py_operation_function": Callee("Super.py_operation_function", ["self", "code"], result_kind="int",
                                              ensures=[("ghost: the base class' choice", lambda e: e.result == BASE_CHOICE)]),
    }
    u = PyUnit("ExprNodes.PowNode.py_operation_function", {"C07": None}, FILE, "PowNode.py_operation_function",
               [("self", "ref:" + N), ("code", "ref:obj:Code")],
               requires=[("bool fields are 0/1", lambda e: z3.BoolVal(True))],
               ensures=[("the PowerOf2 helpers are selected only for the int constant 2 (their call-site precondition); otherwise the base "
                         "class' choice is returned", _post)],
               callees=callees, native=_native, search=lambda seed, ob: _native({}, ob),
               options={"fields": fields, "opaque_eq_uf": True, "merge": False, "pure_query_methods": True})
    return [u]


REGIONS = {}
