"""Contract for optional integer arguments of optimised str / bytes method calls (C13),
Optimize.OptimizeBuiltinCalls._inject_int_default_argument.

`s.startswith(x, start, end)`, `s.find(x, start, end)`, `s.count(...)` ... are compiled to C helpers that take C integers for the bounds.
Python lets a bound be absent or None ("use the default").  This function normalises position `arg_index` of the argument list:
    absent               -> an IntNode holding the default is APPENDED;
    the literal None     -> the default takes ITS PLACE;
    anything else        -> coerced to the C type; if the value comes from a Python object, None at run time maps to the default
                            (`special_none_cvalue`, the TEXT of the default - a non-empty string).
From the statement ("the same result and exception as the original call for every argument value"): afterwards the list has an integer
node at `arg_index`, its length is max(len, arg_index + 1), no other entry changed - a None bound never reaches the helper's position.
Nodes are identities with fields; `str(default).lstrip('+-').isdecimal()` is an uninterpreted predicate of the default.
"""
import z3

from dv.spec import And, Or, Not, Implies, If
from dv.pyunit import PyUnit
from dv.pyfe import Callee, PBool

SERVES = ("C13",)
FILE = "Cython/Compiler/Optimize.py"
FIELDS = {"obj:Node": {"is_none": "bool", "pos": "any", "special_none_cvalue": "any"}}
I = z3.IntSort()
INTNODE = z3.Function("is_default_int_node", I, z3.BoolSort())       # the IntNode built from the default value
COERCED = z3.Function("coerced_to_c_type", I, I)                     # arg.coerce_to(type, env)
STR = z3.Function("builtin_str", I, I)                               # the front end's str() of an abstract value


def _callees():
    return {
        "ExprNodes.IntNode.for_int": Callee("ExprNodes.IntNode.for_int", ["pos", "value"], result_kind="ref:obj:Node",
                                            ensures=[("the default as an int node", lambda e: And(INTNODE(e.result), e.h.fld("is_none", e.result) == 0))]),
        "ExprNodes.IntNode": Callee("ExprNodes.IntNode", ["pos", "value", "type"], result_kind="ref:obj:Node",
                                    ensures=[("the default as an int node", lambda e: And(INTNODE(e.result), e.h.fld("is_none", e.result) == 0))]),
        "Node.coerce_to": Callee("Node.coerce_to", ["self", "dst_type", "env"], result_kind="ref:obj:Node",
                                 ensures=[("the coerced argument", lambda e: And(e.result == COERCED(e.self), e.h.fld("is_none", e.result) == 0))]),
        "Transform.current_env": Callee("Transform.current_env", ["self"], result_kind="int"),
    }


def _post(e):
    n0 = e.h0.len(e.args)
    k = e.arg_index
    old = e.h0.el(e.args, k)
    new = e.h.el(e.args, k)
    j = z3.Int("j!intdefault")
    absent = n0 == k
    none_lit = And(n0 > k, e.h0.fld("is_none", old) != 0)
    return And(e.h.len(e.args) == If(absent, n0 + 1, n0),
               Implies(Or(absent, none_lit), INTNODE(new)),
               Implies(And(n0 > k, Not(none_lit)), new == COERCED(old)),
               e.h.fld("is_none", new) == 0,
               z3.ForAll([j], Implies(And(j >= 0, j < n0, j != k), e.h.el(e.args, j) == e.h0.el(e.args, j))))


def _post_none_value(e):
    """a coerced argument that may hold None at run time maps it to the TEXT of the default"""
    k = e.arg_index
    new = e.h.el(e.args, k)
    was_present = And(e.h0.len(e.args) > k, e.h0.fld("is_none", e.h0.el(e.args, k)) == 0)
    return Implies(And(was_present, z3.Function("isinstance_CoerceFromPyTypeNode", I, z3.BoolSort())(new)),
                   e.h.fld("special_none_cvalue", new) == STR(e.default_value))


def _native(model, obname):
    import os
    import subprocess
    from dv import cextract
    src = ("# cython: language_level=3\n"
           "def sw_none_lit(str s, x): return s.startswith(x, None)\n"
           "def sw_none_both(str s, x): return s.startswith(x, None, None)\n"
           "def sw_var(str s, x, a): return s.startswith(x, a)\n"
           "def find_none(str s, x): return s.find(x, None, None)\n"
           "def bsw_var(bytes s, x, a, b): return s.endswith(x, a, b)\n")
    try:
        ctext, cfile = cextract.compile_pyx(src, name="dvintdefault")
    except Exception as ex:
        return {"confirmed": False, "note": "compile failed: %r" % ex}
    d = os.path.dirname(cfile)
    p = subprocess.run(["clang", "-shared", "-fPIC", "-O0", "-w", "-I" + cextract.PY_INCLUDE, cfile, "-o", os.path.join(d, "dvintdefault.so")],
                       capture_output=True, text=True)
    if p.returncode != 0:
        # valid Cython source whose generated C is rejected by the C compiler (e.g. a helper called with a surplus argument) is itself the failure
        errs = [ln for ln in p.stderr.splitlines() if "error:" in ln][:2]
        return {"inputs": "s.startswith(x, None), s.find(x, None, None), ... on typed str / bytes", "actual": "the generated C does not compile: " + " | ".join(errs)[:300],
                "expected": "a module that builds and answers like CPython", "confirmed": True, "obligation": obname,
                "how": "module compiled by the working-tree compiler, then by clang"}
    code = r'''
import sys; sys.path.insert(0, %r); import dvintdefault as m
def run(f, *a):
    try: return f(*a)
    except Exception as e: return type(e).__name__
bad = [(n, got, want) for n, got, want in (
    ("'abc'.startswith('a', None)", run(m.sw_none_lit, "abc", "a"), "abc".startswith("a", None)),
    ("'abc'.startswith('a', None, None)", run(m.sw_none_both, "abc", "a"), True),
    ("'abc'.startswith('a', a) with a = None", run(m.sw_var, "abc", "a", None), True),
    ("'abc'.startswith('b', a) with a = 1", run(m.sw_var, "abc", "b", 1), True),
    ("'abc'.find('c', None, None)", run(m.find_none, "abc", "c"), 2),
    ("b'abc'.endswith(b'c', None, None) through variables", run(m.bsw_var, b"abc", b"c", None, None), True)) if got != want]
print(bad)
''' % d
    r = subprocess.run(["/venv/bin/python", "-c", code], capture_output=True, text=True, timeout=120)
    out = r.stdout.strip() if r.returncode >= 0 else "crashed with signal %d" % -r.returncode
    return {"inputs": "startswith / find / endswith on typed str / bytes with None bounds (literal and at run time)", "actual": (out or r.stderr[-300:])[:500],
            "expected": "CPython's answers (None = default bound)", "confirmed": out != "[]", "obligation": obname,
            "how": "module compiled by the working-tree compiler; results compared with CPython's"}


def units(tier):
    u = PyUnit("Optimize.OptimizeBuiltinCalls._inject_int_default_argument", {"C13": None}, FILE, "OptimizeBuiltinCalls._inject_int_default_argument",
               [("self", "ref:obj:Transform"), ("node", "ref:obj:Node"), ("args", "ref:list"), ("arg_index", "int"), ("type", "any"), ("default_value", "any")],
               requires=[("the position is inside the list or directly behind it (the function's own assert)", lambda e: And(e.arg_index >= 0, e.h0.len(e.args) >= e.arg_index))],
               ensures=[("an integer node stands at arg_index; the list grows only for an absent argument; nothing else changes", _post),
                        ("a possibly-None run-time value maps None to the text of the default", _post_none_value)],
               callees=_callees(), native=_native, search=lambda seed, ob: _native({}, ob),
               raises={"AssertionError": lambda e: z3.BoolVal(False)},
               options={"fields": FIELDS, "merge": False, "modules": {"ExprNodes": "obj:Class"}, "dynamic_classes": ("obj:Node",),
                        "elem_kind": {"list": "ref:obj:Node"}, "uf_methods": ("lstrip", "isdecimal")})
    return [u]


REGIONS = {}
