"""Contract for the inferred type of an enumerate() counter (C14), FlowControl.ControlFlowAnalysis.mark_forloop_target.

`for i, x in enumerate(seq)` over a builtin container: the compiler records an assignment of a Py_ssize_t constant to the counter
target, which lets type inference make `i` a C Py_ssize_t (a builtin container's length fits).  With a start value -
`enumerate(seq, start)` - the counter is start + k, an arbitrary Python integer: CPython counts without bound (start = 2**63 is fine).
From the statement ("enumerate ... run the same iterations ... leave the loop variable with the same final value"): the Py_ssize_t
marker may be recorded only for the one-argument form.
Subject: the statement that handles `reversed` / `enumerate` (fragment located by source anchors on every run); the marker call
enters by a contract whose PRECONDITION is "enumerate() has exactly one argument"; nodes are identities with fields.
Not covered: the duplicate of this logic in TypeInference.MarkParallelAssignments (used for parallel loops), what type inference
does with the marker, the range() part of the function.
"""
import z3

from dv.spec import And, Or, Not, Implies, If
from dv.pyunit import PyUnit
from dv.pyfe import Callee

SERVES = ("C14",)
FILE = "Cython/Compiler/FlowControl.py"
FIELDS = {"obj:Loop": {"iterator": "ref:obj:Iter", "target": "ref:obj:Node", "pos": "any"},
          "obj:Iter": {"expr_scope": "any", "sequence": "ref:obj:Node"},
          "obj:Node": {"args": "ref:list", "name": "any", "is_name": "bool", "is_sequence_constructor": "bool", "pos": "any", "function": "ref:obj:Node", "self": "any"},
          "obj:Type": {"is_builtin_type": "bool"}}
SEQ0 = z3.Int("sequence")            # the call node `enumerate(...)` / `reversed(...)` at the entry of the fragment


def _callees():
    return {
        "Node.infer_type": Callee("Node.infer_type", ["self", "env"], result_kind="ref:obj:Type"),
        "ExprNodes.IntNode": Callee("ExprNodes.IntNode", ["pos", "value", "type"], result_kind="ref:obj:Node"),
        "Transform.mark_assignment": Callee(
            "Transform.mark_assignment", ["self", "lhs", "rhs", "rhs_scope"], result_kind="none",
            requires=[("a Py_ssize_t counter is recorded only for enumerate() with ONE argument (no start value)",
                       lambda e: e.h0.len(e.h0.fld("args", SEQ0)) == 1)]),
    }


def _native(model, obname):
    import os
    import subprocess
    from dv import cextract
    src = ("# cython: language_level=3\n"
           "def en(list seq, start):\n    r = []\n    i = -99\n    for i, x in enumerate(seq, start):\n        r.append((i, x))\n    return r, i\n")
    try:
        ctext, cfile = cextract.compile_pyx(src, name="dvenumcounter")
    except Exception as ex:
        return {"confirmed": False, "note": "compile failed: %r" % ex}
    d = os.path.dirname(cfile)
    p = subprocess.run(["clang", "-shared", "-fPIC", "-O0", "-w", "-I" + cextract.PY_INCLUDE, cfile, "-o", os.path.join(d, "dvenumcounter.so")],
                       capture_output=True, text=True)
    if p.returncode != 0:
        return {"confirmed": False, "note": "build failed " + p.stderr[-300:]}
    code = r'''
import sys; sys.path.insert(0, %r); import dvenumcounter as m
def ref(seq, start):
    r = []; i = -99
    for i, x in enumerate(seq, start): r.append((i, x))
    return r, i
def run(f, *a):
    try: return f(*a)
    except Exception as e: return type(e).__name__
bad = [(s, run(m.en, q, s), run(ref, q, s)) for q, s in ((["a", "b", "c"], 2**63 - 2), ([], 2**63), (["a"], 2**64 + 3), (["a"], -2**63 - 10), (["a", "b"], 5)) if run(m.en, q, s) != run(ref, q, s)]
print(bad)
''' % d
    r = subprocess.run(["/venv/bin/python", "-c", code], capture_output=True, text=True, timeout=120)
    out = r.stdout.strip() if r.returncode >= 0 else "crashed with signal %d" % -r.returncode
    return {"inputs": "enumerate(typed_list, start) for start = 2**63 - 2, 2**63, 2**64 + 3, -2**63 - 10, 5", "actual": (out or r.stderr[-300:])[:500],
            "expected": "CPython's pairs and final counter", "confirmed": out != "[]", "obligation": obname,
            "how": "module compiled by the working-tree compiler (.py sources); results compared with CPython's"}


def units(tier):
    u = PyUnit("FlowControl.ControlFlowAnalysis.mark_forloop_target[enumerate]", {"C14": None}, FILE, "ControlFlowAnalysis.mark_forloop_target",
               [("self", "ref:obj:Transform"), ("node", "ref:obj:Loop"), ("sequence", "ref:obj:Node"), ("function", "ref:obj:Node"), ("target", "ref:obj:Node"), ("env", "any")],
               requires=[("argument and target lists are lists", lambda e: And(e.h0.len(e.h0.fld("args", e.sequence)) >= 0, e.h0.len(e.h0.fld("args", e.target)) >= 0))],
               ensures=[("(the obligation is the precondition of the marker call)", lambda e: z3.BoolVal(True))],
               callees=_callees(), native=_native, search=lambda seed, ob: _native({}, ob),
               options={"fields": FIELDS, "merge": False, "modules": {"PyrexTypes": "obj:Type", "ExprNodes": "obj:Class"}, "dynamic_classes": (),
                        "elem_kind": {"list": "ref:obj:Node"},
                        "fragment": {"start": r"^if function\.name == 'reversed' and len\(sequence\.args\) == 1:", "end": r"^if function\.name == 'reversed' and len\(sequence\.args\) == 1:"}},
               subject={"fragment": "the `if function.name == 'reversed' ... elif function.name == 'enumerate' ...` statement"})
    return [u]


REGIONS = {}
