"""Contract for the None check of integer indexing on builtin-typed variables (C15 kernel; its memory safety for C36),
Cython/Compiler/ExprNodes.py::IndexNode.analyse_as_pyobject.

For `s[i]` with a C-integer index on a base typed str, bytes, bytearray, list or tuple the compiler calls a C helper that
reads the object's length and items DIRECTLY (PyUnicode_GET_LENGTH, PyBytes_GET_SIZE, ob_item...).  A variable of such a
type may hold None; CPython raises TypeError for None[i].  From the statement ("indexing ... agree with CPython for every
index ... Results, IndexError/TypeError ... must all match") - and because the helper would otherwise read the memory behind
the None object - the base handed to the helper must be None-checked, whatever the `nonecheck` directive says:
    kernel: the index is a C integer (not a unicode character), the base is not a dict, no slicing;
    post:   base type str / bytes / bytearray / list / tuple  =>  the node's base is the None-safe wrapping
            (`as_none_safe_node`) of the original base; the index has been coerced to Py_ssize_t and made simple.
Nodes and types are identities, type predicates are fields, the other methods are contract stubs.  Not covered: the C
helpers selected later (those of lists, tuples, bytes and bytearrays are under contract in contracts/getitem.py), slices,
object indices, buffer / memoryview / C array indexing.
"""
import z3

from dv.spec import And, Or, Not, Implies
from dv.pyunit import PyUnit
from dv.pyfe import Callee, intern_id

SERVES = ("C15", "C36")
FILE = "Cython/Compiler/ExprNodes.py"
I = z3.IntSort()
NONESAFE = z3.Function("as_none_safe_node_result", I, I)
COERCED = z3.Function("index_coerced_to_ssize_t_and_simple", I, I)
TRUTHY = z3.Function("truthy", I, z3.BoolSort())            # truth value of an arbitrary Python object (the front end's predicate)
TYPEFLAGS = ("is_unicode_char", "is_int", "is_pyanydict_type", "is_pybytearray_type", "is_pylist_type", "is_pytuple_type", "is_pystr_type",
             "is_pybytes_type", "is_bytes_or_str_or_bytearray", "signed", "supports_container_type", "is_pyobject")
FIELDS = {"obj:IndexNode": {"base": "ref:obj:Node", "index": "ref:obj:Node", "type": "ref:obj:Type", "is_temp": "int", "pos": "any",
                            "original_index_type": "ref:obj:Type"},
          "obj:Node": {"type": "ref:obj:Type", "is_literal": "bool", "constant_result": "any"},
          "obj:Type": {k: "bool" for k in TYPEFLAGS},
          "obj:Env": {"directives": "ref:dict"}}


def _stub(name, params, kind="none", ensures=None, modifies=None):
    return Callee(name, params, result_kind=kind, ensures=ensures or [], modifies=modifies)


def _callees():
    c = _callee_table()
    c["infer_sequence_item_type"].none_defaults = True      # infer_sequence_item_type(env, seq_node, index_node=None, seq_type=None)
    return c


def _callee_table():
    return {
        "warning": _stub("warning", ["pos", "msg", "level"]),
        "Node.coerce_to_pyobject": _stub("Node.coerce_to_pyobject", ["self", "env"], "ref:obj:Node"),
        # index.coerce_to(Py_ssize_t, env).coerce_to_simple(env): one stub for the chain's first link, identity-tagged by the second
        "Node.coerce_to": _stub("Node.coerce_to", ["self", "dst_type", "env"], "ref:obj:Node",
                                ensures=[("the coerced node has the destination type", lambda e: e.h.fld("type", e.result) == e.dst_type)]),
        "Node.coerce_to_simple": _stub("Node.coerce_to_simple", ["self", "env"], "ref:obj:Node",
                                       ensures=[("a simple node of the same type", lambda e: And(e.result == COERCED(e.self),
                                                                                               e.h.fld("type", e.result) == e.h.fld("type", e.self)))]),
        "Type.create_to_py_utility_code": _stub("Type.create_to_py_utility_code", ["self", "env"]),
        "Node.as_none_safe_node": _stub("Node.as_none_safe_node", ["self", "message"], "ref:obj:Node",
                                        ensures=[("the None-safe wrapping of this node", lambda e: e.result == NONESAFE(e.self))]),
        "Node.has_constant_result": _stub("Node.has_constant_result", ["self"], "bool"),
        "infer_sequence_item_type": Callee("infer_sequence_item_type", ["env", "seq_node", "index_node", "seq_type"],
                                           result_kind=lambda ex, e: __import__("dv.pyfe", fromlist=["POpt"]).POpt(
                                               z3.Int("ghost.item_type") == -1, __import__("dv.pyfe", fromlist=["PRef"]).PRef("obj:Type", z3.Int("ghost.item_type")))),
        "IndexNode.wrap_in_nonecheck_node": _stub("IndexNode.wrap_in_nonecheck_node", ["self", "env", "getting"]),
        "Type.infer_indexed_type": _stub("Type.infer_indexed_type", ["self", "index"], "ref:obj:Type"),
        "IndexNode.coerce_to": _stub("IndexNode.coerce_to", ["self", "dst_type", "env"], "ref:obj:IndexNode",
                                     ensures=[("coercing the finished node does not touch its base", lambda e: z3.BoolVal(True))]),
    }


def _post(e):
    bt = e.h0.fld("type", e.h0.fld("base", e.self))
    flag = lambda k: e.h0.fld(k, bt) != 0      # noqa: E731
    direct = Or(flag("is_pystr_type"), flag("is_pybytes_type"), flag("is_pybytearray_type"), flag("is_pylist_type"), flag("is_pytuple_type"))
    base0 = e.h0.fld("base", e.self)
    # is_temp == 0 selects the UNCHECKED macro access (PyList_GET_ITEM, PyTuple_GET_ITEM, PyByteArray_AS_STRING(b)[i]): only
    # under boundscheck=False (the statement speaks of the default directives: out-of-range indices raise IndexError)
    bounds_on = e.h0.val(e.h0.fld("directives", e.env), intern_id("boundscheck")) != 0       # (directive values are cells: truthy = non-zero)
    return And(Implies(direct, e.h.fld("base", e.self) == NONESAFE(base0)),
               Implies(e.h.fld("is_temp", e.self) == 0, Not(bounds_on)))


def _native(model, obname):
    import os
    import subprocess
    from dv import cextract
    src = ("# cython: language_level=3\n"
           "def str_get(str s, Py_ssize_t i): return s[i]\ndef bytes_get(bytes s, int i): return s[i]\n"
           "def bytearray_get(bytearray s, int i): return s[i]\ndef bytearray_set(bytearray s, int i, v): s[i] = v\n"
           "def list_get(list s, int i): return s[i]\ndef tuple_get(tuple s, int i): return s[i]\n"
           "def ba_unsigned(bytearray b, unsigned int i): return b[i]\ndef ba_literal(bytearray b): return b[3]\n")
    try:
        ctext, cfile = cextract.compile_pyx(src, name="dvnoneindex")
    except Exception as ex:
        return {"confirmed": False, "note": "compile failed: %r" % ex}
    d = os.path.dirname(cfile)
    p = subprocess.run(["clang", "-shared", "-fPIC", "-O0", "-w", "-DNDEBUG", "-I" + cextract.PY_INCLUDE, cfile, "-o", os.path.join(d, "dvnoneindex.so")],
                       capture_output=True, text=True)
    if p.returncode != 0:
        return {"confirmed": False, "note": "build failed " + p.stderr[-300:]}
    code = r'''
import sys; sys.path.insert(0, %r); import dvnoneindex as m
bad = []
for name, args in (("str_get", (None, 0)), ("str_get", (None, -1)), ("bytes_get", (None, 0)), ("bytearray_get", (None, 0)), ("bytearray_set", (None, 0, 65)),
                   ("list_get", (None, 0)), ("tuple_get", (None, 0))):
    try: r = getattr(m, name)(*args); bad.append((name, "returned", repr(r)))
    except TypeError: pass
    except Exception as e: bad.append((name, type(e).__name__))
# an out-of-range index must raise IndexError under the default directives (index == len of a bytearray: reads the NUL, memory-safe)
for name, args in (("ba_unsigned", (bytearray(b"ABC"), 3)), ("ba_unsigned", (bytearray(b""), 0)), ("ba_literal", (bytearray(b"ABC"),))):
    try: r = getattr(m, name)(*args); bad.append((name, "returned", repr(r)))
    except IndexError: pass
    except Exception as e: bad.append((name, type(e).__name__))
print(bad)
''' % d
    r = subprocess.run(["/venv/bin/python", "-c", code], capture_output=True, text=True, timeout=120)
    out = r.stdout.strip() if r.returncode >= 0 else "crashed with signal %d" % -r.returncode
    return {"inputs": "None as the base of s[i] / s[i] = v on str-, bytes-, bytearray-, list- and tuple-typed variables with a C index",
            "actual": (out or r.stderr[-300:])[:400], "expected": "TypeError ('NoneType' object is not subscriptable) for every call",
            "confirmed": out != "[]", "obligation": obname, "how": "module compiled by the working-tree compiler; calls made natively"}


def units(tier):
    def kernel(e):
        it = e.h0.fld("type", e.h0.fld("index", e.self))
        bt = e.h0.fld("type", e.h0.fld("base", e.self))
        return And(e.h0.fld("is_unicode_char", it) == 0, e.h0.fld("is_int", it) != 0, e.h0.fld("is_pyanydict_type", bt) == 0, Not(e.is_slice))
    u = PyUnit("ExprNodes.IndexNode.analyse_as_pyobject[int index]", {"C15": None, "C36": ["post", "subset"]}, FILE, "IndexNode.analyse_as_pyobject",
               [("self", "ref:obj:IndexNode"), ("env", "ref:obj:Env"), ("is_slice", "bool"), ("getting", "bool"), ("setting", "bool")],
               requires=[("kernel: a C-integer index (not a unicode character) on a non-dict base, no slicing", kernel),
                         ("PyrexTypes.c_py_ssize_t_type is a C integer type", lambda e: e.h0.fld("is_int", intern_id("PyrexTypes.c_py_ssize_t_type")) != 0),
                         ("the directives dict has the boundscheck / wraparound entries (Options.directive_defaults)",
                          lambda e: And(e.h0.has(e.h0.fld("directives", e.env), intern_id("boundscheck")),
                                        e.h0.has(e.h0.fld("directives", e.env), intern_id("wraparound"))))],
               ensures=[("a base typed str / bytes / bytearray / list / tuple is None-checked before the direct C helper sees it", _post)],
               callees=_callees(), native=_native, search=lambda seed, ob: _native({}, ob),
               options={"fields": FIELDS, "merge": False, "modules": {"PyrexTypes": "obj:Type"}, "dict_val_kind": "any",
                        "opaque_names": ("IntNode", "py_object_type"), "dynamic_classes": ("obj:Node",), "identity_methods": ()})
    return [u]


REGIONS = {}
