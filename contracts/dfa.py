"""Contracts for the epsilon closure of the scanner generator (C50 kernel), Cython/Plex/DFA.py:
    add_to_epsilon_closure(state_set, state)   (recursive; called by its own contract)
    epsilon_closure(state)                     (memoised in state.epsilon_closure)

From the statement ("the generated DFA accepts what the NFA accepts"): the subset construction is only correct when every
DFA state is the FULL epsilon closure of its NFA states.  Model: nodes are object identities; the epsilon successors of a
node x are the members of the set  EPS(x) = get_epsilon(x.transitions)  (None: no epsilon move); REACH is the ghost relation
"reachable by epsilon moves" about which only its closure rules are assumed (reflexive, one more step, transitive) - every
clause uses REACH positively, so what is proved for every relation with these rules holds for the least one, real reachability.

    add_to_epsilon_closure: the set only grows, afterwards contains `state`, every node ADDED by the call has all its epsilon
        successors in the final set, and every added node is reachable from `state`; nothing but `state_set` is written.
    epsilon_closure: with INV "every memoised closure is complete" (a cache is None, or contains its node, is closed under epsilon
        moves and holds only reachable nodes): the returned set is complete, INV is re-established.
INV is a PRECONDITION of epsilon_closure: while a closure is being computed the node's memo is an incomplete set, so code that
consults epsilon_closure() of other nodes in the middle of add_to_epsilon_closure cannot establish it (seed C50-c).
Termination of the recursion (the set grows inside a finite node universe) is NOT proved.
"""
import z3

from dv.spec import And, Or, Not, Implies
from dv.pyunit import PyUnit, load_source_module
from dv.pyfe import Callee, POpt, PRef, NONE_ADDR, Heap

SERVES = ("C50",)
FILE = "Cython/Plex/DFA.py"
I = z3.IntSort()
EPSSET = z3.Function("get_epsilon_of_transition_map", I, I)        # TransitionMap object -> its epsilon target set (NONE_ADDR: none)
REACH = z3.Function("epsilon_reachable", I, I, z3.BoolSort())
FIELDS = {"obj:Node": {"transitions": "ref:obj:TransitionMap", "epsilon_closure": "opt:set"}, "obj:TransitionMap": {}}


def eps(h, x):
    return EPSSET(h.fld("transitions", x))


def succ(h, x, y):
    """y is an epsilon successor of x"""
    return And(eps(h, x) != NONE_ADDR, h.mem(eps(h, x), y))


def reach_rules(h):
    x, y, z = z3.Ints("x!r y!r z!r")
    return And(z3.ForAll([x], REACH(x, x)),
               z3.ForAll([x, y, z], Implies(And(REACH(x, y), succ(h, y, z)), REACH(x, z))),
               z3.ForAll([x, y, z], Implies(And(REACH(x, y), REACH(y, z)), REACH(x, z))))


def grown(h0, h, s, state):
    """the four clauses of add_to_epsilon_closure, between heaps h0 and h, for the set object s"""
    x, y = z3.Ints("x!g y!g")
    old, new = h0.memset(s), h.memset(s)
    added = lambda v: And(z3.Select(new, v), Not(z3.Select(old, v)))      # noqa: E731
    return [("the set only grows", z3.ForAll([x], Implies(z3.Select(old, x), z3.Select(new, x)))),
            ("the state is in the set", z3.Select(new, state)),
            ("every added node has all its epsilon successors in the set", z3.ForAll([x, y], Implies(And(added(x), succ(h0, x, y)), z3.Select(new, y)))),
            ("every added node is reachable from the state", z3.ForAll([x], Implies(added(x), REACH(state, x))))]


def no_alias(h, s):
    """the set being filled is not the epsilon target set of any transition map"""
    x = z3.Int("x!na")
    return z3.ForAll([x], EPSSET(x) != s)


def complete(h, c, n):
    """c is the complete epsilon closure of node n"""
    x, y = z3.Ints("x!c y!c")
    return And(h.mem(c, n), z3.ForAll([x, y], Implies(And(h.mem(c, x), succ(h, x, y)), h.mem(c, y))),
               z3.ForAll([x], Implies(h.mem(c, x), REACH(n, x))))


def inv(h):
    n = z3.Int("n!inv")
    c = h.fld("epsilon_closure", n)
    return z3.ForAll([n], Or(c == NONE_ADDR, And(complete(h, c, n), no_alias(h, c))))


def _get_epsilon():
    return Callee("TransitionMap.get_epsilon", ["self"], result_kind=lambda ex, e: POpt(EPSSET(e.self) == NONE_ADDR, PRef("set", EPSSET(e.self))))


def _add_callee():
    return Callee("add_to_epsilon_closure", ["state_set", "state"], result_kind="none",
                  requires=[("the set being filled is no transition map's epsilon set", lambda e: no_alias(e.h0, e.state_set))],
                  modifies=lambda e: [("set", e.state_set)],
                  ensures=[(t, (lambda k: lambda e: grown(e.h0, e.h, e.state_set, e.state)[k][1])(k)) for k, (t, _) in
                           enumerate(grown_labels())])


def grown_labels():
    return [("the set only grows", None), ("the state is in the set", None), ("every added node has all its epsilon successors in the set", None),
            ("every added node is reachable from the state", None)]


def allocated(h, alloc):
    """epsilon target sets and memoised closures are allocated objects (a new set is none of them)"""
    x = z3.Int("x!a")
    return z3.ForAll([x], And(EPSSET(x) < alloc, h.fld("epsilon_closure", x) < alloc))


def closure_frame(h0, h, alloc0, alloc, state, res):
    """what epsilon_closure leaves alone: [(label, formula)]; proved as postconditions of the real function, assumed at its call sites"""
    a, n = z3.Ints("a!cf n!cf")
    memo0, memo = (lambda v: h0.fld("epsilon_closure", v)), (lambda v: h.fld("epsilon_closure", v))      # noqa: E731
    return [("existing sets are unchanged", z3.ForAll([a], Implies(a < alloc0, h.memset(a) == h0.memset(a)))),
            ("the result is the state's old memo or a new set", Or(And(res == memo0(state), res != NONE_ADDR), res >= alloc0)),
            ("only the state's memo may change, to a new set", z3.ForAll([n], Or(memo(n) == memo0(n), And(n == state, memo(n) >= alloc0)))),
            ("memoised closures are allocated objects", And(alloc >= alloc0, z3.ForAll([n], memo(n) < alloc)))]


def _closure_callee():
    return Callee("epsilon_closure", ["state"], result_kind="ref:set",
                  requires=[("INV: every memoised epsilon closure is complete", lambda e: inv(e.h0)),
                            ("epsilon target sets and memoised closures are allocated objects", lambda e: allocated(e.h0, e.h0.alloc))],
                  modifies=lambda e: [("fld", "epsilon_closure", e.state), ("all-sets",), ("alloc",)],
                  ensures=[("the complete closure of the state", lambda e: complete(e.h, e.result, e.state)),
                           ("INV is re-established", lambda e: inv(e.h))] +
                          [(t, (lambda k: lambda e: closure_frame(e.h0, e.h, e.h0.alloc, e.h.alloc, e.state, e.result)[k][1])(k)) for k, t in
                           enumerate(["existing sets are unchanged", "the result is the state's old memo or a new set",
                                      "only the state's memo may change, to a new set", "memoised closures are allocated objects"])])


def _new_set(vs):
    """the set the function builds: THE local that holds the first object allocated by the function (whatever it is called)"""
    from dv.core import StaleContract
    first = z3.Int("H0.alloc")
    hits = [v.addr for v in vs.values() if getattr(v, "cls", None) == "set" and z3.is_expr(getattr(v, "addr", None)) and z3.eq(v.addr, first)]
    if not hits:
        raise StaleContract("set_epsilon_closure: no local holds the set allocated first")
    return hits[0]


class _Union:
    """set_epsilon_closure: outer loop over the given states, inner loop over one state's closure"""

    class Outer:
        modifies_heap = ["set.mem", "fld.epsilon_closure", "alloc"]

        def holds(self, ex, st, st0):
            h, h0 = st.heap, Heap()
            s = st0.vars["state_set"].addr
            R = _new_set(st0.vars)
            seen = st.vars["$seen0"].t
            x, y, m = z3.Ints("x!o y!o m!o")
            cur = h.memset(R)
            return [("every state visited so far is in the result", z3.ForAll([x], Implies(z3.Select(seen, x), z3.Select(cur, x)))),
                    ("the result is closed under epsilon moves", z3.ForAll([x, y], Implies(And(z3.Select(cur, x), succ(h, x, y)), z3.Select(cur, y)))),
                    ("every member of the result is reachable from a given state",
                     z3.ForAll([y], Implies(z3.Select(cur, y), z3.Exists([m], And(h0.mem(s, m), REACH(m, y)))))),
                    ("INV", inv(h)),
                    ("allocated", And(allocated(h, h.alloc), R < h.alloc, s < R, h.alloc >= st0.heap.alloc)),
                    ("the result set is neither a memo nor an epsilon target set",
                     z3.ForAll([x], And(h.fld("epsilon_closure", x) != R, EPSSET(x) != R))),
                    ("sets that existed at entry are unchanged", z3.ForAll([x], Implies(x < R, h.memset(x) == h0.memset(x))))]

    class Inner:
        modifies_heap = ["set.mem"]

        def holds(self, ex, st, st0):
            h = st.heap
            R = _new_set(st0.vars)
            seen = st.vars["$seen1"].t
            x = z3.Int("x!i")
            return [("the result is what it was plus the members visited", z3.ForAll([x], z3.Select(h.memset(R), x) == Or(z3.Select(st0.heap.memset(R), x), z3.Select(seen, x)))),
                    ("only the result set is written", z3.ForAll([x], Implies(x != R, h.memset(x) == st0.heap.memset(x))))]


class _SuccLoop:
    """for state2 in state_set_2: add_to_epsilon_closure(state_set, state2)"""
    modifies_heap = ["set.mem"]

    def holds(self, ex, st, st0):
        h, h0 = st.heap, Heap()           # h0: the heap at FUNCTION entry (st0 is the loop entry, after state_set.add(state))
        s = st0.vars["state_set"].addr
        state = st0.vars["state"].addr
        seen = st.vars["$seen0"].t
        x, y = z3.Ints("x!l y!l")
        old, cur = h0.memset(s), h.memset(s)
        added = lambda v: And(z3.Select(cur, v), Not(z3.Select(old, v)))      # noqa: E731
        return [("everything that was in the set, and the state, are in the set", z3.ForAll([x], Implies(Or(z3.Select(old, x), x == state), z3.Select(cur, x)))),
                ("the successors visited so far are in the set", z3.ForAll([x], Implies(z3.Select(seen, x), z3.Select(cur, x)))),
                ("every added node other than the state has all its epsilon successors in the set",
                 z3.ForAll([x, y], Implies(And(added(x), x != state, succ(h0, x, y)), z3.Select(cur, y)))),
                ("every added node is reachable from the state", z3.ForAll([x], Implies(added(x), REACH(state, x)))),
                ("only the set being filled is written", z3.ForAll([x], Implies(x != s, h.memset(x) == h0.memset(x))))]


def _native(model, obname):
    """random epsilon graphs (with cycles and shared tails) on the real Node class: epsilon_closure against a work-list closure"""
    import random
    dfa = load_source_module(FILE, "dvsubject_DFA")
    machines = load_source_module("Cython/Plex/Machines.py", "dvsubject_Machines")
    rnd = random.Random(7)
    for trial in range(300):
        n = rnd.randint(1, 7)
        nodes = [machines.Node() for _ in range(n)]
        edges = set()
        for _ in range(rnd.randint(0, 2 * n)):
            a, b = rnd.randrange(n), rnd.randrange(n)
            edges.add((a, b))
            nodes[a].link_to(nodes[b])
        order = list(range(n))
        rnd.shuffle(order)
        for k in order:
            got = {nodes.index(x) for x in dfa.epsilon_closure(nodes[k])}
            want, todo = {k}, [k]
            while todo:
                a = todo.pop()
                for (p, q) in edges:
                    if p == a and q not in want:
                        want.add(q)
                        todo.append(q)
            if got != want:
                return {"inputs": {"nodes": n, "epsilon_moves": sorted(edges), "closures_computed_in_order": order, "node": k},
                        "actual": sorted(got), "expected": sorted(want), "confirmed": True, "obligation": obname,
                        "how": "Plex/DFA.py and Machines.py loaded from source; epsilon_closure() on real Node objects against a work-list closure"}
    return {"confirmed": False, "tried": 300}


def _res(e):
    """(is a set, its address) of the returned value (the memo is read as an optional reference)"""
    r = e.result
    if isinstance(r, POpt):
        return Not(r.is_none), r.ref.addr
    if r is None:
        return z3.BoolVal(False), z3.IntVal(NONE_ADDR)
    return z3.BoolVal(True), r


def units(tier):
    common ={"fields": FIELDS, "merge": False, "set_elem_kind": "ref:obj:Node"}
    add = PyUnit("DFA.add_to_epsilon_closure", {"C50": None}, FILE, "add_to_epsilon_closure",
                 [("state_set", "ref:set"), ("state", "ref:obj:Node")],
                 requires=[("REACH obeys the rules of reachability by epsilon moves", lambda e: reach_rules(e.h0)),
                           ("the set being filled is no transition map's epsilon set", lambda e: no_alias(e.h0, e.state_set))],
                 ensures=[(t, (lambda k: lambda e: grown(e.h0, e.h, e.state_set, e.state)[k][1])(k)) for k, (t, _) in enumerate(grown_labels())] +
                         [("nothing but the set being filled is written",
                           lambda e: And(z3.ForAll([z3.Int("x!f")], Implies(z3.Int("x!f") != e.state_set, e.h.memset(z3.Int("x!f")) == e.h0.memset(z3.Int("x!f")))),
                                         e.h.get("fld.epsilon_closure") == e.h0.get("fld.epsilon_closure")))],
                 callees={"TransitionMap.get_epsilon": _get_epsilon(), "add_to_epsilon_closure": _add_callee(), "epsilon_closure": _closure_callee()},
                 native=_native, search=lambda seed, ob: _native({}, ob),
                 options=dict(common, invariants={0: _SuccLoop()}))
    clo = PyUnit("DFA.epsilon_closure", {"C50": None}, FILE, "epsilon_closure", [("state", "ref:obj:Node")],
                 requires=[("REACH obeys the rules of reachability by epsilon moves", lambda e: reach_rules(e.h0)),
                           ("INV: every memoised epsilon closure is complete", lambda e: inv(e.h0)),
                           ("epsilon target sets and memoised closures are allocated objects (a new set is none of them)",
                            lambda e: allocated(e.h0, z3.Int("H0.alloc")))],
                 ensures=[("the result is the complete epsilon closure of the state", lambda e: And(_res(e)[0], complete(e.h, _res(e)[1], e.state))),
                          ("INV is re-established", lambda e: inv(e.h))] +
                         [(t, (lambda k: lambda e: closure_frame(e.h0, e.h, z3.Int("H0.alloc"), _alloc(e), e.state, _res(e)[1])[k][1])(k)) for k, t in
                          enumerate(["existing sets are unchanged", "the result is the state's old memo or a new set",
                                     "only the state's memo may change, to a new set", "memoised closures are allocated objects"])],
                 callees={"add_to_epsilon_closure": _add_callee()},
                 native=_native, search=lambda seed, ob: _native({}, ob), options=dict(common))
    x, y, m = z3.Ints("x!u y!u m!u")
    uni = PyUnit("DFA.set_epsilon_closure", {"C50": None}, FILE, "set_epsilon_closure", [("state_set", "ref:set")],
                 requires=[("REACH obeys the rules of reachability by epsilon moves", lambda e: reach_rules(e.h0)),
                           ("INV: every memoised epsilon closure is complete", lambda e: inv(e.h0)),
                           ("epsilon target sets and memoised closures are allocated objects (a new set is none of them)",
                            lambda e: allocated(e.h0, z3.Int("H0.alloc")))],
                 ensures=[("every given state is in the result", lambda e: z3.ForAll([x], Implies(e.h0.mem(e.state_set, x), e.h.mem(e.result, x)))),
                          ("the result is closed under epsilon moves", lambda e: z3.ForAll([x, y], Implies(And(e.h.mem(e.result, x), succ(e.h, x, y)), e.h.mem(e.result, y)))),
                          ("every member of the result is reachable from a given state",
                           lambda e: z3.ForAll([y], Implies(e.h.mem(e.result, y), z3.Exists([m], And(e.h0.mem(e.state_set, m), REACH(m, y)))))),
                          ("the result is a new set; the given set is unchanged", lambda e: And(e.result >= z3.Int("H0.alloc"), e.h.memset(e.state_set) == e.h0.memset(e.state_set))),
                          ("INV is re-established", lambda e: inv(e.h))],
                 callees={"epsilon_closure": _closure_callee()},
                 native=_native_union, search=lambda seed, ob: _native_union({}, ob),
                 options=dict(common, invariants={0: _Union.Outer(), 1: _Union.Inner()}))
    return [add, clo, uni]


def _alloc(e):
    a = e.h.alloc
    return a if a is not None else z3.Int("H0.alloc")


def _native_union(model, obname):
    """set_epsilon_closure on random graphs: the union of the closures of the given states"""
    import random
    dfa = load_source_module(FILE, "dvsubject_DFA")
    machines = load_source_module("Cython/Plex/Machines.py", "dvsubject_Machines")
    rnd = random.Random(11)
    for trial in range(300):
        n = rnd.randint(1, 7)
        nodes = [machines.Node() for _ in range(n)]
        edges = set()
        for _ in range(rnd.randint(0, 2 * n)):
            a, b = rnd.randrange(n), rnd.randrange(n)
            edges.add((a, b))
            nodes[a].link_to(nodes[b])
        given = set(rnd.sample(range(n), rnd.randint(0, n)))
        got = {nodes.index(v) for v in dfa.set_epsilon_closure({nodes[k] for k in given})}
        want, todo = set(given), list(given)
        while todo:
            a = todo.pop()
            for (p, q) in edges:
                if p == a and q not in want:
                    want.add(q)
                    todo.append(q)
        if got != want:
            return {"inputs": {"nodes": n, "epsilon_moves": sorted(edges), "given": sorted(given)}, "actual": sorted(got), "expected": sorted(want),
                    "confirmed": True, "obligation": obname,
                    "how": "Plex/DFA.py and Machines.py loaded from source; set_epsilon_closure() on real Node objects against a work-list closure"}
    return {"confirmed": False, "tried": 300}


REGIONS = {}
