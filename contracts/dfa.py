"""Contracts for the epsilon closure of the scanner generator (C50 kernel), Cython/Plex/DFA.py:
    add_to_epsilon_closure(state_set, state)   (recursive; called by its own contract)
    epsilon_closure(state)                     (memoised in state.epsilon_closure)

From the statement ("the generated DFA accepts what the NFA accepts"): the subset construction is only correct when every
DFA state is the FULL epsilon closure of its NFA states.  Model: nodes are object identities; the epsilon successors of a
node x are the members of the set  EPS(x) = get_epsilon(x.transitions)  (None: no epsilon move); REACH is the ghost relation
"reachable by epsilon moves" about which only its closure rules are assumed (reflexive, one more step, transitive) - every
clause uses REACH positively, so what is proved for every relation with these rules holds for the least one, real reachability.

    add_to_epsilon_closure: the set only grows, afterwards contains `state`, every node ADDED by the call has all its epsilon
        successors in the final set, and every added node is reachable from `state`; nothing but `state_set` is written.
    epsilon_closure: with INV "every memoised closure is complete" (a cache is None, or contains its node, is closed under epsilon
        moves and holds only reachable nodes): the returned set is complete, INV is re-established.
INV is a PRECONDITION of epsilon_closure: while a closure is being computed the node's memo is an incomplete set, so code that
consults epsilon_closure() of other nodes in the middle of add_to_epsilon_closure cannot establish it (seed C50-c).
Termination of the recursion (the set grows inside a finite node universe) is NOT proved.
"""
import z3

from dv.spec import And, Or, Not, Implies
from dv.pyunit import PyUnit, load_source_module
from dv.pyfe import Callee, POpt, PRef, NONE_ADDR, Heap

SERVES = ("C50",)
FILE = "Cython/Plex/DFA.py"
I = z3.IntSort()
EPSSET = z3.Function("get_epsilon_of_transition_map", I, I)        # TransitionMap object -> its epsilon target set (NONE_ADDR: none)
REACH = z3.Function("epsilon_reachable", I, I, z3.BoolSort())
FIELDS = {"obj:Node": {"transitions": "ref:obj:TransitionMap", "epsilon_closure": "opt:set"}, "obj:TransitionMap": {}}


def eps(h, x):
    return EPSSET(h.fld("transitions", x))


def succ(h, x, y):
    """y is an epsilon successor of x"""
    return And(eps(h, x) != NONE_ADDR, h.mem(eps(h, x), y))


def reach_rules(h):
    x, y, z = z3.Ints("x!r y!r z!r")
    return And(z3.ForAll([x], REACH(x, x)),
               z3.ForAll([x, y, z], Implies(And(REACH(x, y), succ(h, y, z)), REACH(x, z))),
               z3.ForAll([x, y, z], Implies(And(REACH(x, y), REACH(y, z)), REACH(x, z))))


def grown(h0, h, s, state):
    """the four clauses of add_to_epsilon_closure, between heaps h0 and h, for the set object s"""
    x, y = z3.Ints("x!g y!g")
    old, new = h0.memset(s), h.memset(s)
    added = lambda v: And(z3.Select(new, v), Not(z3.Select(old, v)))      # noqa: E731
    return [("the set only grows", z3.ForAll([x], Implies(z3.Select(old, x), z3.Select(new, x)))),
            ("the state is in the set", z3.Select(new, state)),
            ("every added node has all its epsilon successors in the set", z3.ForAll([x, y], Implies(And(added(x), succ(h0, x, y)), z3.Select(new, y)))),
            ("every added node is reachable from the state", z3.ForAll([x], Implies(added(x), REACH(state, x))))]


def no_alias(h, s):
    """the set being filled is not the epsilon target set of any transition map"""
    x = z3.Int("x!na")
    return z3.ForAll([x], EPSSET(x) != s)


def complete(h, c, n):
    """c is the complete epsilon closure of node n"""
    x, y = z3.Ints("x!c y!c")
    return And(h.mem(c, n), z3.ForAll([x, y], Implies(And(h.mem(c, x), succ(h, x, y)), h.mem(c, y))),
               z3.ForAll([x], Implies(h.mem(c, x), REACH(n, x))))


def inv(h):
    n = z3.Int("n!inv")
    c = h.fld("epsilon_closure", n)
    return z3.ForAll([n], Or(c == NONE_ADDR, And(complete(h, c, n), no_alias(h, c))))


def _get_epsilon():
    return Callee("TransitionMap.get_epsilon", ["self"], result_kind=lambda ex, e: POpt(EPSSET(e.self) == NONE_ADDR, PRef("set", EPSSET(e.self))))


def _add_callee():
    return Callee("add_to_epsilon_closure", ["state_set", "state"], result_kind="none",
                  requires=[("the set being filled is no transition map's epsilon set", lambda e: no_alias(e.h0, e.state_set))],
                  modifies=lambda e: [("set", e.state_set)],
                  ensures=[(t, (lambda k: lambda e: grown(e.h0, e.h, e.state_set, e.state)[k][1])(k)) for k, (t, _) in
                           enumerate(grown_labels())])


def grown_labels():
    return [("the set only grows", None), ("the state is in the set", None), ("every added node has all its epsilon successors in the set", None),
            ("every added node is reachable from the state", None)]


def _closure_callee():
    return Callee("epsilon_closure", ["state"], result_kind="ref:set",
                  requires=[("INV: every memoised epsilon closure is complete", lambda e: inv(e.h0))],
                  modifies=lambda e: [("fld", "epsilon_closure", e.state), ("all-sets",), ("alloc",)],
                  ensures=[("the complete closure of the state", lambda e: complete(e.h, e.result, e.state))])


class _SuccLoop:
    """for state2 in state_set_2: add_to_epsilon_closure(state_set, state2)"""
    modifies_heap = ["set.mem"]

    def holds(self, ex, st, st0):
        h, h0 = st.heap, Heap()           # h0: the heap at FUNCTION entry (st0 is the loop entry, after state_set.add(state))
        s = st0.vars["state_set"].addr
        state = st0.vars["state"].addr
        seen = st.vars["$seen0"].t
        x, y = z3.Ints("x!l y!l")
        old, cur = h0.memset(s), h.memset(s)
        added = lambda v: And(z3.Select(cur, v), Not(z3.Select(old, v)))      # noqa: E731
        return [("everything that was in the set, and the state, are in the set", z3.ForAll([x], Implies(Or(z3.Select(old, x), x == state), z3.Select(cur, x)))),
                ("the successors visited so far are in the set", z3.ForAll([x], Implies(z3.Select(seen, x), z3.Select(cur, x)))),
                ("every added node other than the state has all its epsilon successors in the set",
                 z3.ForAll([x, y], Implies(And(added(x), x != state, succ(h0, x, y)), z3.Select(cur, y)))),
                ("every added node is reachable from the state", z3.ForAll([x], Implies(added(x), REACH(state, x)))),
                ("only the set being filled is written", z3.ForAll([x], Implies(x != s, h.memset(x) == h0.memset(x))))]


def _native(model, obname):
    """random epsilon graphs (with cycles and shared tails) on the real Node class: epsilon_closure against a work-list closure"""
    import random
    dfa = load_source_module(FILE, "dvsubject_DFA")
    machines = load_source_module("Cython/Plex/Machines.py", "dvsubject_Machines")
    rnd = random.Random(7)
    for trial in range(300):
        n = rnd.randint(1, 7)
        nodes = [machines.Node() for _ in range(n)]
        edges = set()
        for _ in range(rnd.randint(0, 2 * n)):
            a, b = rnd.randrange(n), rnd.randrange(n)
            edges.add((a, b))
            nodes[a].link_to(nodes[b])
        order = list(range(n))
        rnd.shuffle(order)
        for k in order:
            got = {nodes.index(x) for x in dfa.epsilon_closure(nodes[k])}
            want, todo = {k}, [k]
            while todo:
                a = todo.pop()
                for (p, q) in edges:
                    if p == a and q not in want:
                        want.add(q)
                        todo.append(q)
            if got != want:
                return {"inputs": {"nodes": n, "epsilon_moves": sorted(edges), "closures_computed_in_order": order, "node": k},
                        "actual": sorted(got), "expected": sorted(want), "confirmed": True, "obligation": obname,
                        "how": "Plex/DFA.py and Machines.py loaded from source; epsilon_closure() on real Node objects against a work-list closure"}
    return {"confirmed": False, "tried": 300}


def _res(e):
    """(is a set, its address) of the returned value (the memo is read as an optional reference)"""
    r = e.result
    if isinstance(r, POpt):
        return Not(r.is_none), r.ref.addr
    if r is None:
        return z3.BoolVal(False), z3.IntVal(NONE_ADDR)
    return z3.BoolVal(True), r


def units(tier):
    common ={"fields": FIELDS, "merge": False, "set_elem_kind": "ref:obj:Node"}
    add = PyUnit("DFA.add_to_epsilon_closure", {"C50": None}, FILE, "add_to_epsilon_closure",
                 [("state_set", "ref:set"), ("state", "ref:obj:Node")],
                 requires=[("REACH obeys the rules of reachability by epsilon moves", lambda e: reach_rules(e.h0)),
                           ("the set being filled is no transition map's epsilon set", lambda e: no_alias(e.h0, e.state_set))],
                 ensures=[(t, (lambda k: lambda e: grown(e.h0, e.h, e.state_set, e.state)[k][1])(k)) for k, (t, _) in enumerate(grown_labels())] +
                         [("nothing but the set being filled is written",
                           lambda e: And(z3.ForAll([z3.Int("x!f")], Implies(z3.Int("x!f") != e.state_set, e.h.memset(z3.Int("x!f")) == e.h0.memset(z3.Int("x!f")))),
                                         e.h.get("fld.epsilon_closure") == e.h0.get("fld.epsilon_closure")))],
                 callees={"TransitionMap.get_epsilon": _get_epsilon(), "add_to_epsilon_closure": _add_callee(), "epsilon_closure": _closure_callee()},
                 native=_native, search=lambda seed, ob: _native({}, ob),
                 options=dict(common, invariants={0: _SuccLoop()}))
    clo = PyUnit("DFA.epsilon_closure", {"C50": None}, FILE, "epsilon_closure", [("state", "ref:obj:Node")],
                 requires=[("REACH obeys the rules of reachability by epsilon moves", lambda e: reach_rules(e.h0)),
                           ("INV: every memoised epsilon closure is complete", lambda e: inv(e.h0)),
                           ("epsilon target sets and memoised closures are allocated objects (a new set is none of them)",
                            lambda e: z3.ForAll([z3.Int("x!a")], And(EPSSET(z3.Int("x!a")) < z3.Int("H0.alloc"),
                                                                     e.h0.fld("epsilon_closure", z3.Int("x!a")) < z3.Int("H0.alloc"))))],
                 ensures=[("the result is the complete epsilon closure of the state", lambda e: And(_res(e)[0], complete(e.h, _res(e)[1], e.state))),
                          ("INV is re-established", lambda e: inv(e.h))],
                 callees={"add_to_epsilon_closure": _add_callee()},
                 native=_native, search=lambda seed, ob: _native({}, ob), options=dict(common))
    return [add, clo]


REGIONS = {}
