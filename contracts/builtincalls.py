"""Contract for the generic builtin-method call optimisation (C13 kernel; its memory safety for C36),
Cython/Compiler/Optimize.py::OptimizeBuiltinCalls._optimise_generic_builtin_method_call.

The transform replaces `obj.meth(args)` on a receiver of a known builtin type (list, tuple, set, dict, str, bytes, ...) by a
CachedBuiltinMethodCallNode: at run time the C function of the method is cached and called DIRECTLY as cfunc(self, arg) - the
method descriptor's own type check is skipped.  A variable typed with a builtin type may hold None; CPython raises
AttributeError for `None.meth(...)`, so, from the statement ("the same result and exception as the original call for every
argument value ... including None"), the receiver handed to the cached call must be None-checked:
    the result is the unchanged call node, or a CachedBuiltinMethodCallNode whose receiver is the None-safe wrapping of the
    original receiver (`_wrap_self_arg`, which is the identity only for literals) and whose method name and arguments are the
    original ones.
Node objects are identities; `_wrap_self_arg` and the node constructor are contract stubs (the stub of the constructor records
its arguments in ghost state).  Not covered: the dispatch that decides WHICH calls reach this method (Visitor.MethodDispatcherTransform,
the unbound form T.meth(obj) with an untyped obj), CachedBuiltinMethodCallNode's code generation, __Pyx_CallUnboundCMethod*.
"""
import z3

from dv.spec import And, Or, Not, Implies
from dv.pyunit import PyUnit
from dv.pyfe import Callee, PRef, intern_id

SERVES = ("C13", "C36")
FILE = "Cython/Compiler/Optimize.py"
I = z3.IntSort()
NONESAFE = z3.Function("wrap_self_arg_result", I, I, I, I)        # (receiver node, is_unbound_method, attr_name) -> the wrapped receiver
G_OBJ, G_NAME, G_ARGS, G_CALLS = z3.Ints("ghost.cached_call.obj ghost.cached_call.name ghost.cached_call.args ghost.cached_call.count")
FIELDS = {"obj:OptimizeBuiltinCalls": {}, "obj:Node": {"is_attribute": "bool", "is_py_attr": "bool", "obj": "ref:obj:Node", "type": "ref:obj:Type"},
          "obj:Type": {"is_builtin_type": "bool"}}


def _ctor():
    # ExprNodes.CachedBuiltinMethodCallNode(call_node, obj, method_name, args): a fresh node; the stub records what it was given
    return Callee("ExprNodes.CachedBuiltinMethodCallNode", ["call_node", "obj", "method_name", "args"], result_kind="ref:obj:Node",
                  modifies=lambda e: [("alloc",)],
                  ensures=[("a new node", lambda e: e.result >= z3.Int("H0.alloc")),
                           ("ghost record of the constructor arguments", lambda e: And(G_OBJ == e.obj, G_NAME == e.method_name, G_ARGS == e.args, G_CALLS == 1))])


def _wrap():
    return Callee("OptimizeBuiltinCalls._wrap_self_arg", ["self", "self_arg", "function", "is_unbound_method", "attr_name"],
                  result_kind="ref:obj:Node",
                  ensures=[("the None-safe wrapping of this receiver for this method name",
                            lambda e: e.result == NONESAFE(e.self_arg, z3.If(e.is_unbound_method, 1, 0), e.attr_name))])


def _post(e):
    r = e.result
    recv = e.h0.fld("obj", e.function)
    unchanged = r == e.node
    cached = And(r != e.node, r >= z3.Int("H0.alloc"), G_CALLS == 1, G_NAME == e.attr_name, G_ARGS == e.arg_list,
                 G_OBJ == NONESAFE(recv, z3.If(e.is_unbound_method, 1, 0), e.attr_name))
    return Or(unchanged, cached)


def _native(model, obname):
    """a None receiver of every builtin-typed shape must raise AttributeError, not run the C method on None"""
    import os
    import subprocess
    from dv import cextract
    src = ("# cython: language_level=3\n"
           "def l_count(list L, x): return L.count(x)\ndef l_copy(list L): return L.copy()\ndef t_index(tuple t, x): return t.index(x)\n"
           "def d_popitem(dict d): return d.popitem()\ndef s_upper(str s): return s.upper()\ndef b_upper(bytes s): return s.upper()\n"
           "def s_union(set s, x): return s.union(x)\n")
    try:
        ctext, cfile = cextract.compile_pyx(src, name="dvnonerecv")
    except Exception as ex:
        return {"confirmed": False, "note": "compile failed: %r" % ex}
    d = os.path.dirname(cfile)
    p = subprocess.run(["clang", "-shared", "-fPIC", "-O0", "-w", "-DNDEBUG", "-I" + cextract.PY_INCLUDE, cfile, "-o", os.path.join(d, "dvnonerecv.so")],
                       capture_output=True, text=True)
    if p.returncode != 0:
        return {"confirmed": False, "note": "build failed " + p.stderr[-300:]}
    code = r'''
import sys; sys.path.insert(0, %r); import dvnonerecv as m
calls = [("l_count", ([1], 1), (None, 1)), ("l_copy", ([1],), (None,)), ("t_index", ((1,), 1), (None, 1)), ("d_popitem", ({1: 2},), (None,)),
         ("s_upper", ("a",), (None,)), ("b_upper", (b"a",), (None,)), ("s_union", ({1}, [2]), (None, [2]))]
bad = []
for name, warm, args in calls:
    f = getattr(m, name)
    f(*warm)                      # the first call goes through the descriptor; the cached C function is used from the second on
    try:
        r = f(*args); bad.append((name, "returned", repr(r)))
    except AttributeError: pass
    except Exception as e: bad.append((name, type(e).__name__))
print(bad)
''' % d
    r = subprocess.run(["/venv/bin/python", "-c", code], capture_output=True, text=True, timeout=120)
    out = r.stdout.strip()
    if r.returncode < 0:
        out = "crashed with signal %d" % -r.returncode
    return {"inputs": "None as receiver of list.count / list.copy / tuple.index / dict.popitem / str.upper / bytes.upper / set.union on typed variables (after one warm-up call)",
            "actual": (out or r.stderr[-300:])[:500], "expected": "AttributeError for every call", "confirmed": out != "[]", "obligation": obname,
            "how": "module compiled by the working-tree compiler; calls made natively"}


# ------------------------------------------------------------------------------------------------------------
# dict.pop: d.pop(key) raises KeyError for a missing key; only d.pop(key, default) may use the helper that swallows a miss

G_CAPI, G_NARGS, G_SUBST = z3.Ints("ghost.substitute.capi_func ghost.substitute.nargs ghost.substitute.count")
POP_FIELDS = {"obj:OptimizeBuiltinCalls": {"PyDict_Pop_func_type": "any", "PyDict_Pop_ignore_func_type": "any"},
              "obj:Node": {"pos": "any", "result_is_used": "bool"}}


def _pop_callees():
    P = __import__("dv.pyfe", fromlist=["PAny"])
    return {
        "ExprNodes.NullNode": Callee("ExprNodes.NullNode", ["pos"], result_kind="ref:obj:Node", modifies=lambda e: [("alloc",)],
                                     ensures=[("a new node", lambda e: e.result >= z3.Int("H0.alloc"))]),
        "OptimizeBuiltinCalls._error_wrong_arg_count": Callee("OptimizeBuiltinCalls._error_wrong_arg_count", ["self", "name", "node", "args", "expected"]),
        "load_c_utility": Callee("load_c_utility", ["name"], result_kind=lambda ex, e: P.PAny(e.name)),
        "OptimizeBuiltinCalls._substitute_method_call": Callee(
            "OptimizeBuiltinCalls._substitute_method_call",
            ["self", "node", "function", "name", "func_type", "attr_name", "is_unbound_method", "args", "may_return_none", "utility_code"],
            result_kind="ref:obj:Node",
            ensures=[("ghost record of the substitution", lambda e: And(G_SUBST == 1, G_CAPI == e.name, G_NARGS == e.h0.len(e.args)))]),
    }


def _pop_post(e):
    n0 = e.h0.len(e.args)
    ignore = G_CAPI == intern_id("__Pyx_PyDict_Pop_ignore")
    plain = G_CAPI == intern_id("__Pyx_PyDict_Pop")
    substituted = And(Or(n0 == 2, n0 == 3), G_SUBST == 1, G_NARGS == 3, Or(ignore, plain),
                      # the helper that ignores a missing key needs an explicit default (3 arguments) and an unused result
                      Implies(ignore, And(n0 == 3, e.h0.fld("result_is_used", e.node) == 0)),
                      Implies(n0 == 2, plain))
    return Or(And(e.result == e.node, n0 != 2, n0 != 3), substituted)


def _pop_native(model, obname):
    import os
    import subprocess
    from dv import cextract
    src = ("# cython: language_level=3\n"
           "def pop_stmt(dict d, key):\n    d.pop(key)\n    return d\ndef pop_stmt_default(dict d, key):\n    d.pop(key, None)\n    return d\n"
           "def pop_used(dict d, key): return d.pop(key)\n")
    try:
        ctext, cfile = cextract.compile_pyx(src, name="dvdictpop")
    except Exception as ex:
        return {"confirmed": False, "note": "compile failed: %r" % ex}
    d = os.path.dirname(cfile)
    p = subprocess.run(["clang", "-shared", "-fPIC", "-O0", "-w", "-I" + cextract.PY_INCLUDE, cfile, "-o", os.path.join(d, "dvdictpop.so")],
                       capture_output=True, text=True)
    if p.returncode != 0:
        return {"confirmed": False, "note": "build failed " + p.stderr[-300:]}
    code = r'''
import sys; sys.path.insert(0, %r); import dvdictpop as m
def run(f, *a):
    try: return ("ok", f(*a))
    except Exception as e: return (type(e).__name__,)
want = [("pop_stmt", ({"a": 1}, "zz"), ("KeyError",)), ("pop_stmt", ({}, 1), ("KeyError",)), ("pop_stmt", ({"a": 1}, "a"), ("ok", {})),
        ("pop_stmt_default", ({"a": 1}, "zz"), ("ok", {"a": 1})), ("pop_used", ({"a": 1}, "zz"), ("KeyError",)), ("pop_stmt", ({"a": 1}, []), ("TypeError",))]
print([(n, a, run(getattr(m, n), *a), w) for n, a, w in want if run(getattr(m, n), *a) != w])
''' % d
    r = subprocess.run(["/venv/bin/python", "-c", code], capture_output=True, text=True, timeout=120)
    out = r.stdout.strip()
    return {"inputs": "d.pop(key) as a statement / with a default / with its result used, for a missing, a present and an unhashable key", "actual": (out or r.stderr[-300:])[:400],
            "expected": "KeyError for a missing key unless a default is given", "confirmed": out != "[]", "obligation": obname,
            "how": "module compiled by the working-tree compiler; calls made natively"}


def units(tier):
    pop = PyUnit("Optimize.OptimizeBuiltinCalls._handle_simple_method_dict_pop", {"C13": None}, FILE, "OptimizeBuiltinCalls._handle_simple_method_dict_pop",
                 [("self", "ref:obj:OptimizeBuiltinCalls"), ("node", "ref:obj:Node"), ("function", "any"), ("args", "ref:list"), ("is_unbound_method", "bool")],
                 requires=[("the argument list is a list (receiver included)", lambda e: e.h0.len(e.args) >= 0)],
                 ensures=[("d.pop(key) keeps the helper that raises KeyError; the miss-ignoring helper needs an explicit default and an unused result",
                           _pop_post)],
                 callees=_pop_callees(), native=_pop_native, search=lambda seed, ob: _pop_native({}, ob),
                 options={"fields": POP_FIELDS, "merge": False, "elem_kind": {"list": "any"}, "modules": {}})
    return [pop] + _generic_units(tier)


def _generic_units(tier):
    u = PyUnit("Optimize.OptimizeBuiltinCalls._optimise_generic_builtin_method_call", {"C13": None, "C36": ["post", "subset"]}, FILE,
               "OptimizeBuiltinCalls._optimise_generic_builtin_method_call",
               [("self", "ref:obj:OptimizeBuiltinCalls"), ("node", "ref:obj:Node"), ("attr_name", "any"), ("function", "ref:obj:Node"),
                ("arg_list", "ref:list"), ("is_unbound_method", "bool")],
               requires=[("the argument list is a list", lambda e: e.h0.len(e.arg_list) >= 0)],
               ensures=[("the call node is returned unchanged, or a cached-method call whose receiver went through the None check of _wrap_self_arg",
                         _post)],
               callees={"ExprNodes.CachedBuiltinMethodCallNode": _ctor(), "OptimizeBuiltinCalls._wrap_self_arg": _wrap()},
               native=_native, search=lambda seed, ob: _native({}, ob),
               options={"fields": FIELDS, "merge": False, "modules": {"Builtin": "obj:Type"}, "elem_kind": {"list": "any"}})
    return [u]


REGIONS = {}
