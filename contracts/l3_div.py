"""L3 catalogue for C03 (and the UB side of C36): what DivNode / ModNode emit for // and % on C integers.

Subject: the C function the working-tree compiler generates for each catalogue function below.
The contract is the statement of C03: zero divisor -> ZeroDivisionError; result fits -> floor
quotient / remainder with the divisor's sign; result does not fit -> an exception, never a trap
(C36: the helper's precondition `not (a == MIN and b == -1)` must be established by the emitted
guard at every call site); cdivision on -> C truncation.
"""
from dv import spec as S
from dv.spec import And, Or, Not, Implies, If
from dv.l3 import L3Unit, ERR
from contracts.cmath import div_callee, mod_callee

SERVES = ("C03", "C36")

TYPES_QUICK = [("int", "int"), ("long", "long"), ("short", "short"), ("unsigned int", "uint")]
TYPES_ALL = TYPES_QUICK + [("signed char", "schar"), ("long long", "longlong"), ("Py_ssize_t", "ssize"),
                           ("unsigned long", "ulong"), ("unsigned char", "uchar"), ("unsigned short", "ushort"),
                           ("size_t", "size")]

_SPEC_NAME = {"int": "int", "long": "long", "short": "short", "signed char": "signed_char", "long long": "PY_LONG_LONG",
              "Py_ssize_t": "Py_ssize_t"}


def catalogue(types):
    out = ["# cython: language_level=3", "cimport cython", ""]
    for t, tag in types:
        ev = "-1" if not t.startswith(("unsigned", "size_t")) else "7"
        out += [
            "cdef %s fdiv_%s(%s a, %s b) except? %s:" % (t, tag, t, t, ev), "    return a // b", "",
            "cdef %s fmod_%s(%s a, %s b) except? %s:" % (t, tag, t, t, ev), "    return a % b", "",
            "cdef %s fdiv3_%s(%s a) except? %s:" % (t, tag, t, ev), "    return a // 3", "",
            "cdef %s fmod3_%s(%s a) except? %s:" % (t, tag, t, ev), "    return a % 3", "",
            "@cython.cdivision(True)",
            "cdef %s cdiv_%s(%s a, %s b) except? %s:" % (t, tag, t, t, ev), "    return a // b", "",
            "@cython.cdivision(True)",
            "cdef %s cmod_%s(%s a, %s b) except? %s:" % (t, tag, t, t, ev), "    return a % b", "",
            "cdef %s wdiv_%s(%s a, %s b) except? %s:" % (t, tag, t, t, ev),
            "    with cython.cdivision(True):", "        return a // b", "",
        ]
        if not t.startswith(("unsigned", "size_t")):
            out += ["cdef %s fdivm1_%s(%s a) except? %s:" % (t, tag, t, ev), "    return a // -1", "",
                    "cdef %s fmodm3_%s(%s a) except? %s:" % (t, tag, t, ev), "    return a % -3", ""]
    return "\n".join(out) + "\n"


def _fits_div(e, b):
    if e.T.signed:
        return Not(And(e.a == e.T.min, b == -1))
    return True


def _div_ensures(bf):
    """bf(e) -> divisor term"""
    return [
        ("zero divisor => ZeroDivisionError", lambda e: Implies(bf(e) == 0, e.err == ERR("ZeroDivisionError"))),
        ("fits => no error and result == a//b",
         lambda e: Implies(And(bf(e) != 0, _fits_div(e, bf(e))), And(e.err == 0, e.result == S.floordiv(e.a, bf(e))))),
        # quotient does not fit: C03 leaves the outcome open; C36 demands "no trap / no UB", which is the
        # `pre.__Pyx_div_*` obligation at the call site plus the ub.* obligations of this function
    ]


def _mod_ensures(bf):
    return [
        ("zero divisor => ZeroDivisionError", lambda e: Implies(bf(e) == 0, e.err == ERR("ZeroDivisionError"))),
        ("b != 0 => no error and result == a%b",
         lambda e: Implies(bf(e) != 0, And(e.err == 0, e.result == S.pymod(e.a, bf(e))))),
    ]


def _cdiv_ensures(op):
    f = S.truncdiv if op == "div" else S.truncmod
    return [("cdivision: result == C truncation", lambda e: And(e.err == 0, e.result == f(e.a, e.b)))]


def units(tier):
    types = TYPES_QUICK if tier == "quick" else TYPES_ALL
    pyx = catalogue(types)
    us = []
    props = {"C03": None, "C36": ["ub", "pre"]}
    for t, tag in types:
        signed = not t.startswith(("unsigned", "size_t"))
        callees = {}
        for sn in set(_SPEC_NAME.values()):
            # constant operands are typed `long` by the compiler, so narrower operands reach the long helpers
            callees["__Pyx_div_" + sn] = div_callee("__Pyx_div_" + sn)
            callees["__Pyx_mod_" + sn] = mod_callee("__Pyx_mod_" + sn)
        sub = {"mechanism": "ExprNodes.DivNode/ModNode code generation", "ctype": t}
        bvar = lambda e: e.b  # noqa: E731
        us.append(L3Unit("L3.fdiv[%s]" % t, props, pyx, "fdiv_" + tag, ensures=_div_ensures(bvar), callees=callees, subject=dict(sub)))
        us.append(L3Unit("L3.fmod[%s]" % t, props, pyx, "fmod_" + tag, ensures=_mod_ensures(bvar), callees=callees, subject=dict(sub)))
        us.append(L3Unit("L3.fdiv3[%s]" % t, props, pyx, "fdiv3_" + tag, ensures=_div_ensures(lambda e: 3), callees=callees, subject=dict(sub)))
        us.append(L3Unit("L3.fmod3[%s]" % t, props, pyx, "fmod3_" + tag, ensures=_mod_ensures(lambda e: 3), callees=callees, subject=dict(sub)))
        creq = [("b != 0 (cdivision: C semantics, no check)", lambda e: e.b != 0)]
        if signed:
            creq.append(("quotient fits", lambda e: Not(And(e.a == e.T.min, e.b == -1))))
        us.append(L3Unit("L3.cdiv[%s]" % t, props, pyx, "cdiv_" + tag, requires=creq, ensures=_cdiv_ensures("div"), subject=dict(sub)))
        us.append(L3Unit("L3.cmod[%s]" % t, props, pyx, "cmod_" + tag, requires=creq, ensures=_cdiv_ensures("mod"), subject=dict(sub)))
        us.append(L3Unit("L3.wdiv[%s]" % t, props, pyx, "wdiv_" + tag, requires=creq, ensures=_cdiv_ensures("div"), subject=dict(sub)))
        if signed:
            us.append(L3Unit("L3.fdivm1[%s]" % t, props, pyx, "fdivm1_" + tag, ensures=_div_ensures(lambda e: -1), callees=callees, subject=dict(sub)))
            us.append(L3Unit("L3.fmodm3[%s]" % t, props, pyx, "fmodm3_" + tag, ensures=_mod_ensures(lambda e: -3), callees=callees, subject=dict(sub)))
    return us


REGIONS = {}
