"""Contracts for the literal builders (C10 kernel), Cython/Compiler/StringEncoding.py.

BytesLiteralBuilder.append_charval(n) is what the parser calls for the numeric escapes `\\ooo` and `\\xhh` of a bytes (or
char) literal.  From the statement ("every escape sequence ... has at run time exactly the value CPython assigns it"):
an octal escape can denote 0..0o777 and CPython stores its low 8 bits (b"\\777" == b"\\xff"), so for every n in that range
the builder must append exactly the one byte n % 256 - and must not raise.
UnicodeLiteralBuilder.append_charval(n) appends the one character chr(n) for every code point.
"""
import z3

from dv.spec import And, Or, Not, Implies
from dv.pyunit import PyUnit, load_source_module

SERVES = ("C10",)
FILE = "Cython/Compiler/StringEncoding.py"


def _appended_one(e, code):
    ch0 = e.h0.fld("_chars", e.self)
    n0 = e.h0.len(ch0)
    return And(e.h.fld("_chars", e.self) == ch0, e.h.len(ch0) == n0 + 1, e.h.el(ch0, n0) == code)


def _native(model, obname):
    mod = load_source_module(FILE, "dvsubject_StringEncoding")
    for n in (0, 65, 127, 128, 255, 256, 0o377, 0o400, 0o777):
        b = mod.BytesLiteralBuilder("utf-8")
        try:
            b.append_charval(n)
            got = ("ok", b"".join(b.chars))
        except Exception as ex:
            got = ("exc", type(ex).__name__)
        want = ("ok", bytes([n % 256]))
        if got != want:
            return {"inputs": {"char_number": n, "as_literal": "b'\\%o'" % n}, "actual": repr(got), "expected": repr(want) + " (CPython: eval(\"b'\\\\%o'\") keeps the low 8 bits)" % n,
                    "confirmed": True, "obligation": obname, "how": "StringEncoding.py loaded from source; BytesLiteralBuilder.append_charval on a fresh builder"}
    return {"confirmed": False, "tried": 9}


# ------------------------------------------------------------------------------------------------------------
# Parsing._append_escape_sequence for bytes / char literals

PFILE = "Cython/Compiler/Parsing.py"
B = "obj:Builder"
TABLE = {"a": 7, "b": 8, "f": 12, "n": 10, "r": 13, "t": 9, "v": 11}
CHAR_OF = z3.Function("char_from_escape_sequence", z3.IntSort(), z3.IntSort())     # keyed by the letter after the backslash


def _code(x):
    """character code of a one-character argument as the callee lambdas see it"""
    return x.codes[0] if hasattr(x, "codes") else x


def _event(kind, val_of):
    """a builder call: exactly one more event, with this kind and value"""
    def ens(e):
        b = e.self
        return And(e.h.fld("n_events", b) == e.h0.fld("n_events", b) + 1, e.h.fld("ev_kind", b) == kind, e.h.fld("ev_val", b) == val_of(e))
    return ens


def _mods(e):
    return [("fld", "n_events", e.self), ("fld", "ev_kind", e.self), ("fld", "ev_val", e.self)]


def _append_val(e):
    x = e.characters
    if hasattr(x, "codes"):
        return x.codes[0] if len(x.codes) == 1 else z3.IntVal(-1)
    if hasattr(x, "arr"):          # the escape sequence itself, kept literally
        return z3.IntVal(-2)
    return x                        # constant text: its identity


def _esc_post(e):
    from dv.pyfe import intern_id
    b = e.builder
    seq = e.escape_sequence
    ch = lambda j: z3.Select(seq.chars, j)  # noqa: E731
    L = seq.len
    n1 = e.h.fld("n_events", b) - e.h0.fld("n_events", b)
    kind, val = e.h.fld("ev_kind", b), e.h.fld("ev_val", b)
    c = ch(1)
    oct_digit = lambda x: And(x >= 48, x <= 55)  # noqa: E731
    hexv = lambda x: z3.If(And(x >= 48, x <= 57), x - 48, z3.If(And(x >= 97, x <= 102), x - 87, x - 55))  # noqa: E731
    octval = z3.If(L == 2, ch(1) - 48, z3.If(L == 3, (ch(1) - 48) * 8 + ch(2) - 48, (ch(1) - 48) * 64 + (ch(2) - 48) * 8 + ch(3) - 48))
    one_charval = lambda v: And(n1 == 1, kind == 1, val == v)  # noqa: E731
    one_char = lambda v: And(n1 == 1, kind == 2, val == v)  # noqa: E731
    simple = Or(*[c == ord(k) for k in TABLE])
    return And(
        Implies(L < 2, one_char(intern_id("\\"))),
        Implies(And(L >= 2, oct_digit(c)), one_charval(octval)),                               # \ooo: the value of 1-3 octal digits
        Implies(And(L >= 2, Or(c == 39, c == 34, c == 92)), one_char(c)),                      # \' \" \\: the character itself
        Implies(And(L >= 2, simple), one_char(CHAR_OF(c))),                                    # \n ...: the table entry
        Implies(And(L >= 2, c == 10), n1 == 0),                                                # backslash-newline: nothing
        Implies(And(L == 4, c == 120), one_charval(hexv(ch(2)) * 16 + hexv(ch(3)))),           # \xhh
        Implies(And(L >= 2, Not(oct_digit(c)), Not(Or(c == 39, c == 34, c == 92)), Not(simple), c != 10, c != 120),
                And(n1 == 1, kind == 2, val == -2)))                                           # unknown escape: kept literally


def _esc_unit():
    from dv.pyfe import Callee
    callees = {
        "Builder.append_charval": Callee("Builder.append_charval", ["self", "char_number"], result_kind="none", modifies=_mods,
                                         ensures=[("ghost event", _event(1, lambda e: e.char_number))]),
        "Builder.append": Callee("Builder.append", ["self", "characters"], result_kind="none", modifies=_mods,
                                 ensures=[("ghost event", _event(2, _append_val))]),
        "StringEncoding.char_from_escape_sequence": Callee("StringEncoding.char_from_escape_sequence", ["seq"], result_kind=lambda ex, e:
                                                           __import__("dv.pyfe", fromlist=["PStr"]).PStr([CHAR_OF(z3.Select(e.seq.arr, e.seq.off + 1))])),
        "Scanner.error": Callee("Scanner.error", ["self", "msg"], result_kind="none"),
    }
    from dv.pyfe import intern_id
    return PyUnit("Parsing._append_escape_sequence[bytes]", {"C10": None}, PFILE, "_append_escape_sequence",
                  [("kind", "any"), ("builder", "ref:" + B), ("escape_sequence", "str"), ("s", "ref:obj:Scanner")],
                  requires=[("kernel: a bytes or char literal (kind 'b' / 'c'): \\N \\u \\U are not escapes there", lambda e: Or(e.kind == intern_id("b"), e.kind == intern_id("c"))),
                            ("scanner: an escape sequence starts with a backslash; octal escapes have 1-3 octal digits and nothing else, hex "
                             "escapes two hex digits (Lexicon.py)",
                             lambda e: And(Implies(e.escape_sequence.len >= 1, z3.Select(e.escape_sequence.chars, 0) == 92),
                                           Implies(And(e.escape_sequence.len >= 2, z3.Select(e.escape_sequence.chars, 1) >= 48, z3.Select(e.escape_sequence.chars, 1) <= 55),
                                                   And(e.escape_sequence.len <= 4,
                                                       *[Implies(e.escape_sequence.len > j, And(z3.Select(e.escape_sequence.chars, j) >= 48, z3.Select(e.escape_sequence.chars, j) <= 55)) for j in (2, 3)])),
                                           Implies(And(e.escape_sequence.len == 4, z3.Select(e.escape_sequence.chars, 1) == 120),
                                                   And(*[Or(And(z3.Select(e.escape_sequence.chars, j) >= 48, z3.Select(e.escape_sequence.chars, j) <= 57),
                                                            And(z3.Select(e.escape_sequence.chars, j) >= 97, z3.Select(e.escape_sequence.chars, j) <= 102),
                                                            And(z3.Select(e.escape_sequence.chars, j) >= 65, z3.Select(e.escape_sequence.chars, j) <= 70)) for j in (2, 3)])),
                                           Implies(And(e.escape_sequence.len >= 2, z3.Select(e.escape_sequence.chars, 1) == 120), e.escape_sequence.len == 4)))],
                  ensures=[("exactly the builder call CPython's escape rules prescribe: numeric value for \\ooo / \\xhh, the character for \\' \\\" \\\\, the "
                            "table entry for \\a..\\v, nothing for backslash-newline, the sequence kept literally otherwise", _esc_post)],
                  callees=callees, native=_native_esc, search=lambda seed, ob: _native_esc({}, ob),
                  options={"fields": {B: {"n_events": "int", "ev_kind": "int", "ev_val": "int"}}, "merge": False})


def _native_esc(model, obname):
    """compile-free replay: every escape form through the real parser function with a real BytesLiteralBuilder, against eval()"""
    import warnings
    from dv import cextract
    cextract.ensure_repo_on_path()
    from Cython.Compiler import Parsing, StringEncoding

    class S:
        def error(self, *a, **k):
            raise RuntimeError("scanner error")
    forms = ["\\%o" % v for v in (0, 7, 8, 63, 64, 255, 256, 511)] + ["\\0", "\\00", "\\7", "\\77", "\\x00", "\\x7f", "\\xff", "\\xAb", "\\n", "\\t", "\\a",
                                                                   "\\b", "\\f", "\\r", "\\v", "\\'", '\\"', "\\\\", "\\\n", "\\q", "\\N", "\\u", "\\8", "\\9"]
    for f in forms:
        b = StringEncoding.BytesLiteralBuilder("utf-8")
        try:
            Parsing._append_escape_sequence("b", b, f, S())
            got = b"".join(b.chars)
        except Exception as ex:
            got = "exc:" + type(ex).__name__
        with warnings.catch_warnings():
            warnings.simplefilter("ignore")
            want = eval('b"""' + f + '"""')
        if got != want:
            return {"inputs": {"escape_sequence": f, "kind": "b"}, "actual": repr(got), "expected": repr(want), "confirmed": True, "obligation": obname,
                    "how": "Cython.Compiler.Parsing._append_escape_sequence from the working tree with a real BytesLiteralBuilder; expected = CPython's eval of the literal"}
    return {"confirmed": False, "tried": len(forms)}


def side_checks(prop, tier, seed, kf_entries):
    """EXHAUSTIVE (7 entries): the table StringEncoding.char_from_escape_sequence against CPython's own escapes"""
    mod = load_source_module(FILE, "dvsubject_StringEncoding")
    bad = [k for k, v in TABLE.items() if mod.char_from_escape_sequence("\\" + k) != chr(v) or eval('"\\%s"' % k) != chr(v)]
    out = [{"kind": "exhaustive-check", "name": "char_from_escape_sequence table (\\a \\b \\f \\n \\r \\t \\v) vs CPython", "cases": len(TABLE), "disagree": len(bad)}]
    if bad:
        out.append({"kind": "bounded-violation", "name": "char_from_escape_sequence", "text": "entries %r differ from CPython's escapes" % bad})
    return out


def units(tier):
    us = [_esc_unit()]
    us.append(PyUnit("StringEncoding.BytesLiteralBuilder.append_charval", {"C10": None}, FILE, "BytesLiteralBuilder.append_charval",
                     [("self", "ref:obj:BytesLiteralBuilder"), ("char_number", "int")],
                     requires=[("the value of a numeric escape of a bytes literal: 0 .. 0o777", lambda e: And(e.char_number >= 0, e.char_number <= 0o777)),
                               ("self._chars is a list that exists", lambda e: And(e.h0.fld("_chars", e.self) >= 0, e.h0.len(e.h0.fld("_chars", e.self)) >= 0))],
                     ensures=[("exactly the one byte char_number % 256 is appended (CPython keeps the low 8 bits of an octal escape), nothing raised",
                               lambda e: _appended_one(e, e.char_number % 256))],
                     native=_native, search=lambda seed, ob: _native({}, ob),
                     options={"fields": {"obj:BytesLiteralBuilder": {"_chars": "ref:strbuilder"}}}))
    us.append(PyUnit("StringEncoding.UnicodeLiteralBuilder.append_charval", {"C10": None}, FILE, "UnicodeLiteralBuilder.append_charval",
                     [("self", "ref:obj:UnicodeLiteralBuilder"), ("char_number", "int")],
                     requires=[("a code point", lambda e: And(e.char_number >= 0, e.char_number <= 0x10FFFF)),
                               ("self._chars is a list that exists", lambda e: And(e.h0.fld("_chars", e.self) >= 0, e.h0.len(e.h0.fld("_chars", e.self)) >= 0))],
                     ensures=[("exactly the one character chr(char_number) is appended", lambda e: _appended_one(e, e.char_number))],
                     native=None, options={"fields": {"obj:UnicodeLiteralBuilder": {"_chars": "ref:strbuilder"}}}))
    return us


REGIONS = {}
