"""Contracts for the C-value -> str formatting helpers (C18 kernel; their memory safety for C36).

Subjects (module route: the helpers as they appear in the C the working-tree compiler generates for f-strings
with C integer operands; release configuration -DNDEBUG):
  * __Pyx_PyUnicode_FromOrdinal_Padded(value, ulength, padding_char)      f"{c:10c}"
  * __Pyx_uchar___Pyx_PyUnicode_From_<T>(value, width, padding_char)       f"{c:c}" range check + dispatch
  * __Pyx_PyUnicode_BuildFromAscii(ulength, chars, clength, prepend_sign, padding_char)
  * __Pyx____Pyx_PyUnicode_From_<T>(value, width, padding_char, format_char)  f"{v:5d}", f"{v:x}", ...
String model: dv/pystr.py.  From the statement ("the same text as CPython"):
  FromOrdinal_Padded, 0 <= value <= 0x10FFFF, ASCII padding, ulength >= 2:
      the result is the text  padding_char * (ulength - 1) + chr(value)
  (either as code points, or - where the helper hands a UTF-8 buffer to PyUnicode_DecodeUTF8 - as exactly the RFC 3629
  encoding of that text), and every buffer access stays inside its object.
"""
import z3

from dv.spec import And, Or, Not, Implies, If
from dv.cunit import CUnit, Callee
from dv.l3 import compiled
from dv import pystr as S
from dv import cextract

SERVES = ("C18", "C36")

PYX = """# cython: language_level=3
def fi(int v):
    return f"{v:5d}|{v:05d}|{v:x}|{v:X}|{v:o}"
def fl(long v):
    return f"{v:d}|{v:12x}"
def fu(unsigned int v):
    return f"{v:d}"
def fc(int c):
    return f"{c:10c}|{c:c}"
def fh(short v):
    return f"{v:3d}"
"""


def _tu():
    return compiled(PYX, None, "dvfmt"), "module route: f-strings over C integers, compiled by the working-tree compiler; clang -DNDEBUG"


def padded_text(e, r, value, ulength, pad):
    """result r is the text pad * (ulength - 1) + chr(value)"""
    pl = ulength - 1
    i = z3.Int("i!pt")
    as_cps = And(S.slen(r) == ulength,
                 z3.ForAll([i], Implies(And(i >= 0, i < pl), z3.Select(S.cps(r), i) == pad)),
                 z3.Select(S.cps(r), pl) == value)
    # CPython's strict UTF-8 decoder rejects the 3-byte forms of U+D800..U+DFFF (UnicodeDecodeError): a str described by the
    # buffer handed to PyUnicode_DecodeUTF8 can only be the expected text when chr(value) is not a surrogate
    as_u8 = And(Not(And(value >= 0xD800, value <= 0xDFFF)), S.u8len(r) == pl + S.utf8_len(value),
                z3.ForAll([i], Implies(And(i >= 0, i < pl), z3.Select(S.u8(r), i) == pad)),
                z3.ForAll([i], Implies(And(i >= 0, i < S.utf8_len(value)), z3.Select(S.u8(r), pl + i) == S.utf8_byte(value, i))))
    return And(S.is_str(r), Or(S.kind(r) == 1, S.kind(r) == 2),
               Implies(S.kind(r) == 1, as_cps), Implies(S.kind(r) == 2, as_u8))


BUILD_REQ = [
    ("0 <= clength <= ulength", lambda e: And(e.clength >= 0, e.clength <= e.ulength)),
    ("a sign can only be prepended into padding room", lambda e: Implies(e.prepend_sign != 0, e.ulength > e.clength)),
    ("padding_char is ASCII", lambda e: And(e.padding_char >= 0, e.padding_char <= 127)),
]


def build_text(e, r, cps_arr):
    """r is  ['-' if prepend_sign] + padding + chars[0..clength)  of total length ulength"""
    uoff = e.ulength - e.clength
    i = z3.Int("i!bt")
    expect = If(i >= uoff, z3.Select(e.mem0["chars"], i - uoff), If(And(e.prepend_sign != 0, i == 0), 45, e.padding_char))
    return And(S.is_str(r), S.kind(r) == 1, S.slen(r) == e.ulength,
               z3.ForAll([i], Implies(And(i >= 0, i < e.ulength), z3.Select(cps_arr, i) == expect)))


def units(tier):
    us = []
    u = CUnit("Fmt.FromOrdinal_Padded", {"C18": ["post", "pre", "subset"], "C36": ["ub", "subset"]},
              "__Pyx_PyUnicode_FromOrdinal_Padded", _tu, filt=["__Pyx_PyUnicode_FromOrdinal_Padded"], defines=("NDEBUG",),
              requires=[("value is a code point (checked by the only caller, __Pyx_uchar_*)", lambda e: And(e.value >= 0, e.value <= 0x10FFFF)),
                        ("ulength >= 2 (the caller handles width <= 1 itself)", lambda e: And(e.ulength >= 2, e.ulength < 2 ** 62)),
                        ("padding_char is ASCII (the code generator passes ' ' or '0')", lambda e: And(e.padding_char >= 0, e.padding_char <= 127))],
              ensures=[("result is the text padding_char * (ulength - 1) + chr(value)",
                        lambda e: False if e.result_id is None else padded_text(e, e.result_id, e.value, e.ulength, e.padding_char))],
              callees={"__Pyx_PyUnicode_BuildFromAscii": build_callee()},
              options={"merge": False},
              subject={"file": "Cython/Utility/TypeConversion.c", "template": "COrdinalToPyUnicode"})
    u.exec_cls = S.CExecPyStr
    u.err_ghost = True
    u.replay = lambda model, ob=None, u=u: _native_padded(u, model, ob)
    u.concrete_search = lambda ob, regions=(), u=u: _native_padded(u, {}, ob)
    us.append(u)
    us.append(build_unit())
    for tname in ("int", "long", "short", "unsigned_int"):
        fname = "__Pyx_uchar___Pyx_PyUnicode_From_" + tname
        ctype = tname.replace("_", " ")
        u = CUnit("Fmt.uchar[%s]" % tname, {"C18": ["post", "pre", "subset"], "C36": ["ub", "subset"]}, fname, _tu,
                  filt=[fname, "__Pyx_CheckUnicodeValue"], defines=("NDEBUG",),
                  requires=[("padding_char is ASCII (the code generator passes ' ' or '0')", lambda e: And(e.padding_char >= 0, e.padding_char <= 127)),
                            ("width below 2**62", lambda e: And(e.width > -2 ** 62, e.width < 2 ** 62))],
                  ensures=[("0 <= value <= 0x10FFFF => the text padding * (max(width,1) - 1) + chr(value); otherwise OverflowError (as CPython's format(v, 'c'))",
                            _uchar_post)],
                  callees={"__Pyx_PyUnicode_FromOrdinal_Padded": padded_callee()},
                  options={"merge": False, "inline": ("__Pyx_CheckUnicodeValue",)},
                  subject={"file": "Cython/Utility/TypeConversion.c", "template": "CIntToPyUnicode", "instantiation": ctype})
        u.exec_cls = S.CExecPyStr
        u.err_ghost = True
        u.replay = lambda model, ob=None, u=u, ctype=ctype: _native_uchar(u, ctype, model, ob)
        u.concrete_search = lambda ob, regions=(), u=u, ctype=ctype: _native_uchar(u, ctype, {}, ob)
        us.append(u)
    combos = [("int", "d"), ("int", "x")]
    if tier != "quick":
        combos += [("int", "o"), ("int", "X")] + [(t, f) for t in ("long", "short", "unsigned_int") for f in "doxX"]
    for tname, fch in combos:
        for pad in (32, 48):
            us.append(digits_unit(tname, fch, pad))
    return us


# ------------------------------------------------------------------------------------------------------------
# integer -> text.  Spec (dual mode): character i of CPython's format(value, "<0?><width><d|o|x|X>")

from dv.spec import floordiv, pymod  # noqa: E402

BASES = {"d": (10, False), "o": (8, False), "x": (16, False), "X": (16, True)}


def fmt_len(value, width, base, maxd):
    neg = value < 0
    mag = If(neg, -value, value)
    nd = 1
    for k in range(1, maxd):
        nd = nd + If(mag >= base ** k, 1, 0)
    body = nd + If(neg, 1, 0)
    return If(width > body, width, body), nd, mag, neg


def fmt_char(value, width, pad, base, upper, i, maxd, p=None):
    """character i of the text; p (optional, a Python int): the same position counted from the right, i == len - 1 - p"""
    total, nd, mag, neg = fmt_len(value, width, base, maxd)
    if p is None:
        p = total - 1 - i
    q = 0
    for k in range(maxd - 1, -1, -1):
        q = If(p == k, floordiv(mag, base ** k), q)
    d = pymod(q, base)
    digit = If(d < 10, 48 + d, (55 if upper else 87) + d)
    fill = If(pad == 32, If(And(neg, p == nd), 45, 32), If(And(neg, i == 0), 45, 48))
    return If(p < nd, digit, fill)


def _digits_posts(base, upper, maxd, fch):
    """the postcondition 'result == format(value, spec)' as one clause per character position counted from the right
    (positions 0..maxd hold digits or the sign) plus one clause for the padding to the left of them; together they are
    exactly: for all i < len: result[i] == fmt_char(i)"""
    def head(e):
        r = e.result_id
        if r is None:
            return False
        total = fmt_len(e.value, e.width, base, maxd)[0]
        return And(e.err == 0, S.is_str(r), S.kind(r) == 1, S.slen(r) == total)

    def at(p):
        def post(e):
            r = e.result_id
            if r is None:
                return False
            total = fmt_len(e.value, e.width, base, maxd)[0]
            return Implies(p < total, z3.Select(S.cps(r), total - 1 - p) == fmt_char(e.value, e.width, e.padding_char, base, upper, total - 1 - p, maxd + 1, p=p))
        return post

    def left(e):
        r = e.result_id
        if r is None:
            return False
        total = fmt_len(e.value, e.width, base, maxd)[0]
        i = z3.Int("i!fmt")
        return z3.ForAll([i], Implies(And(i >= 0, i < total - 1 - maxd),
                                      z3.Select(S.cps(r), i) == If(e.padding_char == 32, 32, If(And(e.value < 0, i == 0), 45, 48))))
    name = "format(value, '<0?><width>%s')" % fch
    return ([("result is a str of the length of %s, no exception" % name, head)] +
            [("character %d from the right is that of %s" % (p, name), at(p)) for p in range(maxd + 1)] +
            [("everything left of the digits and sign is the padding of %s" % name, left)])


def _digit_char(mag, base, upper, p):
    d = pymod(floordiv(mag, base ** p), base)
    return If(d < 10, 48 + d, (55 if upper else 87) + d)


def _cut(base, upper):
    """ghost assertions after iteration `it` of the digit loop: `remaining` is value with it+1 chunks cut off (C truncating
    division), and the slots written in this iteration hold the spec's digits"""
    from dv.spec import truncdiv
    step = 1 if base == 16 else 2

    def cut(ex, st, it):
        value = ex.local(st, "value").t
        rem = ex.local(st, "remaining").t
        dpos = ex.local(st, "dpos")
        arr = st.mem[dpos.obj]
        mag = z3.If(value < 0, -value, value)
        # |remaining| is the magnitude with it+1 chunks cut off, and remaining keeps the sign of value: each follows from
        # the previous iteration's facts by one step (|r tdiv B| == |r| div B), which keeps every VC small
        out = []
        if step == 2:
            # closed lemmas about floor division by constants (valid for every mag >= 0; proved without context), then the
            # pair index computed by the code: they turn the two digit facts below into rewriting
            A = (base * base) ** it
            x = floordiv(mag, A)
            out.append(("lemma.nested_division", floordiv(x, base) == floordiv(mag, base * A)))
            out.append(("lemma.high_digit_of_pair", floordiv(pymod(x, base * base), base) == pymod(floordiv(x, base), base)))
            out.append(("lemma.low_digit_of_pair", pymod(pymod(x, base * base), base) == pymod(x, base)))
            out.append(("pair", ex.local(st, "digit_pos").t == pymod(x, base * base)))
        out.append(("remaining", z3.And(z3.If(rem < 0, -rem, rem) == floordiv(mag, (base ** step) ** (it + 1)),
                                        z3.Implies(value >= 0, rem >= 0), z3.Implies(value < 0, rem <= 0))))
        for s in range(step):
            p = step * it + (step - 1 - s)
            out.append(("digit%d" % p, z3.Select(arr, dpos.off + s) == _digit_char(mag, base, upper, p)))
        return out
    cut.abstracts = ("remaining",)
    return cut


def _pairs(base):
    return lambda k: If(k < 2 * base * base, 48 + If(pymod(k, 2) == 0, floordiv(floordiv(k, 2), base), pymod(floordiv(k, 2), base)), 0)


TABLES = {"DIGIT_PAIRS_10": _pairs(10), "DIGIT_PAIRS_8": _pairs(8),
          "DIGITS_HEX": lambda k: If(k < 10, 48 + k, If(k < 16, 87 + k, If(k < 26, 48 + k - 16, If(k < 32, 55 + k - 16, 0))))}
# loop iterations needed at most: ceil(bits / log2(base^step)) (+1 checked by the unwinding assertion)
ITER = {(32, "d"): 5, (32, "o"): 6, (32, "x"): 8, (64, "d"): 10, (64, "o"): 11, (64, "x"): 16, (16, "d"): 3, (16, "o"): 3, (16, "x"): 4}


def digits_unit(tname, fch, pad):
    """one unit per (C type, format character, padding character): the last two are small enumerations the code
    generator passes as literals; fixing them folds the helper's branches on them"""
    ctype = tname.replace("_", " ")
    bits = {"int": 32, "long": 64, "short": 16, "unsigned int": 32}[ctype]
    base, upper = BASES[fch]
    maxd = {10: {16: 5, 32: 10, 64: 20}, 8: {16: 6, 32: 11, 64: 22}, 16: {16: 4, 32: 8, 64: 16}}[base][bits]
    fname = "__Pyx____Pyx_PyUnicode_From_" + tname
    u = CUnit("Fmt.digits[%s,%s,%s]" % (tname, fch, "zero" if pad == 48 else "space"), {"C18": ["post", "pre", "subset", "unwind"], "C36": ["ub", "subset"]}, fname, _tu,
              filt=[fname, "DIGIT_PAIRS_10", "DIGIT_PAIRS_8", "DIGITS_HEX"], defines=("NDEBUG",),
              requires=[("width below 2**62", lambda e: And(e.width > -2 ** 62, e.width < 2 ** 62))],
              ensures=_digits_posts(base, upper, maxd, fch),
              callees={"__Pyx_PyUnicode_BuildFromAscii": build_callee(ascii_pre=True)},
              options={"merge": False, "unroll": {0: ITER[(bits, fch.lower())]}, "table_facts": TABLES,
                       "unroll_cut": {0: _cut(base, upper)}},
              subject={"file": "Cython/Utility/TypeConversion.c", "template": "CIntToPyUnicode", "instantiation": "%s, format '%s', padding %r" % (ctype, fch, chr(pad))})
    u.consts = {"format_char": ord(fch), "padding_char": pad}
    u.exec_cls = S.CExecPyStr
    u.err_ghost = True
    u.replay = lambda model, ob=None, u=u: _native_digits(u, ctype, bits, fch, dict(model or {}, padding_char=pad), ob)
    u.concrete_search = lambda ob, regions=(), u=u: _native_digits(u, ctype, bits, fch, {}, ob)
    return u


def _native_digits(unit, ctype, bits, fch, model, ob):
    from dv.nativepy import call_helper
    signed = not ctype.startswith("unsigned")
    lo, hi = (-(1 << (bits - 1)), (1 << (bits - 1)) - 1) if signed else (0, (1 << bits) - 1)
    base = BASES[fch][0]
    values = {0, 1, -1, 7, 8, 9, 10, 15, 16, 63, 64, 99, 100, 255, 256, 4095, 4096, lo, hi, lo + 1, hi - 1}
    for k in range(1, 22):
        for b in (base, base * base):
            values.update((b ** k, b ** k - 1, -(b ** k), -(b ** k) + 1, -(b ** k) - 1))
    values = sorted(v for v in values if lo <= v <= hi)
    cases = [(v, w, p) for v in values for w in (0, 1, 2, 5, 12, 30) for p in (32, 48)]
    if model and all(k in model for k in ("value", "width", "padding_char")):
        m = (int(model["value"]), int(model["width"]), int(model["padding_char"]))
        if m[1] <= 10 ** 6 and m[2] in (32, 48):
            cases.insert(0, m)
    body = "return %s((%s) a0, (Py_ssize_t) a1, (char) a2, '%s');" % (unit.fname, ctype, fch)
    out = call_helper(unit._tu_text, unit.fname, [ctype, "Py_ssize_t", "char"], cases, defines=unit.defines, entry_body=body)
    if "results" not in out:
        return {"confirmed": False, "note": str(out)[:400]}
    how = ("the helper from the generated module under ASan+UBSan inside CPython 3.12 (ctypes); expected = format(value, '<0?><width>%s')" % fch)
    for c, r in zip(cases, out["results"]):
        want = format(c[0], ("0" if c[2] == 48 else "") + (str(c[1]) if c[1] > 0 else "") + fch)
        if r != ["ok", want]:
            return {"inputs": dict(value=c[0], width=c[1], padding_char=c[2]), "actual": str(r)[:80], "expected": want,
                    "confirmed": True, "how": how, "obligation": getattr(ob, "name", None)}
    if out["crash"]:
        return {"inputs": dict(zip(("value", "width", "padding_char"), out["crash"]["case"] or ())), "actual": out["crash"]["report"],
                "expected": "no sanitizer report", "confirmed": True, "how": how, "obligation": getattr(ob, "name", None)}
    return {"confirmed": False, "tried": len(cases)}


class _BuildInv:
    """loop 0 (padding) / loop 1 (payload) of BuildFromAscii: everything below the write cursor already holds the
    expected text; only the new str's buffer is written"""
    modifies_objs = ("ustr#",)

    def __init__(self, which):
        self.which = which

    def _buf(self, st):
        return [st.mem[k] for k in st.mem if k.startswith("ustr#")][0]

    def holds(self, ex, st):
        i = ex.local(st, "i").t
        uoff = ex.local(st, "uoffset").t
        sign, pad = ex.local(st, "prepend_sign").t, ex.local(st, "padding_char").t
        clen = ex.local(st, "clength").t
        chars = ex.local(st, "chars")
        j = z3.Int("j!binv")
        buf = self._buf(st)
        expect = z3.If(j >= uoff, z3.Select(st.mem[chars.obj], j - uoff + chars.off), z3.If(z3.And(sign != 0, j == 0), z3.IntVal(45), pad))
        if self.which == 0:
            return [("cursor", z3.And(i >= z3.If(sign != 0, 1, 0), i <= uoff)),
                    ("prefix", z3.ForAll([j], z3.Implies(z3.And(j >= 0, j < i), z3.Select(buf, j) == expect)))]
        return [("cursor", z3.And(i >= 0, i <= clen)),
                ("prefix", z3.ForAll([j], z3.Implies(z3.And(j >= 0, j < uoff + i), z3.Select(buf, j) == expect)))]

    def decreases(self, ex, st):
        i = ex.local(st, "i").t
        return (ex.local(st, "uoffset").t if self.which == 0 else ex.local(st, "clength").t) - i


def _build_post(e):
    r = e.result_id
    if r is None:
        return False
    bufs = [e.mem[k] for k in e.mem if k.startswith("ustr#")]
    if len(bufs) != 1:
        return False
    return build_text(e, r, bufs[0])


def build_unit():
    fname = "__Pyx_PyUnicode_BuildFromAscii"
    u = CUnit("Fmt.BuildFromAscii", {"C18": ["post", "pre", "subset", "inv"], "C36": ["ub", "subset"]}, fname, _tu, filt=[fname], defines=("NDEBUG",),
              arrays={"chars": ("char", lambda e: z3.Int("clength"))},
              requires=BUILD_REQ + [("chars[0..clength) is ASCII", lambda e: _all_ascii(e.mem0["chars"], 0, e.clength)),
                                    ("ulength below 2**62", lambda e: e.ulength < 2 ** 62)],
              ensures=[("result is ['-'] + padding + chars[0..clength), ulength characters", _build_post)],
              options={"merge": False, "invariants": {0: _BuildInv(0), 1: _BuildInv(1)}},
              subject={"file": "Cython/Utility/StringTools.c", "template": "BuildPyUnicode"})
    u.exec_cls = S.CExecPyStr
    u.err_ghost = True
    u.replay = lambda model, ob=None, u=u: _native_build(u, ob)
    u.concrete_search = lambda ob, regions=(), u=u: _native_build(u, ob)
    return u


def _native_build(unit, ob):
    """the real helper on a fixed ASCII payload, all (ulength, clength, sign, padding) in a small grid satisfying the contract"""
    from dv.nativepy import call_helper
    payload = "9876543210123456789"
    cases = [(ul, cl, sg, pad) for cl in (0, 1, 2, 5, 19) for ul in range(cl, cl + 5) for sg in (0, 1) for pad in (32, 48)
             if not (sg and ul <= cl)]
    body = ('static const char dv_chars[] = "%s"; return %s((Py_ssize_t) a0, dv_chars, (int) a1, (int) a2, (char) a3);' % (payload, unit.fname))
    out = call_helper(unit._tu_text, unit.fname, ["Py_ssize_t", "int", "int", "char"], cases, defines=unit.defines, entry_body=body)
    if "results" not in out:
        return {"confirmed": False, "note": str(out)[:400]}
    how = "the helper from the generated module under ASan+UBSan inside CPython 3.12 (ctypes), payload %r" % payload
    for c, r in zip(cases, out["results"]):
        ul, cl, sg, pad = c
        want = ("-" if sg else "") + chr(pad) * (ul - cl - (1 if sg else 0)) + payload[:cl]
        if r != ["ok", want]:
            return {"inputs": dict(ulength=ul, clength=cl, prepend_sign=sg, padding_char=pad), "actual": str(r)[:80], "expected": want,
                    "confirmed": True, "how": how, "obligation": getattr(ob, "name", None)}
    if out["crash"]:
        return {"inputs": dict(zip(("ulength", "clength", "prepend_sign", "padding_char"), out["crash"]["case"] or ())),
                "actual": out["crash"]["report"], "expected": "no sanitizer report", "confirmed": True, "how": how, "obligation": getattr(ob, "name", None)}
    return {"confirmed": False, "tried": len(cases)}


def _all_ascii(arr, lo, hi):
    k = z3.Int("k!ascii")
    return z3.ForAll([k], z3.Implies(z3.And(k >= lo, k < hi), z3.And(z3.Select(arr, k) >= 0, z3.Select(arr, k) <= 127)))


def _uchar_post(e):
    from dv.l3 import ERRS
    ok = And(e.value >= 0, e.value <= 0x10FFFF)
    if e.result_null:
        return And(Not(ok), e.err == ERRS["OverflowError"])
    r = e.result_id
    if r is None:
        return False
    w = If(e.width > 1, e.width, 1)
    return And(ok, e.err == 0, padded_text(e, r, e.value, w, e.padding_char))


def padded_callee():
    def pre(ex, st, args, n):
        value, ulength, pad = args
        return [("value is a code point", z3.And(value.t >= 0, value.t <= 0x10FFFF)),
                ("ulength >= 2", ulength.t >= 2),
                ("padding_char is ASCII", z3.And(pad.t >= 0, pad.t <= 127))]

    def post(ex, st, args, n, r):
        value, ulength, pad = args
        return padded_text(None, r.off, value.t, ulength.t, pad.t)
    return StrCallee(pre, post, "FromOrdinal_Padded")


def _native_uchar(unit, ctype, model, ob):
    from dv.nativepy import call_helper
    bits = {"int": 32, "long": 64, "short": 16, "unsigned int": 32}[ctype]
    signed = not ctype.startswith("unsigned")
    lo, hi = (-(1 << (bits - 1)), (1 << (bits - 1)) - 1) if signed else (0, (1 << bits) - 1)
    values = [v for v in (0, 65, 0xff, 0x100, 0xd800, 0xffff, 0x10000, 0x10ffff, 0x110000, 0x1fffff, 0x200000, 0x200041, hi, lo, -1,
                          (1 << 32) + 65, (1 << 40), (1 << 21) + 0x10ffff) if lo <= v <= hi]
    cases = [(v, w, p) for v in values for w in (0, 1, 2, 10) for p in (32, 48)]
    if model and all(k in model for k in ("value", "width", "padding_char")):
        m = (int(model["value"]), int(model["width"]), int(model["padding_char"]))
        if m[1] <= 10 ** 6 and 0 < m[2] < 128:
            cases.insert(0, m)
    out = call_helper(unit._tu_text, unit.fname, [ctype, "Py_ssize_t", "char"], cases, defines=unit.defines)
    if "results" not in out:
        return {"confirmed": False, "note": str(out)[:400]}
    how = ("the helper from the generated module, built with clang -fsanitize=address,undefined, called inside CPython 3.12 via ctypes; "
           "expected = CPython's format(value, '<pad><width>c')")
    for c, r in zip(cases, out["results"]):
        spec = ("0" if c[2] == 48 else "") + (str(c[1]) if c[1] > 0 else "") + "c"
        if c[2] not in (32, 48):
            continue
        try:
            want = ["ok", format(c[0], spec)]
        except Exception as ex:
            want = ["exc", type(ex).__name__]
        if r != want:
            return {"inputs": dict(value=c[0], width=c[1], padding_char=c[2]), "actual": str(r)[:80], "expected": str(want)[:80],
                    "confirmed": True, "how": how, "obligation": getattr(ob, "name", None)}
    if out["crash"]:
        c = out["crash"]["case"]
        return {"inputs": dict(zip(("value", "width", "padding_char"), c or ())), "actual": out["crash"]["report"], "expected": "no sanitizer report",
                "confirmed": True, "how": how, "obligation": getattr(ob, "name", None)}
    return {"confirmed": False, "tried": len(cases)}


def _native_padded(unit, model, ob):
    """real helper (from the same generated text) under ASan+UBSan inside CPython 3.12, compared with the expected text"""
    from dv.nativepy import call_helper
    values = [0x41, 0x7f, 0x80, 0xff, 0x100, 0x7ff, 0x800, 0xd7ff, 0xd800, 0xdfff, 0xe000, 0xffff, 0x10000, 0x10ffff]
    widths = [2, 3, 17, 249, 250, 251, 252, 253, 254, 255, 256, 257, 258, 300, 1000]
    cases = [(v, w, p) for v in values for w in widths for p in (32, 48)]
    if model and all(k in model for k in ("value", "ulength", "padding_char")):
        m = (int(model["value"]), int(model["ulength"]), int(model["padding_char"]))
        if 2 <= m[1] <= 10 ** 6 and 0 <= m[0] <= 0x10FFFF and 0 < m[2] < 128:
            cases.insert(0, m)
    out = call_helper(unit._tu_text, unit.fname, ["int", "Py_ssize_t", "char"], cases, defines=unit.defines)
    if "results" not in out:
        return {"confirmed": False, "note": str(out)[:400]}
    how = "the helper from the generated module, built with clang -fsanitize=address,undefined, called inside CPython 3.12 via ctypes"
    for c, r in zip(cases, out["results"]):
        want = chr(c[2]) * (c[1] - 1) + chr(c[0])
        if r != ["ok", want]:
            return {"inputs": dict(value=c[0], ulength=c[1], padding_char=c[2]), "actual": str(r)[:80], "expected": want[-12:],
                    "confirmed": True, "how": how, "obligation": getattr(ob, "name", None)}
    if out["crash"]:
        c = out["crash"]["case"]
        return {"inputs": dict(zip(("value", "ulength", "padding_char"), c or ())), "actual": out["crash"]["report"], "expected": "no sanitizer report",
                "confirmed": True, "how": how, "obligation": getattr(ob, "name", None)}
    return {"confirmed": False, "tried": len(cases)}


def build_callee(ascii_pre=True):
    def pre(ex, st, args, n):
        ulength, chars, clength, prepend_sign, padding_char = args
        k = z3.Int("k!bpre")
        arr0 = st.mem[chars.obj]
        return [("0 <= clength <= ulength", z3.And(clength.t >= 0, clength.t <= ulength.t)),
                ("chars[0..clength) is ASCII", z3.ForAll([k], z3.Implies(z3.And(k >= chars.off, k < chars.off + clength.t),
                                                                         z3.And(z3.Select(arr0, k) >= 0, z3.Select(arr0, k) <= 127)))),
                ("sign only into padding room", z3.Implies(prepend_sign.t != 0, ulength.t > clength.t)),
                ("padding_char is ASCII", z3.And(padding_char.t >= 0, padding_char.t <= 127)),
                ("chars[0..clength) readable", z3.And(chars.off >= 0, chars.off + clength.t <= st.objs[chars.obj].length))]

    def post(ex, st, args, n, r):
        ulength, chars, clength, prepend_sign, padding_char = args
        uoff = ulength.t - clength.t
        i = z3.Int("i!bc")
        arr = st.mem[chars.obj]
        lam = z3.Lambda([i], z3.If(i >= uoff, z3.Select(arr, i - uoff + chars.off),
                                   z3.If(z3.And(prepend_sign.t != 0, i == 0), z3.IntVal(45), padding_char.t)))
        return z3.And(S.is_str(r.off), S.kind(r.off) == 1, S.slen(r.off) == ulength.t, S.cps(r.off) == lam)
    return StrCallee(pre, post)


class StrCallee:
    """callee contract returning a fresh str object: assert pre, assume post"""

    def __init__(self, pre, post, name="BuildFromAscii"):
        self.pre, self.post, self.name = pre, post, name

    def apply(self, ex, st, args, n):
        for label, f in self.pre(ex, st, args, n):
            ex.oblige(st, "pre", "%s.%s" % (self.name, label), f, n)
        r = ex.new_str(st, None, "built")
        st.path.append(self.post(ex, st, args, n, r))
        return r


def side_checks(prop, tier, seed, kf_entries):
    """spec validation: the dual-mode text spec (fmt_len / fmt_char) and the UTF-8 spec, executed natively, against CPython"""
    import random
    rnd = random.Random(seed + 18)
    out = []
    bad, n, first = 0, 0, None
    for fch, (base, upper) in BASES.items():
        vals = [0, 1, -1, 9, 10, -10, 255, -255, 2 ** 31 - 1, -2 ** 31, 2 ** 63 - 1, -2 ** 63] + [rnd.randint(-2 ** 63, 2 ** 63 - 1) for _ in range(60)] \
            + [rnd.randint(-1000, 1000) for _ in range(40)]
        maxd = {10: 20, 8: 22, 16: 16}[base] + 1
        for v in vals:
            for w in (0, 1, 3, 8, 25):
                for pad in (32, 48):
                    want = format(v, ("0" if pad == 48 else "") + (str(w) if w else "") + fch)
                    total = fmt_len(v, w, base, maxd)[0]
                    got = "".join(chr(fmt_char(v, w, pad, base, upper, i, maxd)) for i in range(total))
                    n += 1
                    if got != want:
                        bad += 1
                        first = first or (v, w, pad, fch, got, want)
    out.append({"kind": "spec-validation", "name": "fmt_len/fmt_char transcription vs CPython format()", "cases": n, "disagree": bad})
    if bad:
        out.append({"kind": "side-check-failure", "name": "fmt-spec-validation", "text": repr(first)})
    ubad = 0
    cps = list(range(0, 0x900)) + [0xd7ff, 0xe000, 0xffff, 0x10000, 0x10ffff] + [rnd.randint(0x800, 0x10ffff) for _ in range(3000)]
    cps = [c for c in cps if not 0xd800 <= c <= 0xdfff]
    for c in cps:
        if bytes(S.utf8_native(c)) != chr(c).encode("utf-8"):
            ubad += 1
    out.append({"kind": "spec-validation", "name": "RFC 3629 encoder transcription vs str.encode('utf-8')", "cases": len(cps), "disagree": ubad})
    if ubad:
        out.append({"kind": "side-check-failure", "name": "utf8-spec-validation", "text": "%d code points disagree" % ubad})
    out.extend(_bounded_parse_format())
    return out


def _bounded_parse_format():
    """BOUNDED stand-in (labelled bounded, not counted as proved) for PyrexTypes.CIntLike._parse_format, the function that decides
    which format specs of an f-string field on a C integer go to the C helpers proved above, and with which (type, width, padding):
    it works on text with lstrip / isdecimal / int(), which the Python front end does not model.  Exhaustive over every spec of
    length <= 4 over a 24-character alphabet: whenever the spec is accepted, CPython's format(v, spec) must exist and equal
    format(v, '<0 if padding is 0><width><type>') - the text the helper is proved to produce - for a set of values of both signs."""
    import itertools
    from dv.pyunit import load_source_module
    mod = load_source_module("Cython/Compiler/PyrexTypes.py", "dvsubject_PyrexTypes")
    parse = mod.CIntLike._parse_format
    alphabet = "0159>-<^=+ #_,.cdoxXbne%"
    values = (-255, -5, -1, 0, 5, 65, 255, 4660)
    n = bad = 0
    first = None
    for ln in range(0, 5):
        for tup in itertools.product(alphabet, repeat=ln):
            spec = "".join(tup)
            n += 1
            try:
                ftype, width, padding = parse(spec)
            except Exception as ex:
                bad += 1
                first = first or (spec, "raised %r" % ex)
                continue
            if ftype is None:
                continue                      # refused: the generic format() call is made at run time (always right)
            meaning = ("0" if padding == "0" else "") + (str(width) if width else "") + ftype
            for v in values:
                if ftype == "c" and v < 0:
                    continue
                try:
                    want = format(v, spec)
                except ValueError:
                    want = "<ValueError>"
                if format(v, meaning) != want:
                    bad += 1
                    first = first or (spec, (ftype, width, padding), v, format(v, meaning), want)
                    break
    res = [{"kind": "bounded-check", "name": "CIntLike._parse_format: every spec of length <= 4 over %d characters; accepted specs must mean what the C helper computes" % len(alphabet),
            "level": "bounded (not proved)", "cases": n, "disagree": bad, "first": first}]
    if bad:
        res.append({"kind": "bounded-violation", "name": "parse_format", "text": "spec %r is accepted as %r: %r" % (first[0], first[1], first[2:])})
    return res


REGIONS = {}
