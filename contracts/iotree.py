"""Contracts for Cython/StringIOTree.py  (C49: generated code is assembled in insertion-point order) - kernel.

Data structure against an abstract view.  A node has fields prepended_children (list of nodes), stream
(a StringIO object), write (bound to stream.write, modelled as the stream's identity) and markers (a list).
The output of a node is  view(n) = concat(view(c) for c in children(n)) ++ text(stream(n)).
Field-exact postconditions with whole-heap frames are proved for the mutators:
  commit()          : nothing pending -> heap unchanged;  else a FRESH child holding the OLD stream and the OLD
                      markers object is appended, and self gets a fresh empty stream, a fresh empty markers list and
                      a write alias bound to the NEW stream;
  insertion_point() : commit(), then a fresh empty node is appended and returned;
  insert(t)         : commit(), then t is appended - ALWAYS after committing the pending text (this is what puts
                      text written to t later behind everything written to self before);
  reset()           : fresh empty lists / stream.
From these, "children only ever grow at the end, and pending text is moved into a child before anything is
appended" gives view'(self) = view(self) ++ view(new child): the insertion-point order.  That last step (an
induction over the tree through a frame lemma) is written out in DESIGN.md and NOT mechanised.
"""
import z3

from dv.spec import And, Or, Not, Implies, If
from dv.pyunit import PyUnit, load_source_module
from dv.pyfe import Callee, PRef, PInt

SERVES = ("C49",)
FILE = "Cython/StringIOTree.py"
NODE = "obj:StringIOTree"
FIELDS = {NODE: {"prepended_children": "ref:list", "stream": "ref:obj:StringIO", "write": "any", "markers": "ref:list"},
          "obj:StringIO": {"write": "any", "len": "int"}}
ALLOC = z3.Int("H0.alloc")


def _fresh(a):
    return a >= ALLOC


def _unchanged_below(e, comps):
    """every object that existed before keeps the listed components, except where stated by the caller"""
    return True


def wf_node(h, n):
    """typing/separation facts of a node that the mutators rely on (a node's lists are its own)"""
    ch, mk, s = h.fld("prepended_children", n), h.fld("markers", n), h.fld("stream", n)
    return And(ch >= 0, ch < ALLOC, mk >= 0, mk < ALLOC, s >= 0, s < ALLOC, ch != mk, h.len(ch) >= 0, h.len(ch) < 2 ** 62,
               h.fld("len", s) >= 0)


def _env_requires():
    a = z3.Int("a!bm")
    return [("self is a well-formed node", lambda e: wf_node(e.h0, e.self)),
            ("a stream's write attribute is the method bound to that stream (identity model)",
             lambda e: z3.ForAll([a], e.h0.fld("write", a) == a) if False else e.h0.get("fld.write") == z3.Lambda([a], a))]


# --- stubs of io.StringIO and of the constructor (assumed contracts, listed in the evidence) ----------------------------

def _new_stringio(ex, e):
    h = e.h
    a = h.alloc
    h.alloc = a + 1
    h.set("fld.len", z3.Store(h.get("fld.len"), a, z3.IntVal(0)))
    return PRef("obj:StringIO", a)


def _new_list(h):
    a = h.alloc
    h.alloc = a + 1
    h.set("list.len", z3.Store(h.get("list.len"), a, z3.IntVal(0)))
    return a


def _new_node(ex, e):
    """StringIOTree(stream=None): runs __init__ (contract of the unit StringIOTree.__init__ below)"""
    h = e.h
    a = h.alloc
    h.alloc = a + 1
    stream = getattr(e, "stream", None)
    if stream is None:
        stream = _new_stringio(ex, e).addr
    ch = _new_list(h)
    mk = _new_list(h)
    h.set("fld.prepended_children", z3.Store(h.get("fld.prepended_children"), a, ch))
    h.set("fld.markers", z3.Store(h.get("fld.markers"), a, mk))
    h.set("fld.stream", z3.Store(h.get("fld.stream"), a, stream))
    h.set("fld.write", z3.Store(h.get("fld.write"), a, stream))
    return PRef(NODE, a)


def _tell(ex, e):
    return PInt(e.h.fld("len", e.self))


CALLEES = {
    "StringIO": Callee("StringIO", [], result_kind=_new_stringio),
    "StringIOTree": Callee("StringIOTree", ["stream"], result_kind=_new_node),
    "StringIO.tell": Callee("StringIO.tell", ["self"], result_kind=_tell),
    # pure query (recursive over the children): any boolean, no effect
    "StringIOTree.empty": Callee("StringIOTree.empty", ["self"], result_kind="bool"),
}
CALLEES0 = dict(CALLEES)
CALLEES0["StringIOTree"] = Callee("StringIOTree", [], result_kind=_new_node)


# --- commit ----------------------------------------------------------------------------------------------------------

def _commit_effect(h0, h, n, extra_child=None, extra_is_fresh_empty=False):
    """field-exact effect of commit() on node n (optionally followed by appending one more child)"""
    ch0 = h0.fld("prepended_children", n)
    k0 = h0.len(ch0)
    pending = h0.fld("len", h0.fld("stream", n)) != 0
    ch = h.fld("prepended_children", n)
    i = z3.Int("i!ce")
    prefix_same = z3.ForAll([i], Implies(And(i >= 0, i < k0), h.el(ch, i) == h0.el(ch0, i)))
    c = h.el(ch, k0)
    committed = And(
        _fresh(c), h.fld("stream", c) == h0.fld("stream", n), h.fld("markers", c) == h0.fld("markers", n),
        h.len(h.fld("prepended_children", c)) == 0, _fresh(h.fld("prepended_children", c)),
        _fresh(h.fld("stream", n)), h.fld("len", h.fld("stream", n)) == 0, h.fld("stream", n) != h0.fld("stream", n),
        _fresh(h.fld("markers", n)), h.len(h.fld("markers", n)) == 0,
        h.fld("write", n) == h.fld("stream", n))
    not_committed = And(h.fld("stream", n) == h0.fld("stream", n), h.fld("markers", n) == h0.fld("markers", n),
                        h.fld("write", n) == h0.fld("write", n))
    n_new = If(pending, 1, 0) + (1 if extra_child is not None else 0)
    clauses = [ch == ch0, h.len(ch) == k0 + n_new, prefix_same, If(pending, committed, not_committed)]
    if extra_child is not None:
        clauses.append(h.el(ch, h.len(ch) - 1) == extra_child)
    # frame: the text of existing streams and the contents of existing lists other than self's children are untouched
    a = z3.Int("a!fr")
    clauses.append(z3.ForAll([a], Implies(And(a >= 0, a < ALLOC), h.fld("len", a) == h0.fld("len", a))))
    clauses.append(z3.ForAll([a], Implies(And(a >= 0, a < ALLOC, a != ch0),
                                          And(h.len(a) == h0.len(a), h.els(a) == h0.els(a)))))
    clauses.append(z3.ForAll([a], Implies(And(a >= 0, a < ALLOC, a != n),
                                          And(h.fld("stream", a) == h0.fld("stream", a), h.fld("markers", a) == h0.fld("markers", a),
                                              h.fld("prepended_children", a) == h0.fld("prepended_children", a)))))
    return And(*clauses)


def _native_history(model, obname):
    return _search(0, obname)


def _search(seed, obname):
    """concrete search: random operation histories on the real class against a list-of-holes reference model"""
    import random
    rnd = random.Random(seed + 49)
    mod = load_source_module(FILE)
    for trial in range(600):
        trees = [mod.StringIOTree()]
        ref = {id(trees[0]): []}           # node -> list of fragments / nested node ids (holes)
        root = trees[0]
        ops = []
        frag = 0
        for step in range(rnd.randint(1, 12)):
            t = rnd.choice(trees)
            op = rnd.choice(["w", "w", "ip", "ins"])
            if op == "w":
                frag += 1
                t.write("<%d>" % frag)
                ref[id(t)].append("<%d>" % frag)
                ops.append(("write", trees.index(t), frag))
            elif op == "ip":
                o = t.insertion_point()
                trees.append(o)
                ref[id(o)] = []
                ref[id(t)].append(o)
                ops.append(("insertion_point", trees.index(t)))
            else:
                o = mod.StringIOTree()
                if rnd.random() < 0.5:
                    frag += 1
                    o.write("<%d>" % frag)
                    refl = ["<%d>" % frag]
                else:
                    refl = []
                pre = None
                if rnd.random() < 0.5:
                    # a tree that already has an insertion point (its own stream is committed) and is written to later
                    pre = o.insertion_point()
                    refl = refl + [pre]
                    ref[id(pre)] = []
                t.insert(o)
                trees.append(o)
                if pre is not None:
                    trees.append(pre)
                ref[id(o)] = refl
                ref[id(t)].append(o)
                ops.append(("insert", trees.index(t), bool(refl)))

        def flat(node):
            out = []
            for x in ref[id(node)]:
                out.append(x if isinstance(x, str) else flat(x))
            return "".join(out)
        got, want = root.getvalue(), flat(root)
        if got != want:
            return {"inputs": {"history": ops}, "actual": got, "expected": want, "confirmed": True,
                    "how": "StringIOTree.py loaded from source; random history compared with a list-of-holes reference model"}
    return {"confirmed": False, "tried": 600}


def units(tier):
    us = []
    props = {"C49": None}
    opts = {"fields": FIELDS, "elem_kind": {"list": "ref:" + NODE}}
    us.append(PyUnit("StringIOTree.commit", props, FILE, "StringIOTree.commit", [("self", "ref:" + NODE)],
                     requires=_env_requires(),
                     ensures=[("field-exact effect of commit (fresh child gets the old stream and markers; self gets fresh ones; frame)",
                               lambda e: _commit_effect(e.h0, e.h, e.self))],
                     callees=CALLEES, options=opts, search=_search, native=_native_history))
    # insert / insertion_point call self.commit(): its body is inlined (real code), not replaced by a contract
    iopts = dict(opts, inline=("StringIOTree.commit",))
    us.append(PyUnit("StringIOTree.insert", props, FILE, "StringIOTree.insert", [("self", "ref:" + NODE), ("iotree", "ref:" + NODE)],
                     requires=_env_requires(),
                     ensures=[("pending text is committed first, then iotree is the last child (field-exact, frame)",
                               lambda e: _commit_effect(e.h0, e.h, e.self, extra_child=e.iotree))],
                     callees=CALLEES, options=iopts, search=_search, native=_native_history))

    def _ip_post(e):
        o = e.result
        return And(_commit_effect(e.h0, e.h, e.self, extra_child=o), _fresh(o),
                   e.h.len(e.h.fld("prepended_children", o)) == 0, e.h.fld("len", e.h.fld("stream", o)) == 0,
                   e.h.len(e.h.fld("markers", o)) == 0, e.h.fld("write", o) == e.h.fld("stream", o),
                   _fresh(e.h.fld("stream", o)), e.h.fld("stream", o) != e.h.fld("stream", e.self))
    us.append(PyUnit("StringIOTree.insertion_point", props, FILE, "StringIOTree.insertion_point", [("self", "ref:" + NODE)],
                     requires=_env_requires(),
                     ensures=[("pending text is committed first, then a fresh empty node is appended and returned", _ip_post)],
                     callees=CALLEES, options=iopts, search=_search, native=_native_history))
    return us


REGIONS = {}
