"""Contract for the C-array route of loops over a display (C14), Optimize.IterationTransform._try_optimise_array_iteration.

`for x in (a, b, c)` / `[a, b, c]` over items of one C type is turned into a loop over a C array built from the display's ITEMS.
A display may carry a repeat factor - `(1.5, 2.5) * 3` is ONE node with `mult_factor = 3` -, and the array is built from
`iterable.args` alone.  From the statement ("run the same iterations in the same order as CPython"): the array route may be taken
only for a display without a repeat factor (the array stands for the whole sequence).
Subject: the `if iterable.is_sequence_constructor:` statement (fragment located on every run).  The call of
`_transform_carray_iteration` enters by a contract whose PRECONDITION is that condition; the node constructors and type functions
are stubs; `any(<generator>)` is an arbitrary boolean.  Not covered: the item-type unification of `infer_sequence_item_type`
(recorded probe finding), the other branches of the function.
"""
import z3

from dv.spec import And, Or, Not, Implies, If
from dv.pyunit import PyUnit
from dv.pyfe import Callee, NONE_ADDR

SERVES = ("C14",)
FILE = "Cython/Compiler/Optimize.py"
FIELDS = {"obj:Node": {"is_sequence_constructor": "bool", "type": "ref:obj:Type", "args": "ref:list", "pos": "any", "mult_factor": "opt:obj:Node",
                       "is_starred": "bool"},
          "obj:Type": {"is_pyobject": "bool", "is_const": "bool"}}
ITER0 = z3.Int("iterable")          # the display the loop iterates (the fragment's own parameter)


def _stub(name, params, kind="none", requires=None, ensures=None):
    return Callee(name, params, result_kind=kind, requires=requires or [], ensures=ensures or [])


def _callees():
    from dv.pyfe import POpt, PRef
    c = {
        "ExprNodes.infer_sequence_item_type": Callee("ExprNodes.infer_sequence_item_type", ["env", "seq_node", "index_node", "seq_type"],
                                                     result_kind=lambda ex, e: POpt(z3.Int("ghost.item_type") == NONE_ADDR, PRef("obj:Type", z3.Int("ghost.item_type")))),
        "PyrexTypes.c_const_type": _stub("PyrexTypes.c_const_type", ["base"], "ref:obj:Type"),
        "PyrexTypes.c_array_type": _stub("PyrexTypes.c_array_type", ["base", "size"], "ref:obj:Type"),
        "ExprNodes.ListNode": _stub("ExprNodes.ListNode", ["pos", "args"], "ref:obj:Node"),
        "Node.analyse_types": _stub("Node.analyse_types", ["self", "env"], "ref:obj:Node"),
        "Node.coerce_to": _stub("Node.coerce_to", ["self", "dst_type", "env"], "ref:obj:Node"),
        "Transform._transform_carray_iteration": _stub(
            "Transform._transform_carray_iteration", ["self", "node", "slice_node", "reversed"], "ref:obj:Node",
            requires=[("the C array built from the display's items stands for the WHOLE sequence: the display has no repeat factor",
                       lambda e: e.h0.fld("mult_factor", ITER0) == NONE_ADDR)]),
    }
    c["ExprNodes.infer_sequence_item_type"].none_defaults = True
    return c


def _native(model, obname):
    import os
    import subprocess
    from dv import cextract
    src = ("# cython: language_level=3\n"
           "def rep3():\n    return [x for x in (1.5, 2.5) * 3]\n"
           "def rep_left():\n    return [x for x in 2 * [1, 2]]\n"
           "def rep_var(int k):\n    l = []\n    for x in (1.5, 2.5) * k:\n        l.append(x)\n    return l\n"
           "def plain():\n    return [x for x in (1.5, 2.5)]\n")
    try:
        ctext, cfile = cextract.compile_pyx(src, name="dvarrayiter")
    except Exception as ex:
        return {"confirmed": False, "note": "compile failed: %r" % ex}
    d = os.path.dirname(cfile)
    p = subprocess.run(["clang", "-shared", "-fPIC", "-O0", "-w", "-I" + cextract.PY_INCLUDE, cfile, "-o", os.path.join(d, "dvarrayiter.so")],
                       capture_output=True, text=True)
    if p.returncode != 0:
        return {"confirmed": False, "note": "build failed " + p.stderr[-300:]}
    code = ("import sys; sys.path.insert(0, %r); import dvarrayiter as m\n"
            "bad = [(n, got, want) for n, got, want in (('(1.5, 2.5) * 3', m.rep3(), [1.5, 2.5] * 3), ('2 * [1, 2]', m.rep_left(), [1, 2, 1, 2]), "
            "('(1.5, 2.5) * k, k = 4', m.rep_var(4), [1.5, 2.5] * 4), ('(1.5, 2.5)', m.plain(), [1.5, 2.5])) if got != want]\nprint(bad)\n" % d)
    r = subprocess.run(["/venv/bin/python", "-c", code], capture_output=True, text=True, timeout=120)
    out = r.stdout.strip() if r.returncode >= 0 else "crashed with signal %d" % -r.returncode
    return {"inputs": "loops over (1.5, 2.5) * 3, 2 * [1, 2], (1.5, 2.5) * k and the plain display", "actual": (out or r.stderr[-300:])[:500],
            "expected": "CPython's items", "confirmed": out != "[]", "obligation": obname,
            "how": "module compiled by the working-tree compiler; items compared with CPython's"}


def units(tier):
    u = PyUnit("Optimize.IterationTransform._try_optimise_array_iteration[display]", {"C14": None}, FILE,
               "IterationTransform._try_optimise_array_iteration",
               [("self", "ref:obj:Transform"), ("node", "ref:obj:Node"), ("iterable", "ref:obj:Node"), ("env", "any"), ("reversed", "bool")],
               requires=[("the display's items form a list", lambda e: e.h0.len(e.h0.fld("args", e.iterable)) >= 0)],
               ensures=[("(the obligation is the precondition of the array route at its call)", lambda e: z3.BoolVal(True))],
               callees=_callees(), native=_native, search=lambda seed, ob: _native({}, ob),
               options={"fields": FIELDS, "merge": False, "modules": {"PyrexTypes": "obj:Type", "ExprNodes": "obj:Class"},
                        "fragment": {"start": r"^if iterable\.is_sequence_constructor", "end": r"^if iterable\.is_sequence_constructor"}},
               subject={"fragment": "the `if iterable.is_sequence_constructor:` statement (C-array route for displays)"})
    return [u]


REGIONS = {}
