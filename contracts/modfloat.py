"""Contract for CMath.c::ModFloat (C06: C double arithmetic matches CPython; also the float half of C03).

Spec: CPython's float_rem (Objects/floatobject.c), transcribed once (dual mode: z3 Float64 / native floats):
    mod = fmod(a, b);  if mod != 0: if (b < 0) != (mod < 0): mod += b   else: mod = copysign(0.0, b)
with the SAME uninterpreted `fmod` symbol as the subject, constrained by the C11 clauses (finite x, finite
y != 0: result finite, sign of x, |r| < |y|).  Postcondition: result is bit-identical to float_rem(a, b) up to
NaN payload - so the sign of a zero remainder is decided, not glossed over.
"""
import math
import z3

from dv.spec import And, Or, Not, Implies
from dv.cunit import CUnit
from dv import cextract

SERVES = ("C06", "C03")
RNE = z3.RNE()


def _pt(tname):
    cextract.ensure_repo_on_path()
    from Cython.Compiler import PyrexTypes
    return getattr(PyrexTypes, tname)


def _tu(tname):
    def tu():
        t = _pt(tname)
        text = cextract.template_tu("#include <math.h>\n" + cextract.load_utility(
            "ModFloat", "CMath.c", specialize_type=t, extra=dict(math_h_modifier=t.math_h_modifier)))
        return text, "template route: UtilityCode.load('ModFloat', 'CMath.c').specialize(%s, math_h_modifier=%r) as ModNode does" % (tname, t.math_h_modifier)
    return tu


def float_rem_z3(a, b, bits):
    srt = z3.Float64() if bits == 64 else z3.Float32()
    fmod = z3.Function("fmod%d" % bits, srt, srt, srt)
    mod = fmod(a, b)
    zero = z3.FPVal(0.0, srt)
    adjusted = z3.If(z3.fpLT(b, zero) != z3.fpLT(mod, zero), z3.fpAdd(RNE, mod, b), mod)
    signed_zero = z3.If(z3.fpIsNegative(b), z3.FPVal(-0.0, srt), zero)
    return z3.If(z3.Not(z3.fpIsZero(mod)), adjusted, signed_zero)


def _cases(a, b, bits):
    srt = z3.Float64() if bits == 64 else z3.Float32()
    mod = z3.Function("fmod%d" % bits, srt, srt, srt)(a, b)
    zero = z3.FPVal(0.0, srt)
    differs = z3.fpLT(b, zero) != z3.fpLT(mod, zero)
    return [z3.fpIsZero(mod), z3.And(z3.Not(z3.fpIsZero(mod)), differs), z3.And(z3.Not(z3.fpIsZero(mod)), z3.Not(differs))]


def float_rem_native(a, b):
    mod = math.fmod(a, b)
    if mod:
        if (b < 0) != (mod < 0):
            mod += b
    else:
        mod = math.copysign(0.0, b)
    return mod


def _finite(x):
    return And(Not(z3.fpIsNaN(x)), Not(z3.fpIsInf(x)))


def units(tier):
    us = []
    for tname, bits in (("c_double_type", 64),) + ((("c_float_type", 32),) if tier != "quick" else ()):
        t = _pt(tname)
        u = CUnit("CMath.ModFloat[%s]" % tname, {"C06": None, "C03": None}, "__Pyx_mod_%s" % t.specialization_name(), _tu(tname),
                  requires=[("b != 0 (a zero divisor raises ZeroDivisionError before the helper is called); infinities and NaNs included",
                             lambda e: Not(z3.fpIsZero(e.b))),
                            ("b_is_constant is 0/1", lambda e: Or(e.b_is_constant == 0, e.b_is_constant == 1))],
                  # one postcondition, stated as three exhaustive cases on fmod's result (zero / sign differs from b's / same sign):
                  # the single equality took z3 40 s (and went `unknown` on a loaded machine), the cases take 4 s together
                  ensures=[("result is bit-identical (up to NaN payload) to CPython's float_rem(a, b) [%s]" % label,
                            (lambda bits, k: lambda e: Implies(_cases(e.a, e.b, bits)[k], e.result == float_rem_z3(e.a, e.b, bits)))(bits, k))
                           for k, label in enumerate(("fmod is zero", "fmod's sign differs from the divisor's", "fmod has the divisor's sign"))],
                  subject={"file": "Cython/Utility/CMath.c", "template": "ModFloat", "instantiation": tname})
        u.concrete_search = (lambda bits, u=u: lambda ob, regions=(): _search(u, bits))(bits)
        u.replay = (lambda bits, u=u: lambda model, ob=None: _search(u, bits, model))(bits)
        us.append(u)
    return us


def _search(unit, bits, model=None):
    """native run of the instantiated template on special values x small grid, compared with float.__mod__"""
    import struct
    import subprocess
    text, _ = unit.tu()
    ctype = "double" if bits == 64 else "float"
    harness = ("\n#include <stdio.h>\nint main(void) { double a, b; while (scanf(\"%%la %%la\", &a, &b) == 2) { "
               "double r = (double) %s((%s) a, (%s) b, 0); printf(\"%%a\\n\", r); } return 0; }\n" % (unit.fname, ctype, ctype))
    cfile = cextract.write_tu(text + harness, "modfloat.c")
    exe = cfile[:-2] + ".bin"
    p = subprocess.run(["clang", "-O0", "-w", "-I" + cextract.PY_INCLUDE, cfile, "-o", exe, "-lm"], capture_output=True, text=True)
    if p.returncode != 0:
        return {"confirmed": False, "note": "build failed " + p.stderr[-300:]}
    vals = [0.0, -0.0, 1.0, -1.0, 2.5, -2.5, 3.0, -3.0, 0.5, -0.5, 7.25, -7.25, 1e300, -1e300, 5e-324, -5e-324, 1e-5, -1e-5]
    if model and "a" in model and "b" in model:
        vals = [float(model["a"]), float(model["b"])] + vals
    vals += [math.inf, -math.inf, math.nan]
    cases = [(a, b) for a in vals for b in vals if b != 0]
    if bits == 32:
        f32 = lambda v: struct.unpack("f", struct.pack("f", v))[0]  # noqa: E731
        cases = [(f32(a), f32(b)) for a, b in cases if abs(a) < 1e38 and abs(b) < 1e38 and f32(b) != 0]
    inp = "".join("%s %s\n" % (a.hex(), b.hex()) for a, b in cases)
    r = subprocess.run([exe], input=inp, capture_output=True, text=True, timeout=60)
    outs = [float.fromhex(x) for x in r.stdout.split()]
    for (a, b), got in zip(cases, outs):
        want = a % b if bits == 64 else None
        if bits == 32:
            continue
        same = (got == want and math.copysign(1, got) == math.copysign(1, want)) or (got != got and want != want)
        if not same:
            return {"inputs": {"a": a, "b": b}, "actual": got.hex(), "expected": want.hex(), "confirmed": True,
                    "how": "instantiated ModFloat template compiled with clang and run natively; compared with CPython's float.__mod__ "
                           "including the sign of zero"}
    return {"confirmed": False, "tried": len(cases)}


def side_checks(prop, tier, seed, kf_entries):
    """spec validation: the float_rem transcription against float.__mod__ on special values and random pairs"""
    import random
    rnd = random.Random(seed + 6)
    vals = [0.0, -0.0, 1.0, -1.0, 2.5, -2.5, 1e300, -1e300, 5e-324, 3.0, -3.0, 0.1, -0.1]
    pairs = [(a, b) for a in vals for b in vals if b != 0] + [(rnd.uniform(-100, 100), rnd.uniform(-100, 100) or 1.0) for _ in range(2000)]
    bad = 0
    first = None
    for a, b in pairs:
        w, g = a % b, float_rem_native(a, b)
        if not (w == g and math.copysign(1, w) == math.copysign(1, g)):
            bad += 1
            first = first or (a, b, w, g)
    out = [{"kind": "spec-validation", "name": "float_rem transcription vs float.__mod__ (incl. zero signs)", "cases": len(pairs), "disagree": bad}]
    if bad:
        out.append({"kind": "side-check-failure", "name": "float_rem-spec-validation", "text": repr(first)})
    return out


REGIONS = {}
