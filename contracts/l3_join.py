"""L3 unit for C18: the `max_char` an f-string join is given (ExprNodes.JoinedStrNode.generate_evaluation_code).

Subject: the C function the working-tree compiler emits for
    cdef str j3c(int x): return f"a{x:3c}b"        j_c (f"a{x:c}b"),   j_d (f"a{x:5d}b")
`__Pyx_PyUnicode_Join(values, count, length, kind)` allocates PyUnicode_New(length, max_char[kind]) and copies the parts into it:
every part's largest code point must be <= max_char[kind], else characters are truncated or a str flagged ASCII receives non-ASCII
bytes.  A field formatted with the presentation type `c` - with or without a width - yields the character chr(x), i.e. a part
whose largest code point is x.  Contract of the call site: precondition of the join for all x (helpers by contract: the
formatted part's largest code point is max(x, 32) for a `c` format and below 128 otherwise; the literal parts of this catalogue
are ASCII).
"""
import z3

from dv.spec import And, Or, Not, Implies, If
from dv.l3 import L3Unit
from dv import pyobj as O
from dv import cextract

SERVES = ("C18",)
CATALOGUE = '''# cython: language_level=3
cdef str j3c(int x):
    return f"a{x:3c}b"

cdef str j_c(int x):
    return f"a{x:c}b"

cdef str j_d(int x):
    return f"a{x:5d}b"
'''
MAXCHAR = z3.Function("str_max_char", z3.IntSort(), z3.IntSort())
ULEN = z3.Function("str_length", z3.IntSort(), z3.IntSort())


class FromInt:
    """__Pyx____Pyx_PyUnicode_From_<T>(value, width, padding, format_char); the `uchar` variant (3 arguments) is the 'c' format."""
    def apply(self, ex, st, args, n):
        from dv.cfe import node_type
        v, fmt = args[0].t, (args[3].t if len(args) > 3 else z3.IntVal(99))
        r = ex.obj(st, node_type(n), "text")
        # 'c' (99): the character chr(v) plus padding; d/o/x/X: ASCII digits.  (values outside range(0x110000) raise: NULL is not modelled here)
        st.path.append(And(MAXCHAR(r.off) == If(fmt == 99, If(v > 32, v, 32), 120), ULEN(r.off) >= 1, ULEN(r.off) <= 2 ** 60))
        st.path.append(Implies(fmt == 99, And(v >= 0, v <= 0x10FFFF)))
        ex.assumptions.add("__Pyx_PyUnicode_From_<T>(v, width, padding, 'c') returns chr(v) padded (contracts/fmt.py): its largest code point is max(v, 32); "
                           "for d / o / x / X the text is ASCII; the error result for v outside range(0x110000) is left out")
        return r


class GetLength:
    def apply(self, ex, st, args, n):
        from dv.cfe import CV, node_type
        o = ex.oid(args[0])
        st.path.append(And(ULEN(o) >= 0, ULEN(o) <= 2 ** 60))        # an object's length is bounded by the address space
        return CV(node_type(n), ULEN(o))


def _kind04(m):
    """0 for an ASCII str, else its kind 1 / 2 / 4 (the narrowest representation holding its largest code point m: PEP 393)."""
    return If(m <= 127, 0, If(m <= 255, 1, If(m <= 65535, 2, 4)))


class Kind04:
    def apply(self, ex, st, args, n):
        from dv.cfe import CV, node_type
        o = ex.oid(args[0])
        ex.assumptions.add("__Pyx_PyUnicode_KIND_04(u) = 0 for an ASCII str, else PyUnicode_KIND(u); str objects are in canonical (narrowest) PEP 393 form")
        return CV(node_type(n), _kind04(MAXCHAR(o)))


class Join:
    """__Pyx_PyUnicode_Join(values, n, length, kind): PyUnicode_New(length, max_char[min(kind, 4)]) with max_char = {0x7f, 0xff, 0xffff, 0xffff, 0x10ffff}."""
    def apply(self, ex, st, args, n):
        from dv.cfe import node_type
        arr, count, kind = args[0], args[1].t, args[3].t
        mem = st.mem[arr.obj]
        k = If(kind > 4, 4, kind)
        cap = If(k == 0, 0x7f, If(k == 1, 0xff, If(k == 4, 0x10ffff, 0xffff)))
        ex.oblige(st, "pre", "Join.kind_is_not_negative", kind >= 0, n)
        for i in range(3):
            ex.oblige(st, "pre", "Join.part_%d_fits_max_char" % i, Implies(i < count, MAXCHAR(z3.Select(mem, arr.off + i)) <= cap), n)
        r = ex.obj(st, node_type(n), "joined")
        ex.assumptions.add("__Pyx_PyUnicode_Join(values, n, length, kind) allocates PyUnicode_New(length, max_char[kind]) and copies the parts into it: "
                           "it needs every part's largest code point <= max_char[min(kind, 4)]; its result is a new str")
        return r


def _native(model, ob=None):
    import os
    import subprocess
    text = CATALOGUE + "\ndef py_j3c(x): return j3c(x)\ndef py_j_c(x): return j_c(x)\ndef py_j_d(x): return j_d(x)\n"
    try:
        ctext, cfile = cextract.compile_pyx(text, name="dvjoinrep")
    except Exception as ex:
        return {"confirmed": False, "note": "compile failed: %r" % ex}
    d = os.path.dirname(cfile)
    p = subprocess.run(["clang", "-shared", "-fPIC", "-O0", "-w", "-DNDEBUG", "-I" + cextract.PY_INCLUDE, cfile, "-o", os.path.join(d, "dvjoinrep.so")],
                       capture_output=True, text=True)
    if p.returncode != 0:
        return {"confirmed": False, "note": "build failed " + p.stderr[-300:]}
    code = ("import sys; sys.path.insert(0, %r); import dvjoinrep as m\nbad = []\n"
            "for x in (65, 0x7f, 0x80, 0xe9, 0xff, 0x100, 0x3b1, 0x20ac, 0x1f600):\n"
            "    for got, want in ((m.py_j3c(x), f'a{x:3c}b'), (m.py_j_c(x), f'a{x:c}b'), (m.py_j_d(x), f'a{x:5d}b')):\n"
            "        if got != want or got.isascii() != want.isascii() or got.encode('utf-8', 'surrogatepass') != want.encode('utf-8', 'surrogatepass'): bad.append((hex(x), ascii(got), ascii(want)))\n"
            "print(bad[:3]); print(len(bad))\n" % d)
    r = subprocess.run(["/venv/bin/python", "-c", code], capture_output=True, text=True, timeout=120)
    out = r.stdout.strip().splitlines()
    return {"inputs": "f\"a{x:3c}b\", f\"a{x:c}b\", f\"a{x:5d}b\" for x = 65, 0x7f, 0x80, 0xe9, 0xff, 0x100, 0x3b1, 0x20ac, 0x1f600 (text, isascii() and UTF-8 bytes compared)",
            "actual": (r.stdout.strip() or r.stderr[-300:])[:400], "confirmed": len(out) == 2 and out[0] != "[]", "obligation": getattr(ob, "name", None),
            "how": "catalogue compiled by the working-tree compiler; results compared with CPython's f-strings"}


def units(tier):
    us = []
    callees = {"__Pyx_PyUnicode_Join": Join(), "__Pyx_PyUnicode_GET_LENGTH": GetLength(), "PyUnicode_GET_LENGTH": GetLength(),
               "__Pyx_PyUnicode_KIND_04": Kind04()}
    for t in ("int", "long", "unsigned_int"):
        callees["__Pyx_PyUnicode_From_" + t] = FromInt()
        callees["__Pyx____Pyx_PyUnicode_From_" + t] = FromInt()
        callees["__Pyx_uchar___Pyx_PyUnicode_From_" + t] = FromInt()
    o = z3.Int("o!const")
    for name in ("j3c", "j_c", "j_d"):
        u = L3Unit("L3join.%s" % name, {"C18": ["pre", "subset"]}, CATALOGUE, name, callees=callees,
                   requires=[("the literal parts of this catalogue ('a', 'b') are ASCII", lambda e: z3.ForAll([o], Implies(O.is_module_string_constant(o), MAXCHAR(o) <= 127)))],
                   ensures=[("(the obligations are the join's preconditions at the call site)", lambda e: z3.BoolVal(True))],
                   options={"merge": False},
                   subject={"mechanism": "ExprNodes.JoinedStrNode.generate_evaluation_code (which parts count for max_char)"})
        u.exec_cls = O.CExecPyObj
        u.replay = _native
        u.concrete_search = lambda ob, regions=(): _native({}, ob)
        us.append(u)
    return us


REGIONS = {}
