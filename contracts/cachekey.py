"""Contracts for the cache-key builders  (C48: compilation caches never return stale results).

CompilationOptions.get_fingerprint (Cython/Compiler/Options.py) decides which option values reach the
cythonize cache key.  The statement names what MUST cause a miss: "the language level, the compiler
directives or another output-affecting option".  Contract (data structure against an abstract view):
on return, for EVERY attribute k of the options object that is not in the exclusion list the
statement permits (verbosity, output paths, depfile, timestamps, cache, include/working/build dirs,
create_extension), the collected dict `data` holds data[k] == value_k - or the function has raised
NotImplementedError (capi_reexport_cincludes / common_utility_include_dir set).  Since the returned
string is to_fingerprint(data) (repr with sorted keys; assumed injective, listed), two option objects
differing in any such attribute get different fingerprints.
Strings are abstracted to interned identities (distinct constants <-> distinct ids), option values to
opaque identities; `for key, value in self.__dict__.items()` is an arbitrary-order loop with a ghost
`seen` set.
"""
import z3

from dv.spec import And, Or, Not, Implies
from dv.pyunit import PyUnit, load_source_module
from dv.pyfe import Callee, intern_id

SERVES = ("C48",)
FILE = "Cython/Compiler/Options.py"

# what the STATEMENT allows to be ignored (not what the code happens to ignore)
EXCLUDED_BY_STATEMENT = ["show_version", "errors_to_stderr", "verbose", "quiet", "output_file", "output_dir", "depfile",
                         "timestamps", "cache", "include_path", "working_path", "create_extension", "build_dir"]
RAISING = ["capi_reexport_cincludes", "common_utility_include_dir"]


def _excluded(k):
    return Or(*[k == intern_id(x) for x in EXCLUDED_BY_STATEMENT])


def _covered(h, d, data, k):
    """attribute k of the options object is in the collected data with its value"""
    return And(h.has(data, k), h.val(data, k) == h.val(d, k))


class _Inv:
    modifies_heap = ["dict.has", "dict.val"]

    def holds(self, ex, st, st0):
        h, h0 = st.heap, st0.heap
        d = h0.fld("__dict__", st0.vars["self"].addr)
        data = st.vars["data"].addr
        seen = st.vars["$seen0"].t
        k = z3.Int("k!inv")
        truthy = z3.Function("truthy", z3.IntSort(), z3.BoolSort())
        return [
            ("the options dict itself is not modified",
             And(z3.Select(h.get("dict.has"), d) == z3.Select(h0.get("dict.has"), d),
                 z3.Select(h.get("dict.val"), d) == z3.Select(h0.get("dict.val"), d), data != d)),
            ("every attribute visited so far that the statement does not exclude is in data with its value "
             "(the two raising options can only have been passed when falsy)",
             z3.ForAll([k], Implies(And(z3.Select(seen, k), h0.has(d, k), Not(_excluded(k))),
                                    Or(_covered(h, d, data, k),
                                       And(Or(*[k == intern_id(x) for x in RAISING]), Not(truthy(h0.val(d, k)))))))),
            ("data only ever holds attributes of the options object with their values",
             z3.ForAll([k], Implies(h.has(data, k), And(h0.has(d, k), h.val(data, k) == h0.val(d, k))))),
        ]


def _post(e):
    d = e.h0.fld("__dict__", e.self)
    data = e.vars["data"].addr
    k = z3.Int("k!post")
    truthy = z3.Function("truthy", z3.IntSort(), z3.BoolSort())
    return z3.ForAll([k], Implies(And(e.h0.has(d, k), Not(_excluded(k))),
                                  Or(_covered(e.h, d, data, k),
                                     And(Or(*[k == intern_id(x) for x in RAISING]), Not(truthy(e.h0.val(d, k)))))))


def _native(model, obname):
    """two option objects differing in exactly one attribute must not share a fingerprint"""
    return _search(0, obname)


def _search(seed, obname):
    mod = load_source_module(FILE, "dvsubject_Options")
    base = mod.CompilationOptions(mod.default_options)
    fp0 = base.get_fingerprint()
    candidates = {
        "language_level": 2, "cplus": True, "compiler_directives": {"cdivision": True}, "embedded_metadata": {"x": 1},
        "emit_linenums": True, "c_line_in_traceback": False, "gdb_debug": True, "np_pythran": True,
        "compile_time_env": {"A": 1}, "annotate": True, "formal_grammar": True, "evaluate_tree_assertions": True,
        "relative_path_in_code_position_comments": False, "generate_pxi": True, "use_listing_file": True,
    }
    for key, val in sorted(candidates.items()):
        if key in EXCLUDED_BY_STATEMENT or not hasattr(base, key):
            continue
        o = mod.CompilationOptions(mod.default_options)
        if getattr(o, key) == val:
            continue
        setattr(o, key, val)
        try:
            fp = o.get_fingerprint()
        except NotImplementedError:
            continue
        if fp == fp0:
            return {"inputs": {"option": key, "value": repr(val), "default": repr(getattr(base, key))}, "confirmed": True,
                    "actual": "same fingerprint", "expected": "different fingerprint",
                    "how": "Options.py loaded from source; two CompilationOptions objects differing only in this attribute "
                           "produce the same get_fingerprint() string"}
    return {"confirmed": False, "tried": len(candidates)}


# ------------------------------------------------------------------------------------------------------------
# to_fingerprint(item): the leaf rendering.  The fingerprint separates two option values only if the rendering is injective;
# repr() is (assumed) injective on the builtin values options take, str() is not (str('1') == str(1)).

REPR = z3.Function("builtin_repr", z3.IntSort(), z3.IntSort())


def _leaf_unit():
    is_dict = z3.Function("isinstance_dict", z3.IntSort(), z3.BoolSort())
    rep = Callee("repr", ["x"], result_kind="int", ensures=[("builtin repr", lambda e: e.result == REPR(e.x))])
    return PyUnit("Options.get_fingerprint.to_fingerprint[leaf]", {"C48": None}, FILE, "CompilationOptions.get_fingerprint.to_fingerprint",
                  [("item", "any")],
                  requires=[("kernel: item is not a dict (the dict branch sorts the items and recurses)", lambda e: Not(is_dict(e.item)))],
                  ensures=[("a non-dict option value is rendered by repr() - the rendering assumed injective - and by nothing weaker",
                            lambda e: e.result == REPR(e.item))],
                  callees={"repr": rep}, native=_native_leaf, search=lambda seed, ob: _native_leaf({}, ob), options={})


def _native_leaf(model, obname):
    """option values of different types with the same str() must not share a fingerprint"""
    mod = load_source_module(FILE, "dvsubject_Options")
    pairs = [("cdivision", "False", False), ("language_level", "3", 3), ("cplus", "1", 1), ("gdb_debug", "None", None)]
    for key, a, b in pairs:
        fps = []
        for v in (a, b):
            o = mod.CompilationOptions(mod.default_options)
            if key == "cdivision":
                o.compiler_directives = dict(o.compiler_directives, cdivision=v)
            else:
                setattr(o, key, v)
            fps.append(o.get_fingerprint())
        if fps[0] == fps[1]:
            return {"inputs": {"option": key, "values": [repr(a), repr(b)]}, "actual": "same fingerprint", "expected": "different fingerprints",
                    "confirmed": True, "obligation": obname,
                    "how": "Options.py loaded from source; two CompilationOptions differing only in the TYPE of this option value"}
    return {"confirmed": False, "tried": len(pairs)}


# ------------------------------------------------------------------------------------------------------------
# Cache.transitive_fingerprint: what is fed into the digest

CACHE_FILE = "Cython/Build/Cache.py"
FH = z3.Function("file_hash", z3.IntSort(), z3.IntSort())
EXT = z3.Function("path_ext", z3.IntSort(), z3.IntSort())
FP = z3.Function("get_fingerprint", z3.IntSort(), z3.IntSort())
DIGEST = z3.Function("sha256_of_fed_data", z3.ArraySort(z3.IntSort(), z3.BoolSort()), z3.IntSort())
# the only dependencies the digest may skip: files the Cython compiler never reads (C / C++ sources and headers)
C_FAMILY_EXTS = [".c", ".cpp", ".cc", ".cxx", ".c++", ".h", ".hpp", ".hh", ".hxx", ".h++"]


def _skippable(x):
    return Or(*[EXT(x) == intern_id(s) for s in C_FAMILY_EXTS])


class _DepInv:
    modifies_heap = ["set.mem"]

    def holds(self, ex, st, st0):
        h = st.heap
        m = _hasher(st.vars)
        deps = st0.vars["dependencies"].addr
        k = st.vars["_k0"].t
        j = z3.Int("j!dep")
        return [("the source file's hash has been fed", h.mem(m, FH(ival_of(st0.vars["filename"])))),
                ("every dependency visited so far that is not a C/C++ file has been fed",
                 z3.ForAll([j], Implies(And(j >= 0, j < k, Not(_skippable(st0.heap.el(deps, j)))), h.mem(m, FH(st0.heap.el(deps, j)))))),
                ("the dependency list is not modified", And(h.len(deps) == st0.heap.len(deps), h.els(deps) == st0.heap.els(deps))),
                ("index", And(k >= 0, k <= h.len(deps)))]

    def decreases(self, ex, st):
        return st.heap.len(st.vars["dependencies"].addr) - st.vars["_k0"].t


def _hasher(vs):
    """the digest object: THE local that holds the object hashlib.sha256() returned (whatever the code calls it)"""
    from dv.core import StaleContract
    hs = [v.addr for v in vs.values() if getattr(v, "cls", None) == "set"]
    if len(set(map(str, hs))) != 1:
        raise StaleContract("transitive_fingerprint: expected exactly one local digest object, found %d" % len(hs))
    return hs[0]


def ival_of(v):
    return v.t if hasattr(v, "t") else v.addr


def _tf_post(e):
    if e.result is None:
        return True           # OSError while reading a file: no fingerprint, the cache is not used (a miss)
    m = _hasher(e.vars)
    deps = e.dependencies
    j = z3.Int("j!post")
    fed = e.h.memset(m)
    return And(z3.Select(fed, FH(e.filename)),
               z3.ForAll([j], Implies(And(j >= 0, j < e.h0.len(deps), Not(_skippable(e.h0.el(deps, j)))), z3.Select(fed, FH(e.h0.el(deps, j))))),
               z3.Select(fed, FP(e.flags)), z3.Select(fed, FP(e.compilation_options)),
               e.result == DIGEST(fed))


def _tf_unit():
    sha = Callee("hashlib.sha256", ["data"], result_kind="ref:set",
                 modifies=lambda e: [("alloc",)],
                 ensures=[("a fresh digest object, fed with the initial data", lambda e: And(e.h.mem(e.result, e.data), e.result >= z3.Int("H0.alloc")))])
    upd = Callee("set.update", ["self", "data"], result_kind="none", modifies=lambda e: [("set", e.self)],
                 ensures=[("update() feeds the data", lambda e: e.h.memset(e.self) == z3.Store(e.h0.memset(e.self), e.data, z3.BoolVal(True)))])
    hexd = Callee("set.hexdigest", ["self"], result_kind="int", ensures=[("the digest of everything fed", lambda e: e.result == DIGEST(e.h.memset(e.self)))])
    fh = Callee("file_hash", ["path"], result_kind="int", ensures=[("content hash of the file", lambda e: e.result == FH(e.path))])
    srt = Callee("sorted", ["xs"], result_kind=lambda ex, e: __import__("dv.pyfe", fromlist=["PRef"]).PRef("list", e.xs),
                 ensures=[])
    splitext = Callee("os.path.splitext", ["p"],
                      result_kind=lambda ex, e: __import__("dv.pyfe", fromlist=["PTuple"]).PTuple(
                          [__import__("dv.pyfe", fromlist=["PAny"]).PAny(ex.fresh("root")), __import__("dv.pyfe", fromlist=["PAny"]).PAny(EXT(e.p))]),
                      ensures=[])
    gfp1 = Callee("FingerprintFlags.get_fingerprint", ["self"], result_kind="int", ensures=[("", lambda e: e.result == FP(e.self))])
    gfp2 = Callee("CompilationOptions.get_fingerprint", ["self"], result_kind="int", ensures=[("", lambda e: e.result == FP(e.self))])
    return PyUnit("Cache.transitive_fingerprint", {"C48": None}, CACHE_FILE, "Cache.transitive_fingerprint",
                  [("self", "ref:obj:Cache"), ("filename", "any"), ("dependencies", "ref:list"), ("compilation_options", "ref:obj:CompilationOptions"),
                   ("flags", "ref:obj:FingerprintFlags")],
                  requires=[("dependencies is a list (length >= 0)", lambda e: e.h0.len(e.dependencies) >= 0)],
                  ensures=[("the digest is fed with the hash of the source, of EVERY dependency that is not a C/C++ source or header, and with "
                            "the fingerprints of the extension flags and of the compilation options (or no fingerprint is produced)", _tf_post)],
                  callees={"hashlib.sha256": sha, "set.update": upd, "set.hexdigest": hexd, "file_hash": fh, "sorted": srt,
                           "os.path.splitext": splitext, "FingerprintFlags.get_fingerprint": gfp1, "CompilationOptions.get_fingerprint": gfp2},
                  native=_native_tf, search=lambda seed, ob: _native_tf({}, ob),
                  options={"invariants": {0: _DepInv()}, "opaque_names": ("__version__",), "identity_methods": ("encode",),
                           "elem_kind": {"list": "any"}, "fields": {}})


def _native_tf(model, obname):
    """a change to any non-C dependency must change the fingerprint"""
    import os
    import tempfile
    import shutil
    import sys
    if cextract_repo() not in sys.path:
        sys.path.insert(0, cextract_repo())
    from dv import cextract
    cextract.ensure_repo_on_path()
    from Cython.Build import Cache as C
    from Cython.Compiler import Options
    d = tempfile.mkdtemp(prefix="dv-cache-")
    try:
        src = os.path.join(d, "m.pyx")
        open(src, "w").write("x = 1\n")
        opts = Options.CompilationOptions(Options.default_options)
        for name in ("dep.pxd", "inc.pxi", "inc.inc", "data.txt", "helper.py", "noext"):
            dep = os.path.join(d, name)
            open(dep, "w").write("# a\n")
            cache = C.Cache(os.path.join(d, "cache"))
            f1 = cache.transitive_fingerprint(src, [dep], opts)
            open(dep, "w").write("# b, changed\n")
            for fn in (getattr(C, "file_hash", None),):
                if hasattr(fn, "uncached"):
                    pass
            # file_hash is memoised per path for the process lifetime: use a fresh module state for the second reading
            import importlib
            C2 = importlib.reload(C)
            f2 = C2.Cache(os.path.join(d, "cache")).transitive_fingerprint(src, [dep], opts)
            if f1 is not None and f1 == f2:
                return {"inputs": {"dependency": name}, "actual": "same fingerprint after the dependency changed", "expected": "different fingerprint",
                        "confirmed": True, "obligation": obname, "how": "Cython.Build.Cache imported from the working tree; a dependency file rewritten between two calls (module reloaded to drop the file_hash memo)"}
        return {"confirmed": False, "tried": 6}
    finally:
        shutil.rmtree(d, ignore_errors=True)


def cextract_repo():
    from dv import cextract
    return cextract.REPO


def units(tier):
    return _units_main(tier) + [_leaf_unit(), _tf_unit()]


def _units_main(tier):
    to_fp = Callee("to_fingerprint", ["item"], result_kind="int")
    u = PyUnit("Options.get_fingerprint", {"C48": None}, FILE, "CompilationOptions.get_fingerprint",
               [("self", "ref:obj:CompilationOptions")],
               requires=[("self.__dict__ is a dict object distinct from anything allocated later",
                          lambda e: And(e.h0.fld("__dict__", e.self) >= 0, e.h0.fld("__dict__", e.self) < z3.Int("H0.alloc")))],
               ensures=[("every attribute the statement does not exclude reaches the fingerprint data with its value", _post)],
               raises={"NotImplementedError": lambda e: True},
               callees={"to_fingerprint": to_fp}, native=_native, search=_search,
               options={"invariants": {0: _Inv()}, "fields": {"obj:CompilationOptions": {"__dict__": "ref:dict"}},
                        "dict_val_kind": "opaque"})
    return [u]


REGIONS = {}
