"""Contracts for the cache-key builders  (C48: compilation caches never return stale results).

CompilationOptions.get_fingerprint (Cython/Compiler/Options.py) decides which option values reach the
cythonize cache key.  The statement names what MUST cause a miss: "the language level, the compiler
directives or another output-affecting option".  Contract (data structure against an abstract view):
on return, for EVERY attribute k of the options object that is not in the exclusion list the
statement permits (verbosity, output paths, depfile, timestamps, cache, include/working/build dirs,
create_extension), the collected dict `data` holds data[k] == value_k - or the function has raised
NotImplementedError (capi_reexport_cincludes / common_utility_include_dir set).  Since the returned
string is to_fingerprint(data) (repr with sorted keys; assumed injective, listed), two option objects
differing in any such attribute get different fingerprints.
Strings are abstracted to interned identities (distinct constants <-> distinct ids), option values to
opaque identities; `for key, value in self.__dict__.items()` is an arbitrary-order loop with a ghost
`seen` set.
"""
import z3

from dv.spec import And, Or, Not, Implies
from dv.pyunit import PyUnit, load_source_module
from dv.pyfe import Callee, intern_id

SERVES = ("C48",)
FILE = "Cython/Compiler/Options.py"

# what the STATEMENT allows to be ignored (not what the code happens to ignore)
EXCLUDED_BY_STATEMENT = ["show_version", "errors_to_stderr", "verbose", "quiet", "output_file", "output_dir", "depfile",
                         "timestamps", "cache", "include_path", "working_path", "create_extension", "build_dir"]
RAISING = ["capi_reexport_cincludes", "common_utility_include_dir"]


def _excluded(k):
    return Or(*[k == intern_id(x) for x in EXCLUDED_BY_STATEMENT])


def _covered(h, d, data, k):
    """attribute k of the options object is in the collected data with its value"""
    return And(h.has(data, k), h.val(data, k) == h.val(d, k))


class _Inv:
    modifies_heap = ["dict.has", "dict.val"]

    def holds(self, ex, st, st0):
        h, h0 = st.heap, st0.heap
        d = h0.fld("__dict__", st0.vars["self"].addr)
        data = st.vars["data"].addr
        seen = st.vars["$seen0"].t
        k = z3.Int("k!inv")
        truthy = z3.Function("truthy", z3.IntSort(), z3.BoolSort())
        return [
            ("the options dict itself is not modified",
             And(z3.Select(h.get("dict.has"), d) == z3.Select(h0.get("dict.has"), d),
                 z3.Select(h.get("dict.val"), d) == z3.Select(h0.get("dict.val"), d), data != d)),
            ("every attribute visited so far that the statement does not exclude is in data with its value "
             "(the two raising options can only have been passed when falsy)",
             z3.ForAll([k], Implies(And(z3.Select(seen, k), h0.has(d, k), Not(_excluded(k))),
                                    Or(_covered(h, d, data, k),
                                       And(Or(*[k == intern_id(x) for x in RAISING]), Not(truthy(h0.val(d, k)))))))),
            ("data only ever holds attributes of the options object with their values",
             z3.ForAll([k], Implies(h.has(data, k), And(h0.has(d, k), h.val(data, k) == h0.val(d, k))))),
        ]


def _post(e):
    d = e.h0.fld("__dict__", e.self)
    data = e.vars["data"].addr
    k = z3.Int("k!post")
    truthy = z3.Function("truthy", z3.IntSort(), z3.BoolSort())
    return z3.ForAll([k], Implies(And(e.h0.has(d, k), Not(_excluded(k))),
                                  Or(_covered(e.h, d, data, k),
                                     And(Or(*[k == intern_id(x) for x in RAISING]), Not(truthy(e.h0.val(d, k)))))))


def _native(model, obname):
    """two option objects differing in exactly one attribute must not share a fingerprint"""
    return _search(0, obname)


def _search(seed, obname):
    mod = load_source_module(FILE, "dvsubject_Options")
    base = mod.CompilationOptions(mod.default_options)
    fp0 = base.get_fingerprint()
    candidates = {
        "language_level": 2, "cplus": True, "compiler_directives": {"cdivision": True}, "embedded_metadata": {"x": 1},
        "emit_linenums": True, "c_line_in_traceback": False, "gdb_debug": True, "np_pythran": True,
        "compile_time_env": {"A": 1}, "annotate": True, "formal_grammar": True, "evaluate_tree_assertions": True,
        "relative_path_in_code_position_comments": False, "generate_pxi": True, "use_listing_file": True,
    }
    for key, val in sorted(candidates.items()):
        if key in EXCLUDED_BY_STATEMENT or not hasattr(base, key):
            continue
        o = mod.CompilationOptions(mod.default_options)
        if getattr(o, key) == val:
            continue
        setattr(o, key, val)
        try:
            fp = o.get_fingerprint()
        except NotImplementedError:
            continue
        if fp == fp0:
            return {"inputs": {"option": key, "value": repr(val), "default": repr(getattr(base, key))}, "confirmed": True,
                    "actual": "same fingerprint", "expected": "different fingerprint",
                    "how": "Options.py loaded from source; two CompilationOptions objects differing only in this attribute "
                           "produce the same get_fingerprint() string"}
    return {"confirmed": False, "tried": len(candidates)}


def units(tier):
    to_fp = Callee("to_fingerprint", ["item"], result_kind="int")
    u = PyUnit("Options.get_fingerprint", {"C48": None}, FILE, "CompilationOptions.get_fingerprint",
               [("self", "ref:obj:CompilationOptions")],
               requires=[("self.__dict__ is a dict object distinct from anything allocated later",
                          lambda e: And(e.h0.fld("__dict__", e.self) >= 0, e.h0.fld("__dict__", e.self) < z3.Int("H0.alloc")))],
               ensures=[("every attribute the statement does not exclude reaches the fingerprint data with its value", _post)],
               raises={"NotImplementedError": lambda e: True},
               callees={"to_fingerprint": to_fp}, native=_native, search=_search,
               options={"invariants": {0: _Inv()}, "fields": {"obj:CompilationOptions": {"__dict__": "ref:dict"}},
                        "dict_val_kind": "opaque"})
    return [u]


REGIONS = {}
