"""Contract for the index normaliser of the memoryview object (C16; memory safety for C36),
Cython/Utility/MemoryView.pyx::_unellipsify_index_tuple - the function behind memoryview.__getitem__ / __setitem__ with a tuple index.

Its result is consumed by memview_slice / get_item_pointer, which walk `for dim, index in enumerate(indices)` and read
view.shape[dim], view.strides[dim] and write dst.shape[new_ndim] WITHOUT a bound on dim: they rely on len(indices) == ndim.
From the statement ("the same elements, shape and strides as the same operation on a NumPy array or Python memoryview ...
ellipsis and None ... Out-of-range indices raise IndexError"): an index tuple that names more dimensions than the view has
is an IndexError in NumPy (a TypeError in CPython's memoryview) - never a result.
    post (normal return):  len(result[1]) == ndim
                           the tuple named at most ndim dimensions: len(index_tuple) - (1 if it contains an Ellipsis) <= ndim
    raises:  TypeError (an item that is neither Ellipsis, slice nor index), IndexError (too many indices)
The subject is cut out of the .pyx on every run (dv/pyxsrc.py: header and `cdef` declarations rewritten, everything else byte
for byte); items are opaque identities, isinstance / PyIndex_Check uninterpreted predicates.
"""
import z3

from dv.spec import And, Or, Not, Implies, If
from dv.pyunit import PyUnit
from dv.pyfe import Callee, PAny, intern_id
from dv import pyxsrc

SERVES = ("C16", "C36")
FILE = "Cython/Utility/MemoryView.pyx"
FULL = intern_id("slice(None)")


ROLES = {}


def _bind(fn):
    """roles of the locals and loops, read off the function's ast on every run (no local variable is named by this contract):
       tuple   - the first parameter;
       scan    - the first loop, `for <item> in <tuple>`; count = the name it increments by 1; first = the name it assigns the count to;
       result  - the name bound to `[...] * <n>`;
       fills   - every later top-level loop (for-range or while `v < bound` with `v += 1`): they only store into `result`."""
    import ast
    from dv.pyfe import StaleContract
    tup = fn.args.args[0].arg
    loops = [n for n in ast.walk(fn) if isinstance(n, (ast.For, ast.While))]
    loops.sort(key=lambda n: (n.lineno, n.col_offset))
    if not loops or not (isinstance(loops[0], ast.For) and isinstance(loops[0].iter, ast.Name) and loops[0].iter.id == tup):
        raise StaleContract("the first loop is not `for item in %s`" % tup)
    incs = [n.target.id for n in ast.walk(loops[0]) if isinstance(n, ast.AugAssign) and isinstance(n.op, ast.Add) and isinstance(n.target, ast.Name)
            and isinstance(n.value, ast.Constant) and n.value.value == 1]
    if len(incs) != 1:
        raise StaleContract("the scanning loop does not increment exactly one counter")
    count = incs[0]
    firsts = [n.targets[0].id for n in ast.walk(loops[0]) if isinstance(n, ast.Assign) and isinstance(n.value, ast.Name) and n.value.id == count
              and isinstance(n.targets[0], ast.Name)]
    if len(firsts) != 1:
        raise StaleContract("the scanning loop does not record the counter in exactly one local")
    results = [n.targets[0].id for n in ast.walk(fn) if isinstance(n, ast.Assign) and isinstance(n.value, ast.BinOp) and isinstance(n.value.op, ast.Mult)
               and isinstance(n.value.left, ast.List) and isinstance(n.targets[0], ast.Name)]
    if len(results) != 1:
        raise StaleContract("no single local is bound to `[...] * n`")
    ROLES.clear()
    ROLES.update(tuple=tup, count=count, first=firsts[0], result=results[0])
    invs = {0: _Scan()}
    for k, lp in enumerate(loops[1:], 1):
        if isinstance(lp, ast.For):
            invs[k] = _Fill(k, None, None)
        else:
            t = lp.test
            if not (isinstance(t, ast.Compare) and len(t.ops) == 1 and isinstance(t.ops[0], ast.Lt) and isinstance(t.left, ast.Name)):
                raise StaleContract("while loop #%d is not of the form `v < bound`" % k)
            bound = t.comparators[0].id if isinstance(t.comparators[0], ast.Name) else None
            invs[k] = _Fill(k, t.left.id, bound)
    return invs


class _Scan:
    """for item in <tuple>: (count counts the items; first is -1 or the position of an item already seen)"""
    modifies_heap = []

    def holds(self, ex, st, st0):
        k = st.vars["_k0"].t
        idx, first = st.vars[ROLES["count"]].t, st.vars[ROLES["first"]].t
        t = st0.vars[ROLES["tuple"]].addr
        return [("the counter counts the items visited", And(idx == k, k >= 0, k <= st.heap.len(t))),
                ("the recorded position is -1 or a visited position", And(first >= -1, first < idx))]

    def decreases(self, ex, st):
        return st.heap.len(st.vars[ROLES["tuple"]].addr) - st.vars["_k0"].t


class _Fill:
    """the loops that store into `result`: its length stays what it is, nothing else is written; the counter does not go below its start"""
    modifies_heap = ["list.el"]

    def __init__(self, ordinal, var, bound):
        self.var, self.bound = var, bound            # while loop: its counter and (if a plain name) its bound
        self.k = "_k%d" % ordinal
        self.lo, self.hi = "_lo%d" % ordinal, "_hi%d" % ordinal

    def holds(self, ex, st, st0):
        r = st0.vars[ROLES["result"]].addr
        x = z3.Int("x!fill")
        frame = ("only `result` is written", z3.ForAll([x], Implies(x != r, st.heap.els(x) == st0.heap.els(x))))
        if self.var is None:
            k = st.vars[self.k].t
            return [("the counter stays within the range", And(k >= st0.vars[self.lo].t, Or(k <= st0.vars[self.hi].t, st0.vars[self.hi].t < st0.vars[self.lo].t))), frame]
        return [("the counter does not go below its start", st.vars[self.var].t >= st0.vars[self.var].t), frame]

    def decreases(self, ex, st):
        if self.var is None:
            return st.vars[self.hi].t - st.vars[self.k].t
        if self.bound is None:
            return z3.IntVal(0) - st.vars[self.var].t        # no plain bound: termination is not claimed with a meaningful measure
        return st.vars[self.bound].t - st.vars[self.var].t


def _callees():
    return {
        "slice": Callee("slice", ["stop"], result_kind=lambda ex, e: PAny(z3.IntVal(FULL))),
        "PyIndex_Check": Callee("PyIndex_Check", ["item"], result_kind="bool"),
        "_err_invalid_index": Callee("_err_invalid_index", ["item"], result_kind="int", raises=[("TypeError", lambda e: z3.BoolVal(True))]),
    }


def _post(e):
    t0 = e.index_tuple
    n0 = e.h0.len(t0)
    res = e.result[1]
    first = e.vars[ROLES["first"]].t
    return And(e.h.len(res) == e.ndim,
               n0 - If(first >= 0, 1, 0) <= e.ndim)


def _native(model, obname):
    import os
    import subprocess
    from dv import cextract
    src = ("# cython: language_level=3\nfrom cython cimport view\n"
           "def mv1(): return view.array(shape=(5,), itemsize=sizeof(int), format='i').memview\n"
           "def mv2(): return view.array(shape=(3, 4), itemsize=sizeof(int), format='i').memview\n")
    try:
        ctext, cfile = cextract.compile_pyx(src, name="dvunell")
    except Exception as ex:
        return {"confirmed": False, "note": "compile failed: %r" % ex}
    d = os.path.dirname(cfile)
    p = subprocess.run(["clang", "-shared", "-fPIC", "-O0", "-w", "-I" + cextract.PY_INCLUDE, cfile, "-o", os.path.join(d, "dvunell.so")],
                       capture_output=True, text=True)
    if p.returncode != 0:
        return {"confirmed": False, "note": "build failed " + p.stderr[-300:]}
    code = r'''
import sys; sys.path.insert(0, %r); import dvunell as m
bad = []
s = slice(None)
for name, mk, idx in (("mv1[:, :]", m.mv1, (s, s)), ("mv1[..., 0, 0]", m.mv1, (Ellipsis, 0, 0)), ("mv2[:, :, :]", m.mv2, (s, s, s)), ("mv2[..., 1, 2, 1]", m.mv2, (Ellipsis, 1, 2, 1)),
                      ("mv1[0, 0]", m.mv1, (0, 0)), ("mv2[0, 0, 0]", m.mv2, (0, 0, 0)), ("mv1[(:,)*9]", m.mv1, (s,) * 9)):
    try: r = mk()[idx]; bad.append((name, "returned", getattr(r, "shape", r)))
    except (IndexError, TypeError): pass
    except Exception as e: bad.append((name, type(e).__name__))
for name, mk, idx, shape in (("mv1[...]", m.mv1, Ellipsis, (5,)), ("mv2[..., 1]", m.mv2, (Ellipsis, 1), (3,)), ("mv2[1, ...]", m.mv2, (1, Ellipsis), (4,)), ("mv2[:, ..., :]", m.mv2, (s, Ellipsis, s), (3, 4)),
                             ("mv2[1:, ...]", m.mv2, (slice(1, None), Ellipsis), (2, 4)), ("mv2[:]", m.mv2, (s,), (3, 4))):
    try:
        r = mk()[idx]
        if tuple(r.shape) != shape: bad.append((name, "shape", tuple(r.shape)))
    except Exception as e: bad.append((name, type(e).__name__, str(e)))
print(bad)
''' % d
    r = subprocess.run(["/venv/bin/python", "-c", code], capture_output=True, text=True, timeout=120)
    out = r.stdout.strip() if r.returncode >= 0 else "crashed with signal %d" % -r.returncode
    return {"inputs": "index tuples naming more dimensions than the view has (1-dim and 2-dim cython.view.array memoryviews), plus valid ellipsis forms",
            "actual": (out or r.stderr[-300:])[:500], "expected": "IndexError (NumPy) / TypeError (CPython memoryview) for every over-long tuple; the valid forms keep their shapes",
            "confirmed": out != "[]", "obligation": obname, "how": "module compiled by the working-tree compiler (utility code from the working tree); indexed natively"}


def units(tier):
    names = ("_unellipsify_index_tuple",)
    u = PyUnit("MemoryView._unellipsify_index_tuple", {"C16": None, "C36": ["post", "exc", "inv", "subset"]}, FILE, "_unellipsify_index_tuple",
               [("index_tuple", "ref:tuple"), ("ndim", "int")],
               requires=[("the view has at least one and at most 8 dimensions (Options.buffer_max_dims)", lambda e: And(e.ndim >= 1, e.ndim <= 8)),
                         ("a tuple has a non-negative length", lambda e: e.h0.len(e.index_tuple) >= 0)],
               ensures=[("the result has exactly ndim entries and the index named at most ndim dimensions", _post)],
               raises={"TypeError": lambda e: z3.BoolVal(True),
                       # IndexError: only for a tuple longer than ndim (with an Ellipsis, ndim + 1 items are still fine: not distinguished here)
                       "IndexError": lambda e: e.h0.len(e.index_tuple) > e.ndim},
               callees=_callees(), native=_native, search=lambda seed, ob: _native({}, ob),
               options={"merge": False, "invariants": _bind,
                        "source_transform": lambda src: pyxsrc.cut(src, names), "elem_kind": {"list": "any", "tuple": "any"},
                        "opaque_names": ("Ellipsis",)})
    return [u]


REGIONS = {}
