"""Contracts for the numeric constant pool of the code generator (C09 kernel), Cython/Compiler/Code.py.

GlobalState.get_int_const / get_float_const / new_num_const share module-level int and float objects between all uses of
"the same" literal.  From the statement ("two constants that CPython distinguishes are never merged into one object"):
the pool may only hand out, for a literal text t and a type tag, a constant that was created FROM that text and tag.
Data-structure contract (abstract view of `num_const_index`):
    INV   every entry stored under key (v, tag) is a NumConst c with c.value == v and c.py_type == tag
    get_float_const(t, code) / get_int_const(t, longness): INV before  =>  INV after, and the returned constant c has
          c.value == t and c.py_type == 'float' / 'int' / 'long'  (so '0.0' and '-0.0', '1' and '1L', or 1 and 1.0 can never
          share a constant: their texts or tags differ); entries under other keys are unchanged.
    new_num_const(v, tag, code): stores exactly one new entry under (v, tag) holding (v, tag, code).
Literal texts are abstract string identities; a key that is NOT the text itself (e.g. float(text)) is an uninterpreted
function of it, about which nothing is known - in particular not injectivity - so the contract cannot be met through it.
The C names chosen by new_num_const_cname are not part of this contract (see DESIGN.md, seed C09-a).
"""
import z3

from dv.spec import And, Or, Not, Implies
from dv.pyunit import PyUnit, load_source_module
from dv.pyfe import Callee, intern_id, PRef, PAIR

SERVES = ("C09",)
FILE = "Cython/Compiler/Code.py"
GS, NC = "obj:GlobalState", "obj:NumConst"
FIELDS = {GS: {"num_const_index": "ref:dict"}, NC: {"cname": "any", "value": "any", "py_type": "any", "value_code": "any"}}


def _new_numconst(ex, e):
    """NumConst(cname, value, py_type, value_code): a fresh object with exactly these attributes (its __init__ is four stores)"""
    h = e.h
    a = h.alloc
    h.alloc = a + 1
    for f in ("cname", "value", "py_type", "value_code"):
        v = getattr(e, f, None)
        h.set("fld." + f, z3.Store(h.get("fld." + f), a, v if v is not None else z3.IntVal(-1)))
    return PRef(NC, a)


def key(v, tag):
    return PAIR(v, tag)


def inv(h, gs):
    """every entry of gs.num_const_index is filed under (its own value text, its own type tag)"""
    d = h.fld("num_const_index", gs)
    x = z3.Int("x!inv")
    c = h.val(d, x)
    fst = z3.Function("pair_fst", z3.IntSort(), z3.IntSort())
    snd = z3.Function("pair_snd", z3.IntSort(), z3.IntSort())
    # one quantified key; the components of a pair key are its projections (fst(pair(a, b)) == a, snd(pair(a, b)) == b)
    alloc = h.alloc if h.alloc is not None else z3.Int("H0.alloc")
    return z3.ForAll([x], Implies(h.has(d, x), And(h.fld("value", c) == fst(x), h.fld("py_type", c) == snd(x),
                                                   c >= 0, c < alloc)))      # ... and is an object that exists


def others_unchanged(h0, h, gs, k):
    d = h0.fld("num_const_index", gs)
    x = z3.Int("x!frame")
    return And(h.fld("num_const_index", gs) == d,
               z3.ForAll([x], Implies(x != k, And(h.has(d, x) == h0.has(d, x), Implies(h0.has(d, x), h.val(d, x) == h0.val(d, x))))))


def _get_posts(tag_of, what):
    def mk(f):
        def post(e):
            tag = tag_of(e)
            return f(e, e.result, key(e.str_value, tag), e.h0.fld("num_const_index", e.self), tag)
        return post
    return [
        ("the constant returned for %s was created from exactly that literal text and type tag" % what,
         mk(lambda e, c, k, d, tag: And(e.h.fld("value", c) == e.str_value, e.h.fld("py_type", c) == tag))),
        ("it is pooled under (text, tag); an existing constant is reused, never replaced",
         mk(lambda e, c, k, d, tag: And(e.h.has(d, k), e.h.val(d, k) == c, Implies(e.h0.has(d, k), c == e.h0.val(d, k))))),
        ("INV is kept", mk(lambda e, c, k, d, tag: inv(e.h, e.self))),
        ("entries under other keys are unchanged", mk(lambda e, c, k, d, tag: others_unchanged(e.h0, e.h, e.self, k))),
    ]


REQ = [("INV: every pooled constant is filed under its own (value text, type tag)", lambda e: inv(e.h0, e.self)),
       ("the index is a dict object that exists already", lambda e: And(e.h0.fld("num_const_index", e.self) >= 0,
                                                                          e.h0.fld("num_const_index", e.self) < z3.Int("H0.alloc")))]


def _new_contract():
    """contract of new_num_const at the call sites of the getters (proved for the real function by its own unit)"""
    def ens(e):
        d = e.h0.fld("num_const_index", e.self)
        k = key(e.value, e.py_type)
        c = e.result
        code = getattr(e, "value_code", None)
        return And(e.h.has(d, k), e.h.val(d, k) == c, e.h.fld("value", c) == e.value, e.h.fld("py_type", c) == e.py_type,
                   c >= e.h0_alloc if hasattr(e, "h0_alloc") else True,
                   others_unchanged(e.h0, e.h, e.self, k))
    return Callee("GlobalState.new_num_const", ["self", "value", "py_type", "value_code"], result_kind="ref:" + NC,
                  modifies=lambda e: [("dict", e.h0.fld("num_const_index", e.self)), ("fld", "value", z3.Int("fresh!c")),
                                      ("alloc",)],
                  ensures=[("stores one new entry under (value, py_type) holding that value and tag; nothing else changes", ens)])


def _native(model, obname):
    """float literals CPython distinguishes must get distinct pooled constants with their own text"""
    from dv import cextract
    cextract.ensure_repo_on_path()
    from Cython.Compiler import Code
    gs = Code.GlobalState.__new__(Code.GlobalState)
    gs.num_const_index = {}
    gs.const_cnames_used = {}
    pairs = [("0.0", "-0.0"), ("1.0", "1.00"), ("1e0", "1.0"), ("10", "1e1")]
    for a, b in pairs:
        ca, cb = gs.get_float_const(a, a), gs.get_float_const(b, b)
        if ca.value != a or cb.value != b:
            return {"inputs": {"literals": [a, b]}, "actual": "get_float_const(%r) returned the constant created for %r" % (b, cb.value),
                    "expected": "a constant holding its own literal text", "confirmed": True, "obligation": obname,
                    "how": "Cython.Compiler.Code.GlobalState from the working tree (bare instance), two float literals requested in turn"}
    ia, ib = gs.get_int_const("1", False), gs.get_int_const("1", True)
    if ia is ib or ia.py_type == ib.py_type:
        return {"inputs": {"literal": "1", "longness": [False, True]}, "actual": "same constant", "expected": "distinct constants (int / long)",
                "confirmed": True, "obligation": obname, "how": "as above"}
    return {"confirmed": False, "tried": len(pairs) + 1}


def units(tier):
    opts = {"fields": FIELDS, "dict_val_kind": "ref:" + NC, "tuple_keys": True}
    us = []
    us.append(PyUnit("Code.GlobalState.new_num_const", {"C09": None}, FILE, "GlobalState.new_num_const",
                     [("self", "ref:" + GS), ("value", "any"), ("py_type", "any"), ("value_code", "any")],
                     requires=REQ,
                     ensures=[("one new entry under (value, py_type) holding (value, py_type, value_code)",
                               lambda e: And(e.h.has(e.h0.fld("num_const_index", e.self), key(e.value, e.py_type)),
                                             e.h.val(e.h0.fld("num_const_index", e.self), key(e.value, e.py_type)) == e.result,
                                             e.h.fld("value", e.result) == e.value, e.h.fld("py_type", e.result) == e.py_type,
                                             e.h.fld("value_code", e.result) == e.value_code)),
                              ("INV is kept", lambda e: inv(e.h, e.self)),
                              ("entries under other keys are unchanged", lambda e: others_unchanged(e.h0, e.h, e.self, key(e.value, e.py_type)))],
                     callees={"GlobalState.new_num_const_cname": Callee("GlobalState.new_num_const_cname", ["self", "value", "py_type"], result_kind="int"),
                              "NumConst": Callee("NumConst", ["cname", "value", "py_type", "value_code"], result_kind=_new_numconst)},
                     native=_native, search=lambda seed, ob: _native({}, ob), options=dict(opts)))
    inline = ("GlobalState.new_num_const",)
    callees = {"GlobalState.new_num_const_cname": Callee("GlobalState.new_num_const_cname", ["self", "value", "py_type"], result_kind="int"),
               "NumConst": Callee("NumConst", ["cname", "value", "py_type", "value_code"], result_kind=_new_numconst)}
    us.append(PyUnit("Code.GlobalState.get_float_const", {"C09": None}, FILE, "GlobalState.get_float_const",
                     [("self", "ref:" + GS), ("str_value", "any"), ("value_code", "any")], requires=REQ,
                     ensures=_get_posts(lambda e: intern_id("float"), "a float literal"),
                     callees=callees, native=_native, search=lambda seed, ob: _native({}, ob),
                     options=dict(opts, inline=inline)))
    us.append(PyUnit("Code.GlobalState.get_int_const", {"C09": None}, FILE, "GlobalState.get_int_const",
                     [("self", "ref:" + GS), ("str_value", "any"), ("longness", "bool")], requires=REQ,
                     ensures=_get_posts(lambda e: z3.If(e.longness, intern_id("long"), intern_id("int")), "an int literal"),
                     callees=callees, native=_native, search=lambda seed, ob: _native({}, ob),
                     options=dict(opts, inline=inline)))
    return us


def c_literal_value(text):
    """value a conforming LP64 C compiler gives the expression `<text>` when it initialises a 64-bit signed variable: the
    literal gets the first type of C11 6.4.4.1's list that can represent it (decimal: int, long; octal / hex: int, unsigned
    int, long, unsigned long), a leading '-' is unary minus IN THAT TYPE (wraps for the unsigned ones), then conversion"""
    neg = text.startswith("-")
    lit = text[1:] if neg else text
    if lit.lower().startswith("0x"):
        v, dec = int(lit[2:], 16), False
    elif len(lit) > 1 and lit[0] == "0":
        v, dec = int(lit[1:], 8), False
    else:
        v, dec = int(lit), True
    types = [(32, True), (64, True)] if dec else [(32, True), (32, False), (64, True), (64, False)]
    for bits, signed in types:
        hi = (1 << (bits - 1)) - 1 if signed else (1 << bits) - 1
        if v <= hi:
            break
    else:
        raise ValueError("literal too large for any type")
    if neg:
        v = -v if signed else (-v) % (1 << bits)
    v %= 1 << 64
    return v - (1 << 64) if v >= 1 << 63 else v


def _int_literal_check(ExprNodes):
    """BOUNDED stand-in for IntNode.value_as_c_integer_string (a text -> text function): every spelling of a grid of
    magnitudes around the C type boundaries, both signs, all four bases: the C value of the emitted text (LP64 literal typing
    model above) must be the Python value"""
    from Cython.Utils import str_to_number
    mags = sorted({m + d for m in (0, 1, 7, 8, 255, 2 ** 15, 2 ** 16, 2 ** 31, 2 ** 32, 0xA0000000, 0xFFFFFFFF, 2 ** 62, 2 ** 63 - 2)
                   for d in (-1, 0, 1) if m + d >= 0})
    bad, n = None, 0
    for m in mags:
        for spell in ("%d" % m, "0x%x" % m, "0X%X" % m, "0o%o" % m, "0b%s" % bin(m)[2:]):
            for sign in ("", "-"):
                text = sign + spell
                node = ExprNodes.IntNode(("<dv>", 1, 0), value=text)
                try:
                    ctext = node.value_as_c_integer_string()
                    got = c_literal_value(ctext)
                except Exception as ex:
                    ctext, got = "?", repr(ex)
                want = str_to_number(text)
                n += 1
                if -2 ** 63 <= want < 2 ** 63 and got != want and bad is None:
                    bad = (text, ctext, got, want)
    out = [{"kind": "bounded-check", "name": "IntNode.value_as_c_integer_string: C's value of the emitted literal text == Python's value of the literal",
            "level": "bounded", "bound": "%d spellings (4 bases x 2 signs) of %d magnitudes around the 32/64-bit boundaries, LP64 literal typing" % (n, len(mags)),
            "violations": 0 if bad is None else 1}]
    if bad is not None:
        out.append({"kind": "bounded-violation", "name": "value_as_c_integer_string",
                    "text": "the int literal %s is emitted as the C text %s, which a C compiler evaluates to %s (Python: %s)" % bad})
    return out


def side_checks(prop, tier, seed, kf_entries):
    """BOUNDED stand-in (labelled bounded, not counted as proved) for ExprNodes.make_dedup_key, the pooling key of tuple /
    frozenset / slice constants: the key is Python-value equality of nested tuples, which the front end cannot express
    (cross-type numeric equality, 0.0 == -0.0).  Bound: all pairs of item sequences of length <= 2 over the atoms below,
    one nesting level.  Property: equal keys => CPython cannot tell the two constants apart (same types and reprs)."""
    import itertools
    from dv import cextract
    cextract.ensure_repo_on_path()
    from Cython.Compiler import ExprNodes, PyrexTypes, Builtin
    pos = ("<dv>", 1, 0)

    def atom(v):
        if isinstance(v, bool):
            n = ExprNodes.BoolNode(pos, value=v)
        elif isinstance(v, int):
            n = ExprNodes.IntNode(pos, value=str(v))
        elif isinstance(v, float):
            n = ExprNodes.FloatNode(pos, value=repr(v))
        elif v is None:
            n = ExprNodes.NoneNode(pos)
        else:
            n = ExprNodes.UnicodeNode(pos, value=v)
        n.constant_result = v
        n.type = PyrexTypes.py_object_type
        return n

    def tup(vals):
        t = ExprNodes.TupleNode(pos, args=[atom(v) if not isinstance(v, tuple) else tup(v) for v in vals])
        t.type = Builtin.tuple_type
        t.mult_factor = None
        t.is_literal = True
        return t

    def distinct(a, b):
        """CPython tells a and b apart: type or repr differs somewhere"""
        if type(a) is not type(b):
            return True
        if isinstance(a, tuple):
            return len(a) != len(b) or any(distinct(x, y) for x, y in zip(a, b))
        return repr(a) != repr(b)
    atoms = [0, 1, -1, 0.0, -0.0, 1.0, True, False, None, "1", "", (0,), (0.0,), (-0.0,), (1, 2), (True,)]
    seqs = [(a,) for a in atoms] + list(itertools.product(atoms[:9], repeat=2))
    keys = []
    for s in seqs:
        try:
            keys.append((s, ExprNodes.make_dedup_key(Builtin.tuple_type, [atom(v) if not isinstance(v, tuple) else tup(v) for v in s])))
        except Exception as ex:     # pragma: no cover
            return [{"kind": "side-check-failure", "name": "make_dedup_key-bounded", "text": "harness error %r on %r" % (ex, s)}]
    bad = None
    n = 0
    byk = {}
    for s, k in keys:
        if k is None:
            continue
        n += 1
        if k in byk and distinct(byk[k], s):
            bad = (byk[k], s)
            break
        byk.setdefault(k, s)
    out = _int_literal_check(ExprNodes)
    out += [{"kind": "bounded-check", "name": "ExprNodes.make_dedup_key: equal keys => indistinguishable constants", "level": "bounded",
            "bound": "%d item sequences of length <= 2 over %d atoms (ints, bools, floats incl. +-0.0, None, str, one level of tuples)" % (n, len(atoms)),
            "violations": 0 if bad is None else 1}]
    if bad is not None:
        out.append({"kind": "bounded-violation", "name": "make_dedup_key",
                    "text": "tuple constants %r and %r get the same pooling key (CPython distinguishes them)" % bad})
    return out


REGIONS = {}
