"""Contracts for Cython/Shadow.py: cdiv, cmod  (C38: pure-Python mode behaves like the compiled code).

The compiled code computes C truncating division / remainder (cython.cdiv / cython.cmod and the
cdivision directive); the interpreted fallbacks must compute the same function of (a, b) for ALL
integers.  The spec functions truncdiv / truncmod are the ones the C03 cdivision obligations of the
L3 catalogue use, so both sides of "interpreted == compiled" meet in one spec.
"""
from dv import spec as S
from dv.spec import And, Or, Not, Implies
from dv.pyunit import PyUnit, load_source_module

SERVES = ("C38",)


def _native(fname, spec):
    def native(model, obname):
        a, b = int(model.get("a", 0)), int(model.get("b", 0))
        mod = load_source_module("Cython/Shadow.py")
        f = getattr(mod, fname)
        rep = {"inputs": {"a": a, "b": b}, "how": "Cython/Shadow.py loaded from source; %s(a, b) called natively" % fname}
        try:
            got = f(a, b)
            rep["actual"] = got
        except ZeroDivisionError:
            rep["actual"] = "ZeroDivisionError"
            got = None
        want = "ZeroDivisionError" if b == 0 else spec(a, b)
        rep["expected"] = want
        rep["confirmed"] = rep["actual"] != want
        return rep
    return native


def _search(fname, spec):
    def search(seed, obname):
        import random
        rnd = random.Random(seed + 3)
        nat = _native(fname, spec)
        vals = list(range(-12, 13)) + [2 ** 31 - 1, -2 ** 31, 2 ** 63, -2 ** 63 - 1, 10 ** 30, -10 ** 30]
        cases = [(a, b) for a in vals for b in vals] + [(rnd.randint(-10 ** 6, 10 ** 6), rnd.randint(-50, 50)) for _ in range(2000)]
        for a, b in cases:
            r = nat({"a": a, "b": b}, obname)
            if r["confirmed"]:
                r["how"] += " (concrete search)"
                return r
        return {"confirmed": False, "tried": len(cases)}
    return search


def units(tier):
    us = []
    for fname, spec, label in (("cdiv", S.truncdiv, "result == trunc(a/b)"), ("cmod", S.truncmod, "result == a - b*trunc(a/b)")):
        us.append(PyUnit(
            "Shadow.%s" % fname, {"C38": None}, "Cython/Shadow.py", fname, [("a", "int"), ("b", "int")],
            ensures=[(label, (lambda sp: lambda e: e.result == sp(e.a, e.b))(spec)),
                     ("a zero divisor never returns normally (ZeroDivisionError)", lambda e: e.b != 0)],
            raises={"ZeroDivisionError": lambda e: e.b == 0},
            native=_native(fname, spec), search=_search(fname, spec),
            subject={"file": "Cython/Shadow.py"}))
    return us


REGIONS = {}
