"""Contracts for the string-table compression pair (C12): Cython/LZSS.py (encoder, Python) and
__pyx_lzss_decompress in Cython/Utility/StringTools.c (decoder, C) -- ITEM LEVEL.

Shared format spec `dec_spec(b0, b1, b2) -> (gap, length, size)`: how one back reference is laid out
(gap = distance between the END of the earlier occurrence and the current position; the copy source is
out_pos - gap - length).  Two real code fragments are verified against it, for all inputs:
  * the emission branch of lzss_compress' main loop (statement range located by source anchors):
    whenever it emits a back reference for (offset, length), the bytes it appends decode under
    dec_spec to exactly (offset - length, length) and dec_spec consumes exactly the appended bytes;
    otherwise it appends the single literal data[pos] and advances by 1;
  * the back-reference branch of the C decompressor (statement located in clang's AST): it consumes
    size bytes, copies `length` bytes from out_pos - gap - length, never touches memory out of bounds and
    never overlaps, given that the reference lies inside what has been decoded so far.
Hence decode(encode(item)) == item for every item (the two contracts compose through dec_spec).
WHOLE decoder (unit StringTools.lzss_decompress): both loops of __pyx_lzss_decompress by invariants over a ghost token
stream (token k starts at source position P(k) and output position O(k); one flags byte precedes every 8 tokens): for every
well-formed stream WF it consumes EXACTLY the compressed length, and never reads src / writes dst outside their extents.  The
back-reference branch enters this proof through its own contract (statement summary = the contract the fragment unit proves).
ASSUMED there: WF, i.e. the postcondition of lzss_compress as a whole (its outer loop / flag grouping is not under contract).
NOT proved (DESIGN.md): find_longest_match returns a real match, the flag-byte grouping of the encoder's outer loop and its
termination padding, termination of the decoder, the decoded CONTENT at function level (item level only).  The precondition on
(offset, length) below is the ASSUMED postcondition of find_longest_match.
"""
import z3

from dv import spec as S
from dv.spec import And, Or, Not, Implies, If
from dv.pyunit import PyUnit, load_source_module
from dv.cfrag import CFragmentUnit
from dv.cunit import CUnit
from dv import cextract

SERVES = ("C12", "C36")
PFILE = "Cython/LZSS.py"


def dec_spec(b0, b1, b2):
    """(gap, length, size) of the back reference starting with bytes b0 b1 [b2] (all 0..255)"""
    short = b0 < 128
    mid = And(Not(short), b1 < 128)
    gap = If(short, b0,
             If(mid, 128 + (S.floordiv(b1, 32) % 4) * 128 + b0 % 128,
                128 + (b1 % 128) * 128 + b0 % 128))
    length = If(short, b1 + 3, If(mid, b1 % 32 + 3, b2 + 3))
    size = If(Or(short, mid), 2, 3)
    return gap, length, size


# ------------------------------------------------------------------------------------------ Python emission branch

def _py_requires():
    k = z3.Int("k!d")
    return [
        ("assumed postcondition of find_longest_match: no match, or 3 <= length <= 258 and offset >= 0",
         lambda e: And(e.length >= 0, e.length <= 258, e.offset >= 0, e.offset <= 2 ** 40)),
        ("0 <= pos < len(data), data holds bytes", lambda e: And(e.pos >= 0, e.pos < e.h0.len(e.data),
                                                                   z3.ForAll([k], And(e.h0.el(e.data, k) >= 0, e.h0.el(e.data, k) < 256)))),
        ("len(output) >= 0, stats has 5 counters, distinct objects",
         lambda e: And(e.h0.len(e.output) >= 0, e.h0.len(e.stats) == 5, e.output != e.data, e.output != e.stats, e.stats != e.data)),
    ]


def _py_post(e):
    h0, h = e.h0, e.h
    out = e.output
    n0 = h0.len(out)
    flag = e.vars["flag"].t
    new_len = e.vars["length"].t
    gap0 = e.offset - e.length
    b = [h.el(out, n0 + i) for i in range(3)]
    g, l, sz = dec_spec(b[0], b[1], b[2])
    i = z3.Int("i!fr")
    frame = And(z3.ForAll([i], Implies(And(i >= 0, i < n0), h.el(out, i) == h0.el(out, i))),
                h.len(e.data) == h0.len(e.data), h.els(e.data) == h0.els(e.data))
    literal = And(flag == 1, new_len == 1, h.len(out) == n0 + 1, b[0] == h0.el(e.data, e.pos))
    backref = And(flag == 0, new_len == e.length, e.length >= 3, gap0 >= 0,
                  h.len(out) == n0 + sz, g == gap0, l == e.length,
                  *[Implies(sz > k, And(b[k] >= 0, b[k] < 256)) for k in range(3)])
    return And(frame, Or(literal, backref))


def _py_search(seed, obname):
    """native differential on the whole compressor vs the real C decompressor (ctypes), incl. boundary gaps"""
    import ctypes
    import os
    import random
    import re
    import subprocess
    mod = load_source_module(PFILE)
    csrc = open(os.path.join(cextract.REPO, "Cython/Utility/StringTools.c")).read()
    fn = cextract.function_text(csrc, "__pyx_lzss_decompress")
    d = cextract.workdir()
    cfile = os.path.join(d, "lzss_dec.c")
    with open(cfile, "w") as f:
        f.write("#include <stdint.h>\n#include <string.h>\n#include <stddef.h>\n#define CYTHON_UNUSED\n#define CYTHON_SMALL_CODE\n"
                + re.sub(r"^static\s+CYTHON_SMALL_CODE", "", fn, flags=re.M).replace("CYTHON_UNUSED\n", ""))
    so = os.path.join(d, "lzss_dec.so")
    p = subprocess.run(["cc", "-shared", "-fPIC", "-O1", "-w", cfile, "-o", so], capture_output=True, text=True)
    if p.returncode != 0:
        return {"confirmed": False, "note": "native decoder build failed: " + p.stderr[-300:]}
    lib = ctypes.CDLL(so)
    lib.__pyx_lzss_decompress.restype = ctypes.c_size_t
    lib.__pyx_lzss_decompress.argtypes = [ctypes.c_char_p, ctypes.c_char_p, ctypes.c_size_t]
    rnd = random.Random(seed + 12)
    cases = [b"a" * n for n in (1, 2, 3, 4, 35, 130, 131, 256, 257, 258, 259, 300, 640)]
    for gap in (0, 1, 126, 127, 128, 129, 130, 511 + 128, 512 + 128, 513 + 128, 16383 + 128, 16384 + 128, 16385 + 128):
        for ln in (3, 4, 34, 35, 36, 258):
            x = bytes(rnd.randrange(256) for _ in range(ln))
            filler = bytes((i * 7 + 13) % 251 for i in range(gap))
            cases.append(x + filler + x)
    for _ in range(150):
        n = rnd.randint(1, 400)
        cases.append(bytes(rnd.choice(b"abc\0") for _ in range(n)))
    for data in cases:
        comp = mod.lzss_compress(data)
        buf = ctypes.create_string_buffer(len(data) + 600)
        src = comp + b"\0" * 16
        used = lib.__pyx_lzss_decompress(src, buf, len(data))
        if buf.raw[:len(data)] != data or used != len(comp):
            return {"inputs": {"data": repr(data[:80]) + ("..." if len(data) > 80 else ""), "len": len(data)},
                    "actual": {"decoded_ok": buf.raw[:len(data)] == data, "consumed": used, "compressed_len": len(comp)},
                    "confirmed": True,
                    "how": "LZSS.py loaded from source; __pyx_lzss_decompress extracted from StringTools.c, compiled with cc and "
                           "called through ctypes: round trip differs"}
    return {"confirmed": False, "tried": len(cases)}


# ------------------------------------------------------------------------------------------ C back-reference branch

def _tu():
    cextract.ensure_repo_on_path()
    import os
    import re
    csrc = open(os.path.join(cextract.REPO, "Cython/Utility/StringTools.c")).read()
    fn = cextract.function_text(csrc, "__pyx_lzss_decompress")
    if fn is None:
        raise cextract.CompileError("__pyx_lzss_decompress not found in StringTools.c")
    text = cextract.template_tu("#include <stdint.h>\n#include <string.h>\n"
                                + cextract.load_utility("SmallCodeConfig", "ModuleSetupCode.c") + fn)
    return text, "template route: function text of __pyx_lzss_decompress taken from Cython/Utility/StringTools.c, after the real module preamble"


def _strip(x):
    while isinstance(x, dict) and x.get("kind") in ("ImplicitCastExpr", "ParenExpr", "CStyleCastExpr") and x.get("inner"):
        x = x["inner"][0]
    return x


def _roles(func):
    """the decoder's cursor variables by what they DO: `pos` indexes the first parameter, `out_pos` the second, `flags` is
    tested against 0x100, `dst_len` is the third parameter"""
    params = [c.get("name") for c in func.get("inner", []) if c.get("kind") == "ParmVarDecl"]
    out = {}
    if len(params) >= 3:
        out["dst_len"] = params[2]

    def walk(x):
        if not isinstance(x, dict):
            return
        if x.get("kind") == "ArraySubscriptExpr" and len(x.get("inner", [])) == 2:
            base, idx = _strip(x["inner"][0]), _strip(x["inner"][1])
            while idx.get("kind") == "UnaryOperator" and idx.get("inner"):
                idx = _strip(idx["inner"][0])
            if base.get("kind") == "DeclRefExpr" and idx.get("kind") == "DeclRefExpr" and len(params) >= 2:
                b, i = base["referencedDecl"].get("name"), idx["referencedDecl"].get("name")
                if b == params[0]:
                    out.setdefault("pos", i)
                elif b == params[1]:
                    out.setdefault("out_pos", i)
        if x.get("kind") == "BinaryOperator" and x.get("opcode") == "&" and len(x.get("inner", [])) == 2:
            a, b = _strip(x["inner"][0]), _strip(x["inner"][1])
            for v, c in ((a, b), (b, a)):
                if v.get("kind") == "DeclRefExpr" and c.get("kind") == "IntegerLiteral" and c.get("value") == "256":
                    out.setdefault("flags", v["referencedDecl"].get("name"))
        for c in x.get("inner", []) or []:
            walk(c)
    walk(func)
    return out


def _find_backref_branch(func):
    """the else-branch of `if (flags & 1)` inside the decoding loop"""
    found = []
    flags_name = _roles(func).get("flags", "flags")

    def has_flags_and_1(n):
        ok = [False]

        def w(x):
            if isinstance(x, dict):
                if x.get("kind") == "BinaryOperator" and x.get("opcode") == "&":
                    names = []

                    def names_of(y):
                        if isinstance(y, dict):
                            if y.get("kind") == "DeclRefExpr":
                                names.append(y["referencedDecl"].get("name"))
                            if y.get("kind") == "IntegerLiteral":
                                names.append("#" + y.get("value", ""))
                            for c in y.get("inner", []) or []:
                                names_of(c)
                    names_of(x)
                    if flags_name in names and "#1" in names:
                        ok[0] = True
                for c in x.get("inner", []) or []:
                    w(c)
        w(n)
        return ok[0]

    def walk(x):
        if isinstance(x, dict):
            if x.get("kind") == "IfStmt" and len(x.get("inner", [])) == 3 and has_flags_and_1(x["inner"][0]):
                found.append(x["inner"][2])
            for c in x.get("inner", []) or []:
                walk(c)
    walk(func)
    return found[0] if found else None


def _c_requires():
    def pre(e):
        b = [z3.Select(e.mem0["src"], e.pos + i) for i in range(3)]
        g, l, sz = dec_spec(b[0], b[1], b[2])
        return And(e.pos >= 0, e.pos + sz <= e.src_len, e.src_len <= 2 ** 40, e.dst_len <= 2 ** 40, e.out_pos >= 0,
                   # the reference lies inside what has been decoded so far, and the copy fits the output buffer
                   g + l <= e.out_pos, e.out_pos + l <= e.dst_len)
    return [("enough source bytes; reference inside the decoded prefix; copy fits dst (token well-formedness)", pre)]


def _c_post(e):
    b = [z3.Select(e.mem0["src"], e.pos + i) for i in range(3)]
    g, l, sz = dec_spec(b[0], b[1], b[2])
    k = z3.Int("k!cp")
    return And(e.exit == "normal", e.pos_out == e.pos + sz, e.out_pos_out == e.out_pos + l,
               z3.ForAll([k], Implies(And(k >= 0, k < l),
                                      z3.Select(e.mem["dst"], e.out_pos + k) == z3.Select(e.mem0["dst"], e.out_pos - g - l + k))),
               z3.ForAll([k], Implies(Or(k < e.out_pos, k >= e.out_pos + l),
                                      z3.Select(e.mem["dst"], k) == z3.Select(e.mem0["dst"], k))))


# ------------------------------------------------------------------------------------------ C decoder, WHOLE FUNCTION
# Stream model (ghost): token k (0 <= k < N) starts at source position P(k) and at output position O(k); TOK is the inverse
# of P on token starts; every 8 tokens share one flags byte that precedes the group.  WF is the compressor's postcondition
# (ASSUMED here: the outer loop of lzss_compress is not under contract): token sizes / output lengths follow dec_spec, every
# back reference lies inside what has been decoded, the stream ends exactly when dst_len bytes have been produced.

P = z3.Function("lzss_token_pos", z3.IntSort(), z3.IntSort())
O = z3.Function("lzss_token_out", z3.IntSort(), z3.IntSort())
TOK = z3.Function("lzss_token_at", z3.IntSort(), z3.IntSort())
NTOK = z3.Int("lzss_tokens")
SRC_LEN = z3.Int("src_len")


def _bit(x, j):
    r = z3.IntVal(0)
    for b in range(7, -1, -1):
        r = If(j == b, (x / (2 ** b)) % 2, r)
    return r


def _shr(x, j):
    """x >> j for 0 <= j <= 7, as a chain of divisions by constants (a division by a symbolic power would be non-linear)"""
    r = x
    for b in range(7, 0, -1):
        r = If(j == b, x / (2 ** b), r)
    return r


def _flagpos(k):
    return P(8 * (k / 8)) - 1          # (z3's integer division: floor for a positive divisor)


FL = z3.Function("lzss_flags_at_token", z3.IntSort(), z3.IntSort())     # the value of the decoder's `flags` when token k is decoded


def _tok(src, k):
    """(is literal, source size, output length, gap) of token k.  The kind of a token is bit (k mod 8) of its group's flags byte f;
    it is stated through FL(k) = (f + 0xFF00) >> (k mod 8), the shifted flags word with its sentinel, by recursion over the group
    (WF below), so that no VC contains a shift by a symbolic amount; the lemma unit ...flags proves the closed form agrees."""
    lit = FL(k) % 2 == 1
    g, l, sz = dec_spec(z3.Select(src, P(k)), z3.Select(src, P(k) + 1), z3.Select(src, P(k) + 2))
    return lit, If(lit, 1, sz), If(lit, 1, l), g


def wf(src, src_len, dst_len):
    k = z3.Int("k!wf")
    lit, size, outlen, gap = _tok(src, k)
    return And(NTOK >= 1, P(0) == 1, O(0) == 0, O(NTOK) == dst_len,
               P(NTOK - 1) + _tok(src, NTOK - 1)[1] == src_len,
               z3.ForAll([k], Implies(And(k >= 0, k < NTOK), And(
                   TOK(P(k)) == k, P(k) >= 1, P(k) + size <= src_len, O(k) >= 0, O(k) < dst_len,
                   O(k + 1) == O(k) + outlen, O(k + 1) <= dst_len,
                   # (consequences of "N is the first index at which dst_len bytes exist", stated per token so that the instance
                   #  for the token at the cursor suffices)
                   (O(k + 1) < dst_len) == (k + 1 < NTOK), Implies(k + 1 == NTOK, P(k) + size == src_len),
                   Implies(Not(lit), gap + outlen <= O(k)),
                   P(k + 1) == P(k) + size + If((k + 1) % 8 == 0, 1, 0),
                   # the flags word: loaded with the sentinel at the start of a group, shifted once per token; bit 8 is set while
                   # tokens of the group remain, and after the eighth shift only the sentinel's low byte is left
                   Implies(k % 8 == 0, FL(k) == z3.Select(src, P(k) - 1) + 0xFF00),
                   Implies((k + 1) % 8 != 0, FL(k + 1) == FL(k) / 2),
                   Implies((k + 1) % 8 == 0, FL(k) / 2 == 0xFF),
                   FL(k) >= 0, FL(k) <= 0xFFFF, (FL(k) / 256) % 2 == 1)),
                   patterns=[TOK(P(k))]))      # instantiated for the token at the current position only (P(k+1) in the body would re-trigger itself)


class _OuterLoop:
    """while (1) { flags = src[pos++] | 0xFF00; ... }: at the head a new group of 8 tokens starts"""
    modifies_objs = ("dst",)

    def holds(self, ex, st):
        pos, out_pos = ex.local(st, "pos").t, ex.local(st, "out_pos").t
        k = TOK(pos + 1)
        # (one clause: the bounds follow from the instance of WF that the token term triggers)
        return [("a group starts here: the next byte is its flags byte; positions stay inside the buffers",
                 And(k % 8 == 0, k >= 0, k < NTOK, pos + 1 == P(k), out_pos == O(k),
                     pos >= 0, pos < SRC_LEN, out_pos >= 0, out_pos < ex.local(st, "dst_len").t))]


class _InnerLoop:
    """while (flags & 0x100) { one token; if (out_pos >= dst_len) return pos; flags >>= 1; }"""
    modifies_objs = ("dst",)

    def holds(self, ex, st):
        pos, out_pos, flags = ex.local(st, "pos").t, ex.local(st, "out_pos").t, ex.local(st, "flags").t
        src = st.mem["src"]
        k = TOK(pos)
        k2 = TOK(pos + 1)
        at_token = And(k >= 0, k < NTOK, pos == P(k), out_pos == O(k), flags == FL(k))
        group_done = And(k2 % 8 == 0, k2 >= 8, k2 < NTOK, pos + 1 == P(k2), out_pos == O(k2), flags == 0xFF)
        return [("at token k of its group with the flags shifted k mod 8 times, or the group is finished; positions stay inside the buffers",
                 And(Or(at_token, group_done), pos >= 0, pos < SRC_LEN, out_pos >= 0, out_pos < ex.local(st, "dst_len").t))]


def _backref_summary(ex, st, n):
    """the back-reference branch, by the contract that the fragment unit StringTools.lzss_decompress.backref proves for it"""
    from dv.cfe import CV

    class E:
        pass
    e = E()
    e.pos, e.out_pos = ex.local(st, "pos").t, ex.local(st, "out_pos").t
    e.src_len, e.dst_len = SRC_LEN, ex.local(st, "dst_len").t
    e.mem0 = dict(st.mem)
    for label, f in _c_requires():
        ex.oblige(st, "pre", "backref." + label, f(e), n)
    e.mem = dict(st.mem)
    e.mem["dst"] = ex.fresh("dst@backref", st.mem["dst"].sort())
    e.pos_out, e.out_pos_out, e.exit = ex.fresh("pos@backref"), ex.fresh("out_pos@backref"), "normal"
    st.path.append(_c_post(e))
    actual = {ex.roles().get(c, c): c for c in ("pos", "out_pos")}
    for rid, nm in st.names.items():
        role = actual.get(nm, nm if nm in ("pos", "out_pos") else None)
        if role and rid in st.vars:
            st.vars[rid] = CV(st.vars[rid].ty, e.pos_out if role == "pos" else e.out_pos_out)
    st.mem["dst"] = e.mem["dst"]
    ex.__dict__.setdefault("written", set()).add("dst")
    ex.assumptions.add("the back-reference branch is used by its contract (proved by the fragment unit StringTools.lzss_decompress.backref)")
    return [("normal", st, None)]


def _flag_lemmas():
    """the recursion WF states for FL is the closed form (f + 0xFF00) >> j, j = k mod 8, and has the properties WF lists for it"""
    f = z3.Int("f")
    byte = [f >= 0, f <= 255]
    X = lambda j: (f + 0xFF00) / (2 ** j)      # noqa: E731
    for j in range(8):
        yield "bit8_set_while_tokens_remain[j=%d]" % j, byte, (X(j) / 256) % 2 == 1
        yield "kind_is_bit_j_of_the_flags_byte[j=%d]" % j, byte, X(j) % 2 == (f / (2 ** j)) % 2
        yield "range[j=%d]" % j, byte, And(X(j) >= 0, X(j) <= 0xFFFF)
        if j < 7:
            yield "one_shift_per_token[j=%d]" % j, byte, X(j + 1) == X(j) / 2
    yield "sentinel_exhausted_after_8_shifts", byte, X(7) / 2 == 0xFF


def _whole_units():
    u = CUnit("StringTools.lzss_decompress", {"C12": ["post", "inv", "subset"], "C36": ["ub", "inv", "subset"]}, "__pyx_lzss_decompress", _tu,
              arrays={"src": ("uint8_t", lambda e: SRC_LEN), "dst": ("uint8_t", lambda e: z3.Int("dst_len"))},
              requires=[("the compressed data is a well-formed token stream for exactly dst_len output bytes (ASSUMED postcondition of lzss_compress)",
                         lambda e: And(wf(e.mem0["src"], SRC_LEN, e.dst_len), SRC_LEN >= 1, SRC_LEN <= 2 ** 40, e.dst_len >= 1, e.dst_len <= 2 ** 40))],
              ensures=[("exactly the compressed length is consumed", lambda e: e.result == SRC_LEN)],
              options={"invariants": {0: _OuterLoop(), 1: _InnerLoop()}, "merge": False, "summaries": [(_find_backref_branch, _backref_summary)], "name_roles": _roles,
                       "probe_unsigned": True},
              subject={"file": "Cython/Utility/StringTools.c"})
    u.search = _py_search
    u.replay = lambda model, ob=None: _py_search(0, getattr(ob, "name", None))
    u.concrete_search = lambda ob, regions=(): _py_search(0, getattr(ob, "name", None))
    from dv.lemma import LemmaUnit
    lem = LemmaUnit("StringTools.lzss_decompress.flags", {"C12": None}, _flag_lemmas,
                    subject={"file": "Cython/Utility/StringTools.c", "function": "(arithmetic of the flags word used by the lzss_decompress contract)"})
    return [u, lem]


def units(tier):
    us = []
    us.append(PyUnit("LZSS.lzss_compress.emit", {"C12": None}, PFILE, "lzss_compress",
                     [("offset", "int"), ("length", "int"), ("pos", "int"), ("data", "ref:list"), ("output", "ref:bytelist"),
                      ("stats", "ref:list")],
                     requires=_py_requires(),
                     ensures=[("appended bytes decode (dec_spec) to (offset-length, length) and are consumed exactly, or one literal", _py_post)],
                     search=_py_search, native=lambda m, o: _py_search(0, o),
                     options={"fragment": {"start": r"^flag = 0$", "end": r"^if flag == 1:"}, "elem_kind": {"list": "any", "bytelist": "int"}},
                     subject={"fragment": "emission branch of the main loop: from `flag = 0` to the `if flag == 1:` block"}))
    u = CFragmentUnit("StringTools.lzss_decompress.backref", {"C12": ["post", "subset"], "C36": ["ub", "subset"]},
                      "__pyx_lzss_decompress", _tu, _find_backref_branch,
                      variables=[("pos", "size_t"), ("out_pos", "size_t"), ("src_len", "size_t"), ("dst_len", "size_t")],
                      arrays={"src": ("uint8_t", lambda e: e.src_len), "dst": ("uint8_t", lambda e: e.dst_len)},
                      fragment_desc="else-branch of `if (flags & 1)` (back reference) in the decoding loop",
                      requires=_c_requires(),
                      ensures=[("consumes dec_spec's size, copies length bytes from out_pos-gap-length, nothing else changes", _c_post)],
                      options={"name_roles": _roles}, subject={"file": "Cython/Utility/StringTools.c"})
    u.search = _py_search
    us.append(u)
    us.extend(_whole_units())
    return us


REGIONS = {}
