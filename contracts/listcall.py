"""Contract for the helper selection of `list(x)` (C13), Optimize.OptimizeBuiltinCalls._handle_simple_function_list.

`list(x)` is compiled to PySequence_List(x) - always a NEW list - or to __Pyx_PySequence_ListKeepNew(x), which RETURNS ITS ARGUMENT
when that is an exact list with reference count 1.  Returning the argument is only correct when nothing else can reach it: when the
single reference belongs to a temporary of the compiler (the value of `x` is an intermediate result that dies with the call).  From
the statement ("the same result and exception as the original call for every argument value ... a list() call returns a new list"):
the keep-new helper may be selected only if the argument's result lives in a temporary (`arg.result_in_temp()`).
Subject: the whole function; the node constructor enters by a contract whose PRECONDITION is that condition; result_in_temp() is an
uninterpreted predicate of the node.  Not covered: the helper itself (refcount test), the other list() handler (generator expressions).
"""
import z3

from dv.spec import And, Or, Not, Implies, If
from dv.pyunit import PyUnit
from dv.pyfe import Callee, intern_id, PBool

SERVES = ("C13",)
FILE = "Cython/Compiler/Optimize.py"
FIELDS = {"obj:Node": {"type": "ref:obj:Type", "pos": "any", "is_temp": "any"},
          "obj:Type": {"is_pylist_type": "bool"},
          "obj:Transform": {"PySequence_List_func_type": "any"}}
RIT = z3.Function("result_in_temp", z3.IntSort(), z3.BoolSort())
KEEP = intern_id("__Pyx_PySequence_ListKeepNew")


def _callees():
    return {
        # (the value IS the predicate of the node: facts attached to a call inside a short-circuited operand would be scoped to that operand)
        "Node.result_in_temp": Callee("Node.result_in_temp", ["self"], result_kind=lambda ex, e: PBool(RIT(e.self))),
        "ExprNodes.PythonCapiCallNode": Callee(
            "ExprNodes.PythonCapiCallNode", ["pos", "name", "func_type", "args", "is_temp"], result_kind="ref:obj:Node",
            requires=[("the helper that may return its argument is selected only for an argument living in a temporary",
                       lambda e: Implies(e.name == KEEP, RIT(e.h0.el(e.args, 0))))]),
    }


def _native(model, obname):
    import os
    import subprocess
    from dv import cextract
    src = ("# cython: language_level=3\n"
           "def typed_local(n):\n    x = [3, 1, 2, 5, 4][:n]\n    y = list(x)\n    y.append(99)\n    return x, y, x is y\n"
           "def annotated(seq):\n    items: list = [v for v in seq]\n    c = list(items)\n    c.append(0)\n    return items, c, items is c\n"
           "def temp(n):\n    y = list([1, 2, 3][:n])\n    return y\n")
    try:
        ctext, cfile = cextract.compile_pyx(src, name="dvlistcall")
    except Exception as ex:
        return {"confirmed": False, "note": "compile failed: %r" % ex}
    d = os.path.dirname(cfile)
    p = subprocess.run(["clang", "-shared", "-fPIC", "-O0", "-w", "-I" + cextract.PY_INCLUDE, cfile, "-o", os.path.join(d, "dvlistcall.so")],
                       capture_output=True, text=True)
    if p.returncode != 0:
        return {"confirmed": False, "note": "build failed " + p.stderr[-300:]}
    code = ("import sys; sys.path.insert(0, %r); import dvlistcall as m\n"
            "bad = [(n, got, want) for n, got, want in (('y = list(x); y.append(99) with x a list-typed local', m.typed_local(3), ([3, 1, 2], [3, 1, 2, 99], False)), "
            "('items: list = [...]; c = list(items)', m.annotated((1, 2)), ([1, 2], [1, 2, 0], False)), ('list(<temporary>)', m.temp(2), [1, 2])) if got != want]\nprint(bad)\n" % d)
    r = subprocess.run(["/venv/bin/python", "-c", code], capture_output=True, text=True, timeout=120)
    out = r.stdout.strip() if r.returncode >= 0 else "crashed with signal %d" % -r.returncode
    return {"inputs": "list(x) for a list-typed local with a single reference, then mutation of the copy", "actual": (out or r.stderr[-300:])[:500],
            "expected": "a new list: the original is unchanged, `x is y` is False", "confirmed": out != "[]", "obligation": obname,
            "how": "module compiled by the working-tree compiler; results compared with CPython's"}


def units(tier):
    u = PyUnit("Optimize.OptimizeBuiltinCalls._handle_simple_function_list", {"C13": None}, FILE, "OptimizeBuiltinCalls._handle_simple_function_list",
               [("self", "ref:obj:Transform"), ("node", "ref:obj:Node"), ("function", "any"), ("pos_args", "ref:list")],
               requires=[("the positional arguments form a list", lambda e: e.h0.len(e.pos_args) >= 0)],
               ensures=[("(the obligation is the precondition of the node constructor at its call)", lambda e: z3.BoolVal(True))],
               callees=_callees(), native=_native, search=lambda seed, ob: _native({}, ob),
               options={"fields": FIELDS, "merge": False, "modules": {"PyrexTypes": "obj:Type", "ExprNodes": "obj:Class"},
                        "elem_kind": {"list": "ref:obj:Node"}, "dynamic_classes": ()})
    return [u]


REGIONS = {}
