"""Contract for the sizing of the code-object description struct (C44), Code.py::GlobalState.generate_codeobject_constants.

Every compiled function gets a code object built from a packed C struct whose bit-field widths are computed ONCE from all
code objects of the module:  `unsigned int first_line : max_line.bit_length()` etc.  The position table of a code object is
relative to co_firstlineno, so a first line that does not fit its bit field silently shifts every decoded position (the
C compiler only warns).  Subject: the statement fragment that computes the maxima (located by source anchors on every run).
Contract: after the loop, for EVERY code object of the module
    max_line >= its first line,  max_vars >= its number of variable names,
    and for every one that is not a generator expression  max_func_args / max_kwonly_args / max_posonly_args bound its counts.
Since x <= m implies x < 2 ** m.bit_length(), each value then fits the field declared from the corresponding maximum.
"""
import z3

from dv.spec import And, Or, Not, Implies
from dv.pyunit import PyUnit

SERVES = ("C44",)
FILE = "Cython/Compiler/Code.py"
GS, CN, DN = "obj:GlobalState", "obj:CodeObjectNode", "obj:DefNode"
FIELDS = {GS: {"codeobject_constants": "ref:list"},
          CN: {"def_node": "ref:" + DN, "varnames": "ref:list"},
          DN: {"is_generator_expression": "bool", "args": "ref:list", "num_kwonly_args": "int", "num_posonly_args": "int", "pos": "ref:list"}}


def _bounds(h, h0, vars_, nodes, upto):
    """every code object with index < upto is covered by the maxima"""
    j = z3.Int("j!co")
    node = h0.el(nodes, j)
    dn = h0.fld("def_node", node)
    line = h0.el(h0.fld("pos", dn), 1)
    nvars = h0.len(h0.fld("varnames", node))
    genexpr = h0.fld("is_generator_expression", dn) != 0
    nargs = h0.len(h0.fld("args", dn)) - h0.fld("num_kwonly_args", dn)
    return z3.ForAll([j], Implies(And(j >= 0, j < upto), And(
        vars_["max_line"].t >= line, vars_["max_vars"].t >= nvars,
        Implies(Not(genexpr), And(vars_["max_func_args"].t >= nargs, vars_["max_kwonly_args"].t >= h0.fld("num_kwonly_args", dn),
                                  vars_["max_posonly_args"].t >= h0.fld("num_posonly_args", dn))))))


class _Inv:
    modifies_heap = []

    def holds(self, ex, st, st0):
        nodes = st0.heap.fld("codeobject_constants", st0.vars["self"].addr)
        k = st.vars["_k0"].t
        return [("index", And(k >= 0, k <= st0.heap.len(nodes))),
                ("every code object visited so far is bounded by the maxima", _bounds(st.heap, st0.heap, st.vars, nodes, k)),
                ("the maxima are at least 1", And(*[st.vars[v].t >= 1 for v in ("max_line", "max_vars", "max_func_args", "max_kwonly_args", "max_posonly_args")]))]

    def decreases(self, ex, st):
        return st.heap.len(st.heap.fld("codeobject_constants", st.vars["self"].addr)) - st.vars["_k0"].t


def _post(e):
    nodes = e.h0.fld("codeobject_constants", e.self)
    return _bounds(e.h, e.h0, e.vars, nodes, e.h0.len(nodes))


def _native(model, obname):
    """generated module: a generator expression on a line above every def must keep its first line"""
    from dv import cextract
    src = "# cython: language_level=3\ndef f():\n    return 1\n" + "\n" * 70 + "g = (x for x in range(3))\n"
    try:
        ctext, cfile = cextract.compile_pyx(src, name="dvcodeobj")
    except Exception as ex:
        return {"confirmed": False, "note": "compile failed: %r" % ex}
    import re
    m = re.search(r"unsigned int first_line : (\d+);", ctext)
    line = src.count("\n")          # the genexpr is on the last line
    if m and (1 << int(m.group(1))) <= line:
        return {"inputs": {"module": "def on line 2, generator expression on line %d" % line}, "actual": "first_line : %s bits" % m.group(1),
                "expected": "at least %d bits" % line.bit_length(), "confirmed": True, "obligation": obname,
                "how": "module compiled with the working-tree compiler; the declared width of the first_line bit field is too small for the generator expression's line"}
    return {"confirmed": False, "tried": 1}


def units(tier):
    u = PyUnit("Code.GlobalState.generate_codeobject_constants[maxima]", {"C44": None}, FILE, "GlobalState.generate_codeobject_constants",
               [("self", "ref:" + GS)],
               requires=[("self.codeobject_constants is a list of code object nodes whose def_node.pos is a (file, line, column) sequence",
                          lambda e: And(e.h0.len(e.h0.fld("codeobject_constants", e.self)) >= 0,
                                        z3.ForAll([z3.Int("j!req")], e.h0.len(e.h0.fld("pos", e.h0.fld("def_node", e.h0.el(e.h0.fld("codeobject_constants", e.self), z3.Int("j!req"))))) == 3)))],
               ensures=[("every code object's first line, variable count and (for functions) argument counts are bounded by the maxima the "
                         "bit-field widths are computed from", _post)],
               native=_native, search=lambda seed, ob: _native({}, ob),
               options={"fragment": {"start": r"^max_func_args = 1$", "end": r"^for node in self\.codeobject_constants:$"},
                        "fields": FIELDS, "invariants": {0: _Inv()}, "elem_kind": {"list": "any"},
                        "for_elem": {0: lambda ex, s, cell: __import__("dv.pyfe", fromlist=["PRef"]).PRef(CN, cell)}},
               subject={"fragment": "from `max_func_args = 1` to the end of the first `for node in self.codeobject_constants:` loop"})
    return [u]


REGIONS = {}
