"""Contract for the constant folding of f-string fields (C18 kernel), Cython/Compiler/Optimize.py::ConstantFolding.visit_FormattedValueNode.

An f-string field `{value!conv:spec}` denotes format(conv(value), spec), which is a str.  The transform may replace the field
  * by a new unicode literal holding str(c) when the value is an int constant and there is no format spec, or
  * by the value node itself - only when that node IS a unicode string literal, no spec is given and the conversion is `s`
    (str() of a str is the str itself); a BYTES literal is also a "string literal" for the parser, but str(b'abc') is "b'abc'":
    handing the bytes node on makes the f-string evaluate to a bytes object (and breaks the join that assumes str parts);
  * otherwise the field node is returned (with an empty spec literal normalised to no spec).
Nodes are identities; the literal-kind tests are predicates of the node; constructors are contract stubs.
"""
import z3

from dv.spec import And, Or, Not, Implies
from dv.pyunit import PyUnit
from dv.pyfe import Callee

SERVES = ("C18",)
FILE = "Cython/Compiler/Optimize.py"
I = z3.IntSort()
IS_UNICODE_NODE = z3.Function("isinstance_UnicodeNode", I, z3.BoolSort())
FIELDS = {"obj:ConstantFolding": {}, "obj:Node": {"conversion_char": "any", "format_spec": "opt:obj:Node", "value": "ref:obj:Node", "pos": "any",
                                                   "is_string_literal": "bool", "constant_result": "any"}}
IS_INT_CONST = z3.Function("isinstance_int", I, z3.BoolSort())
STR_OF = z3.Function("str_of_constant", I, I)
G_NEW_VALUE = z3.Int("ghost.new_unicode_node.value")


def _callees():
    P = __import__("dv.pyfe", fromlist=["PAny", "PBool"])
    return {
        "ConstantFolding.visitchildren": Callee("ConstantFolding.visitchildren", ["self", "node"], result_kind="none"),
        "Node.has_constant_result": Callee("Node.has_constant_result", ["self"], result_kind="bool"),
        "str": Callee("str", ["x"], result_kind=lambda ex, e: P.PAny(STR_OF(e.x))),
        "EncodedString": Callee("EncodedString", ["s"], result_kind=lambda ex, e: P.PAny(e.s)),
        "ExprNodes.UnicodeNode": Callee("ExprNodes.UnicodeNode", ["pos", "value"], result_kind="ref:obj:Node", modifies=lambda e: [("alloc",)],
                                        ensures=[("a new unicode literal node with this text", lambda e: And(e.result >= z3.Int("H0.alloc"), IS_UNICODE_NODE(e.result),
                                                                                                        G_NEW_VALUE == e.value))]),
    }


def _post(e):
    r = e.result
    value = e.h0.fld("value", e.node)
    same_field = r == e.node
    new_literal = And(r >= z3.Int("H0.alloc"), IS_UNICODE_NODE(r), G_NEW_VALUE == STR_OF(e.h0.fld("constant_result", value)))
    the_value = And(r == value, IS_UNICODE_NODE(value))
    return Or(same_field, new_literal, the_value)


def _native(model, obname):
    import os
    import subprocess
    from dv import cextract
    src = ("# cython: language_level=3\n"
           "def f1(): return f\"{b'abc'}\"\ndef f2(): return f\"{b'abc'!s}\"\ndef f3(x): return f\"{x}{b'abc'}\"\n"
           "def f4(): return f\"{'abc'}\"\ndef f5(): return f\"{12}\"\ndef f6(): return f\"{'abc'!r}\"\n")
    try:
        ctext, cfile = cextract.compile_pyx(src, name="dvfstrfold")
    except Exception as ex:
        return {"inputs": "f-strings with a bytes literal field", "actual": "the compiler failed: %r" % (ex,), "expected": "the module compiles", "confirmed": True,
                "obligation": obname, "how": "module compiled by the working-tree compiler"}
    d = os.path.dirname(cfile)
    p = subprocess.run(["clang", "-shared", "-fPIC", "-O0", "-w", "-DNDEBUG", "-I" + cextract.PY_INCLUDE, cfile, "-o", os.path.join(d, "dvfstrfold.so")],
                       capture_output=True, text=True)
    if p.returncode != 0:
        return {"confirmed": False, "note": "build failed " + p.stderr[-300:]}
    code = r'''
import sys; sys.path.insert(0, %r); import dvfstrfold as m
def run(f, *a):
    try: return ("ok", f(*a))
    except Exception as e: return (type(e).__name__,)
want = {"f1": ("ok", "b'abc'"), "f2": ("ok", "b'abc'"), "f3": ("ok", "xb'abc'"), "f4": ("ok", "abc"), "f5": ("ok", "12"), "f6": ("ok", "'abc'")}
bad = [(n, run(getattr(m, n), *(["x"] if n == "f3" else [])), w) for n, w in want.items() if run(getattr(m, n), *(["x"] if n == "f3" else [])) != w]
print(bad)
''' % d
    r = subprocess.run(["/venv/bin/python", "-c", code], capture_output=True, text=True, timeout=120)
    out = r.stdout.strip() if r.returncode >= 0 else "crashed with signal %d" % -r.returncode
    return {"inputs": "f\"{b'abc'}\", f\"{b'abc'!s}\", f\"{x}{b'abc'}\", f\"{'abc'}\", f\"{12}\", f\"{'abc'!r}\"", "actual": (out or r.stderr[-300:])[:400],
            "expected": "the texts CPython produces (\"b'abc'\" for the bytes fields)", "confirmed": out != "[]", "obligation": obname,
            "how": "module compiled by the working-tree compiler; f-strings evaluated natively"}


def units(tier):
    u = PyUnit("Optimize.ConstantFolding.visit_FormattedValueNode", {"C18": None}, FILE, "ConstantFolding.visit_FormattedValueNode",
               [("self", "ref:obj:ConstantFolding"), ("node", "ref:obj:Node")],
               requires=[("the field's value is an existing node", lambda e: e.h0.fld("value", e.node) < z3.Int("H0.alloc"))],
               ensures=[("the field itself, a new unicode literal of str(int constant), or the value node only if that IS a unicode literal", _post)],
               callees=_callees(), native=_native, search=lambda seed, ob: _native({}, ob),
               options={"fields": FIELDS, "merge": False, "dynamic_classes": ("obj:Node",), "modules": {}, "opaque_names": ("int",),
                        "identity_functions": ()})
    return [u]


REGIONS = {}
