"""Contracts for the float(str/bytes/bytearray) fast path of Optimize.c::pybytes_as_double (C06 kernel; memory safety for C36).

Subjects (module route: the helpers as found in the C the working-tree compiler generates for `float(s)` on a bytes-typed
argument):
  * __Pyx__PyBytes_AsDouble_IsSpace(ch)            - which characters are stripped around the number
  * __Pyx__PyBytes_AsDouble_Copy(start, buffer, n) - removes the underscores of a numeric text before it is handed to
                                                     PyOS_string_to_double, or refuses (NULL => CPython's own parser decides)
From the statement ("float() of str/bytes/bytearray ... agree with CPython for every input ... the exception raised"):
  IsSpace is CPython's Py_ISSPACE on ASCII: exactly 0x20 and 0x09..0x0d.
  Copy may only drop an underscore that CPython (PEP 515) would accept: after the copy succeeds the text must be made of digits,
  '.', 'e'/'E' and signs to be parsed to its end, so an underscore is legal iff the character before it is none of
  `_ . e E + -` and the character after it none of `_ . e E` (a sign after it makes PyOS_string_to_double stop early, which
  falls back to CPython).  Contract: the result is NULL, or
      every underscore is inside the text, not directly after punctuation or a SIGN, not directly before punctuation,
      the buffer holds the text without its underscores followed by NUL, and the result points at that NUL;
  the writes stay inside a buffer of (number of non-underscore characters) + 1 bytes, which is what the caller provides.
NOT covered: PyOS_string_to_double itself, the inf/nan spellings, the whitespace loops and the dispatch of the callers.
"""
import z3

from dv.spec import And, Or, Not, Implies, If
from dv.cunit import CUnit
from dv.lemma import LemmaUnit
from dv.l3 import compiled
from dv import cextract

SERVES = ("C06", "C36")

PYX = """# cython: language_level=3
def fb(bytes s): return float(s)
def fs(str s): return float(s)
def fo(s): return float(s)
"""
NU = z3.Function("non_underscores_before", z3.IntSort(), z3.IntSort())


def _tu():
    return compiled(PYX, None, "dvfloatparse"), "module route: float(s) on bytes / str / object arguments, compiled by the working-tree compiler"


def punct(c):
    return Or(c == 95, c == 46, c == 101, c == 69)


def sign(c):
    return Or(c == 43, c == 45)


def nu_def(S, length):
    i = z3.Int("i!nu")
    return And(NU(0) == 0, z3.ForAll([i], Implies(And(i >= 0, i < length), NU(i + 1) == NU(i) + If(z3.Select(S, i) != 95, 1, 0))))


def nu_mono(length):
    i, a = z3.Ints("i!nm a!nm")
    return And(z3.ForAll([i], Implies(And(i >= 0, i <= length), And(NU(i) >= 0, NU(i) <= i))),
               z3.ForAll([a, i], Implies(And(0 <= a, a <= i, i <= length), And(NU(a) <= NU(i), NU(i) - NU(a) <= i - a))))


def placed(S, j):
    """the punctuation character at j is well placed with respect to its predecessor"""
    c, p = z3.Select(S, j), z3.Select(S, j - 1)
    return Implies(punct(c), And(j > 0, Not(punct(p)), Not(sign(p))))


def _strip(x):
    while isinstance(x, dict) and x.get("kind") in ("ImplicitCastExpr", "ParenExpr", "CStyleCastExpr") and x.get("inner"):
        x = x["inner"][0]
    return x


def _copy_roles(func):
    """the loop's variables by what they DO (renamed locals do not matter): `i` is the non-parameter variable of the loop
    condition; `last_was_punctuation` / `parse_error_found` are the int flags that start as 1 / 0 before the loop"""
    params = {c.get("name") for c in func.get("inner", []) if c.get("kind") == "ParmVarDecl"}
    out = {}
    inits = {}          # variable -> first constant it is initialised / assigned with, in source order, before the loop

    def const_of(x):
        x = _strip(x)
        return int(x["value"]) if x.get("kind") == "IntegerLiteral" else None

    def cond_var(x):
        x = _strip(x)
        if x.get("kind") == "DeclRefExpr" and x["referencedDecl"].get("name") not in params:
            return x["referencedDecl"].get("name")
        for c in x.get("inner", []) or []:
            v = cond_var(c)
            if v:
                return v
        return None

    def walk(x):
        if not isinstance(x, dict) or "i" in out:
            return
        k = x.get("kind")
        if k in ("ForStmt", "WhileStmt"):
            kids = x.get("inner", [])
            cond = kids[2] if k == "ForStmt" and len(kids) >= 5 else kids[0]
            if k == "ForStmt" and kids and kids[0]:
                walk_init(kids[0])
            v = cond_var(cond) if cond else None
            if v:
                out["i"] = v
            return
        if k == "VarDecl" and x.get("name") not in params and x.get("inner"):
            c = const_of(x["inner"][-1])
            if c is not None:
                inits.setdefault(x["name"], c)
        walk_init(x)
        for c in x.get("inner", []) or []:
            walk(c)

    def walk_init(x):
        if isinstance(x, dict) and x.get("kind") == "BinaryOperator" and x.get("opcode") == "=":
            l, c = _strip(x["inner"][0]), const_of(x["inner"][1])
            if l.get("kind") == "DeclRefExpr" and c is not None:
                inits.setdefault(l["referencedDecl"].get("name"), c)
    walk(func)
    for name, c in inits.items():
        if name == out.get("i"):
            continue
        if c == 1:
            out.setdefault("last_was_punctuation", name)
        elif c == 0:
            out.setdefault("parse_error_found", name)
    return out


class _CopyLoop:
    modifies_objs = ("buffer",)

    def holds(self, ex, st):
        S, B = st.mem["start"], st.mem["buffer"]
        i, length = ex.local(st, "i").t, ex.local(st, "length").t
        lwp, pef = ex.local(st, "last_was_punctuation").t, ex.local(st, "parse_error_found").t
        buf = ex.local(st, "buffer")
        j = z3.Int("j!cp")
        prev = z3.Select(S, i - 1)
        return [("index and output cursor", And(i >= 0, i <= length, buf.off == NU(i))),
                ("flags", And(Or(lwp == 0, lwp == 1), Or(pef == 0, pef == 1),
                              (lwp == 1) == Or(i == 0, punct(prev), sign(prev)))),
                ("no error so far: every punctuation character seen is well placed",
                 Implies(pef == 0, z3.ForAll([j], Implies(And(j >= 0, j < i), placed(S, j))))),
                ("the characters seen, minus underscores, are in the buffer",
                 z3.ForAll([j], Implies(And(j >= 0, j < i, z3.Select(S, j) != 95), z3.Select(B, NU(j)) == z3.Select(S, j))))]

    def decreases(self, ex, st):
        return ex.local(st, "length").t - ex.local(st, "i").t


def _copy_post(e):
    r = e.result
    if e.result_null:
        return True                         # refused: the caller falls back to CPython's own parser
    if not hasattr(r, "off") or r.obj != "buffer":
        return False
    S, B = e.mem0["start"], e.mem["buffer"]
    n = e.length
    j = z3.Int("j!post")
    under = z3.Select(S, j) == 95
    return And(r.off == NU(n), z3.Select(B, NU(n)) == 0,
               z3.ForAll([j], Implies(And(j >= 0, j < n, Not(under)), z3.Select(B, NU(j)) == z3.Select(S, j))),
               z3.ForAll([j], Implies(And(j >= 0, j < n, under),
                                      And(j > 0, j < n - 1, Not(punct(z3.Select(S, j - 1))), Not(sign(z3.Select(S, j - 1))),
                                          Not(punct(z3.Select(S, j + 1)))))))


CASES = ["1e-_5", "1e+_5", "1_0", "1__0", "_1", "1_", "1e_5", "1e5_", "1_e5", "1._5", "1_.5", "1.5_", "1e-5_0", "1e-5__0", "  1_0  ", "\t1.5\n",
         "1e-_5 ", "nan_", "in_f", "1e-", "1e+", "+_1", "-_1", "+1_0", "0x10", "1_000.000_1e1_0", " 1e-_5", "1 ", "infinity", "-Infinity", "INF",
         "nan", "+nan", "1.e5", ".5", ".", "e5", "1e", "--1", "+-1", "1 2", "1_-5", "1e_-5", "-.5_0", "1_0e-1_0", "1\x1c", "\x1c1", "1\x0b", "\x851", "1\xa0",
         "1_0" * 20, "1" * 45 + "_0", "-1_0e+0_5", "1e-0_5", "1_e-5", "1e-_", "_", "", " ", "1_0.", "1_0.e1", "+.5", "-_.5", "1e+5_", "1e++5", "1e-+5"]
# the str variant is only taken for non-ASCII strings: the same texts behind a no-break space, and lengths around the 40-byte stack buffer
CASES += ["\xa0" + c for c in list(CASES)] + [c + " " for c in CASES[:30]] + ["\xa0" + "1" * n for n in (38, 39, 40, 41, 80)] + \
         ["\xa0" + "1_0" * n for n in (12, 13, 14, 30)] + ["١٢", "\xa0١", "1\xa02", "\xa01\x1c", "\xa0\x1c1", "\x1c\xa01"]


def _native(model, ob=None):
    import os
    import subprocess
    ctext, cfile = cextract.compile_pyx(PYX, name="dvfloatparserep")
    d = os.path.dirname(cfile)
    so = os.path.join(d, "dvfloatparserep.so")
    p = subprocess.run(["clang", "-shared", "-fPIC", "-O0", "-g", "-w", "-fsanitize=address", "-I" + cextract.PY_INCLUDE, cfile, "-o", so],
                       capture_output=True, text=True)
    if p.returncode != 0:
        return {"confirmed": False, "note": "build failed " + p.stderr[-300:]}
    env = dict(os.environ, ASAN_OPTIONS="detect_leaks=0",
               LD_PRELOAD=subprocess.run(["clang", "-print-file-name=libclang_rt.asan-x86_64.so"], capture_output=True, text=True).stdout.strip())
    code = r'''
import sys; sys.path.insert(0, %r); import dvfloatparserep as m
def run(f, a):
    try: return ("ok", repr(f(a)))
    except Exception as e: return (type(e).__name__,)
bad = []
for c in %r:
    for name, f, a in (("str", m.fs, c), ("obj", m.fo, c)):
        if run(f, a) != run(float, a): bad.append((name, c, run(f, a), run(float, a)))
    try: b = c.encode("latin-1")
    except Exception: continue
    for name, f, a in (("bytes", m.fb, b), ("obj-bytes", m.fo, b), ("bytearray", m.fo, bytearray(b))):
        if run(f, a) != run(float, a): bad.append((name, c, run(f, a), run(float, a)))
print(bad[:4])
''' % (d, CASES)
    r = subprocess.run(["/venv/bin/python", "-c", code], capture_output=True, text=True, timeout=600, env=env)
    out = r.stdout.strip()
    if "AddressSanitizer" in r.stderr:
        lines = [l for l in r.stderr.splitlines() if "AddressSanitizer" in l or l.lstrip().startswith(("WRITE", "READ", "#0", "#1"))]
        out = "ASan: " + " | ".join(lines[:5])
    return {"inputs": "%d numeric / malformed texts (underscores next to signs, punctuation, ends; whitespace incl. 0x1c..0x1f, 0x85, 0xa0) as str, bytes, "
                      "bytearray, through the typed and the untyped route" % len(CASES), "actual": out or r.stderr[-400:], "confirmed": out != "[]",
            "how": "catalogue module built from the working tree; float(s) compared with CPython's float(s) (value repr / exception type)",
            "obligation": getattr(ob, "name", None)}


class _UniSpace:
    """CPython's own Unicode whitespace test for non-ASCII code points (an uninterpreted predicate of the code point)"""

    def apply(self, ex, st, args, n):
        from dv.cfe import CV, node_type
        r = z3.Function("PyUnicode_IsWhitespace", z3.IntSort(), z3.IntSort())(args[0].t)
        st.path.append(Or(r == 0, r == 1))
        ex.assumptions.add("Py_UNICODE_ISSPACE(ch) for ch > 127 is CPython's own table (_PyUnicode_IsWhitespace): an uninterpreted 0/1 function of the code point")
        return CV(node_type(n), r)


class _UCopyLoop:
    """the str variant: for (i = start; i < end; i++) over PyUnicode_READ(kind, data, i), leaving through `goto parse_failure`"""
    modifies_objs = ("buffer",)

    def holds(self, ex, st):
        D, B = st.mem["data"], st.mem["buffer"]
        i, start, end = ex.local(st, "i").t, ex.local(st, "start").t, ex.local(st, "end").t
        lwp = ex.local(st, "last_was_punctuation").t
        buf = ex.local(st, "buffer")
        j = z3.Int("j!ucp")
        prev = z3.Select(D, i - 1)
        return [("index and output cursor", And(i >= start, i <= end, buf.off == NU(i) - NU(start))),
                ("flag", And(Or(lwp == 0, lwp == 1), (lwp == 1) == Or(i == start, punct(prev), sign(prev)))),
                ("every character seen is ASCII and every punctuation character seen is well placed",
                 z3.ForAll([j], Implies(And(j >= start, j < i), And(z3.Select(D, j) <= 127, _uplaced(D, j, start))))),
                ("the characters seen, minus underscores, are in the buffer",
                 z3.ForAll([j], Implies(And(j >= start, j < i, z3.Select(D, j) != 95), z3.Select(B, NU(j) - NU(start)) == z3.Select(D, j))))]

    def decreases(self, ex, st):
        return ex.local(st, "end").t - ex.local(st, "i").t


def _uplaced(D, j, start):
    c, p = z3.Select(D, j), z3.Select(D, j - 1)
    return Implies(punct(c), And(j > start, Not(punct(p)), Not(sign(p))))


def _ucopy_post(e):
    r = e.result
    if e.result_null:
        return True
    if not hasattr(r, "off") or r.obj != "buffer":
        return False
    D, B = e.mem0["data"], e.mem["buffer"]
    j = z3.Int("j!upost")
    under = z3.Select(D, j) == 95
    n = NU(e.end) - NU(e.start)
    return And(r.off == n, z3.Select(B, n) == 0,
               z3.ForAll([j], Implies(And(j >= e.start, j < e.end), z3.Select(D, j) <= 127)),
               z3.ForAll([j], Implies(And(j >= e.start, j < e.end, Not(under)), z3.Select(B, NU(j) - NU(e.start)) == z3.Select(D, j))),
               z3.ForAll([j], Implies(And(j >= e.start, j < e.end, under),
                                      And(j > e.start, j < e.end - 1, Not(punct(z3.Select(D, j - 1))), Not(sign(z3.Select(D, j - 1))),
                                          Not(punct(z3.Select(D, j + 1)))))))


def _lemmas():
    """NU is non-decreasing, non-negative and at most its argument (induction over the upper index; schema applied by hand)"""
    S = z3.Array("S", z3.IntSort(), z3.IntSort())
    i, n = z3.Ints("i n")
    a = z3.Int("a")
    step = NU(n + 1) == NU(n) + If(z3.Select(S, n) != 95, 1, 0)

    def ih(n):
        return And(z3.ForAll([i], Implies(And(i >= 0, i <= n), And(NU(i) >= 0, NU(i) <= i))),
                   z3.ForAll([a, i], Implies(And(0 <= a, a <= i, i <= n), And(NU(a) <= NU(i), NU(i) - NU(a) <= i - a))))
    yield "NU.base", [NU(0) == 0], ih(z3.IntVal(0))
    yield "NU.step", [n >= 0, step, ih(n)], ih(n + 1)


def units(tier):
    props = {"C06": ["post", "inv", "pre", "subset"], "C36": ["ub", "inv", "subset"]}
    us = []
    u = CUnit("Optimize.AsDouble_IsSpace", props, "__Pyx__PyBytes_AsDouble_IsSpace", _tu, filt=["__Pyx__PyBytes_AsDouble_IsSpace"],
              ensures=[("Py_ISSPACE on ASCII: exactly 0x20 and 0x09..0x0d", lambda e: (e.result != 0) == Or(e.ch == 32, And(e.ch >= 9, e.ch <= 13)))],
              options={"merge": False}, subject={"file": "Cython/Utility/Optimize.c", "template": "pybytes_as_double"})
    u.replay = _native
    u.concrete_search = lambda ob, regions=(): _native({}, ob)
    us.append(u)
    u = CUnit("Optimize.AsDouble_Copy", props, "__Pyx__PyBytes_AsDouble_Copy", _tu, filt=["__Pyx__PyBytes_AsDouble_Copy"],
              arrays={"start": ("char", lambda e: z3.Int("length")), "buffer": ("char", lambda e: NU(z3.Int("length")) + 1)},
              requires=[("0 <= length, far below PY_SSIZE_T_MAX", lambda e: And(e.length >= 0, e.length <= 2 ** 40)),
                        ("NU(i) = number of non-underscore characters among the first i (definition)", lambda e: nu_def(e.mem0["start"], e.length)),
                        ("NU is non-decreasing (LemmaUnit Optimize.AsDouble_Copy.lemmas; induction schema applied by hand)", lambda e: nu_mono(e.length))],
              ensures=[("NULL, or the underscores are legal (PEP 515, none after a sign) and the buffer holds the text without them + NUL", _copy_post)],
              options={"merge": False, "invariants": {0: _CopyLoop()}, "name_roles": _copy_roles}, subject={"file": "Cython/Utility/Optimize.c", "template": "pybytes_as_double"})
    u.replay = _native
    u.concrete_search = lambda ob, regions=(): _native({}, ob)
    us.append(u)
    # ---- the str variant (non-ASCII strings): one unit per PyUnicode kind (the quick tier takes kind 1)
    kinds = [(1, "unsigned char")] if tier == "quick" else [(1, "unsigned char"), (2, "unsigned short"), (4, "unsigned int")]
    for kind, ctype in kinds:
        u = CUnit("Optimize.UnicodeAsDouble_Copy[kind=%d]" % kind, props, "__Pyx__PyUnicode_AsDouble_Copy", _tu,
                  filt=["__Pyx__PyUnicode_AsDouble_Copy", "PyUnicode_READ"], defines=("NDEBUG",),
                  arrays={"data": (ctype, lambda e: z3.Int("end") + 1), "buffer": ("char", lambda e: z3.Int("end") - z3.Int("start") + 1)},
                  requires=[("0 <= start <= end, far below PY_SSIZE_T_MAX (the stripped text; `end` is exclusive)",
                             lambda e: And(e.start >= 0, e.start <= e.end, e.end <= 2 ** 40)),
                            # (the buffer extent above is what the caller provides: number[40] for a length < 40, else malloc(length + 1))
                            ("NU(i) = number of non-underscore characters among the first i (definition)", lambda e: nu_def(e.mem0["data"], e.end)),
                            ("NU is non-decreasing (LemmaUnit Optimize.AsDouble_Copy.lemmas)", lambda e: nu_mono(e.end))],
                  ensures=[("NULL, or the text is ASCII, its underscores are legal (PEP 515, none after a sign) and the buffer holds it without them + NUL",
                            _ucopy_post)],
                  options={"merge": False, "invariants": {0: _UCopyLoop()}, "inline": ("PyUnicode_READ",), "name_roles": _copy_roles,
                           "enum_values": {"PyUnicode_1BYTE_KIND": 1, "PyUnicode_2BYTE_KIND": 2, "PyUnicode_4BYTE_KIND": 4}},
                  subject={"file": "Cython/Utility/Optimize.c", "template": "pyunicode_as_double", "instantiation": "kind=%d" % kind})
        u.consts = {"kind": kind}
        u.replay = _native
        u.concrete_search = lambda ob, regions=(): _native({}, ob)
        us.append(u)
    u = CUnit("Optimize.UnicodeAsDouble_IsSpace", props, "__Pyx__PyUnicode_AsDouble_IsSpace", _tu, filt=["__Pyx__PyUnicode_AsDouble_IsSpace"],
              requires=[("a code point", lambda e: And(e.ch >= 0, e.ch <= 0x10FFFF))],
              ensures=[("ASCII: exactly 0x20 and 0x09..0x0d (what CPython's bytes parser strips; NOT 0x1c..0x1f); above: Py_UNICODE_ISSPACE",
                        lambda e: Implies(e.ch <= 127, (e.result != 0) == Or(e.ch == 32, And(e.ch >= 9, e.ch <= 13))))],
              callees={"Py_UNICODE_ISSPACE": _UniSpace()},
              options={"merge": False}, subject={"file": "Cython/Utility/Optimize.c", "template": "pyunicode_as_double"})
    u.replay = _native
    u.concrete_search = lambda ob, regions=(): _native({}, ob)
    us.append(u)
    us.append(LemmaUnit("Optimize.AsDouble_Copy.lemmas", {"C06": None}, _lemmas,
                        subject={"file": "Cython/Utility/Optimize.c", "function": "(monotonicity of the ghost counter used by the AsDouble_Copy contract)"}))
    return us


REGIONS = {}
