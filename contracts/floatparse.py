"""Contracts for the float(str/bytes/bytearray) fast path of Optimize.c::pybytes_as_double (C06 kernel; memory safety for C36).

Subjects (module route: the helpers as found in the C the working-tree compiler generates for `float(s)` on a bytes-typed
argument):
  * __Pyx__PyBytes_AsDouble_IsSpace(ch)            - which characters are stripped around the number
  * __Pyx__PyBytes_AsDouble_Copy(start, buffer, n) - removes the underscores of a numeric text before it is handed to
                                                     PyOS_string_to_double, or refuses (NULL => CPython's own parser decides)
From the statement ("float() of str/bytes/bytearray ... agree with CPython for every input ... the exception raised"):
  IsSpace is CPython's Py_ISSPACE on ASCII: exactly 0x20 and 0x09..0x0d.
  Copy may only drop an underscore that CPython (PEP 515) would accept: after the copy succeeds the text must be made of digits,
  '.', 'e'/'E' and signs to be parsed to its end, so an underscore is legal iff the character before it is none of
  `_ . e E + -` and the character after it none of `_ . e E` (a sign after it makes PyOS_string_to_double stop early, which
  falls back to CPython).  Contract: the result is NULL, or
      every underscore is inside the text, not directly after punctuation or a SIGN, not directly before punctuation,
      the buffer holds the text without its underscores followed by NUL, and the result points at that NUL;
  the writes stay inside a buffer of (number of non-underscore characters) + 1 bytes, which is what the caller provides.
NOT covered: PyOS_string_to_double itself, the inf/nan spellings, the whitespace loops and the dispatch of the callers.
"""
import z3

from dv.spec import And, Or, Not, Implies, If
from dv.cunit import CUnit
from dv.lemma import LemmaUnit
from dv.l3 import compiled
from dv import cextract

SERVES = ("C06", "C36")

PYX = """# cython: language_level=3
def fb(bytes s): return float(s)
def fs(str s): return float(s)
def fo(s): return float(s)
"""
NU = z3.Function("non_underscores_before", z3.IntSort(), z3.IntSort())


def _tu():
    return compiled(PYX, None, "dvfloatparse"), "module route: float(s) on bytes / str / object arguments, compiled by the working-tree compiler"


def punct(c):
    return Or(c == 95, c == 46, c == 101, c == 69)


def sign(c):
    return Or(c == 43, c == 45)


def nu_def(S, length):
    i = z3.Int("i!nu")
    return And(NU(0) == 0, z3.ForAll([i], Implies(And(i >= 0, i < length), NU(i + 1) == NU(i) + If(z3.Select(S, i) != 95, 1, 0))))


def nu_mono(length):
    i, a = z3.Ints("i!nm a!nm")
    return And(z3.ForAll([i], Implies(And(i >= 0, i <= length), And(NU(i) >= 0, NU(i) <= i))),
               z3.ForAll([a, i], Implies(And(0 <= a, a <= i, i <= length), NU(a) <= NU(i))))


def placed(S, j):
    """the punctuation character at j is well placed with respect to its predecessor"""
    c, p = z3.Select(S, j), z3.Select(S, j - 1)
    return Implies(punct(c), And(j > 0, Not(punct(p)), Not(sign(p))))


class _CopyLoop:
    modifies_objs = ("buffer",)

    def holds(self, ex, st):
        S, B = st.mem["start"], st.mem["buffer"]
        i, length = ex.local(st, "i").t, ex.local(st, "length").t
        lwp, pef = ex.local(st, "last_was_punctuation").t, ex.local(st, "parse_error_found").t
        buf = ex.local(st, "buffer")
        j = z3.Int("j!cp")
        prev = z3.Select(S, i - 1)
        return [("index and output cursor", And(i >= 0, i <= length, buf.off == NU(i))),
                ("flags", And(Or(lwp == 0, lwp == 1), Or(pef == 0, pef == 1),
                              (lwp == 1) == Or(i == 0, punct(prev), sign(prev)))),
                ("no error so far: every punctuation character seen is well placed",
                 Implies(pef == 0, z3.ForAll([j], Implies(And(j >= 0, j < i), placed(S, j))))),
                ("the characters seen, minus underscores, are in the buffer",
                 z3.ForAll([j], Implies(And(j >= 0, j < i, z3.Select(S, j) != 95), z3.Select(B, NU(j)) == z3.Select(S, j))))]

    def decreases(self, ex, st):
        return ex.local(st, "length").t - ex.local(st, "i").t


def _copy_post(e):
    r = e.result
    if e.result_null:
        return True                         # refused: the caller falls back to CPython's own parser
    if not hasattr(r, "off") or r.obj != "buffer":
        return False
    S, B = e.mem0["start"], e.mem["buffer"]
    n = e.length
    j = z3.Int("j!post")
    under = z3.Select(S, j) == 95
    return And(r.off == NU(n), z3.Select(B, NU(n)) == 0,
               z3.ForAll([j], Implies(And(j >= 0, j < n, Not(under)), z3.Select(B, NU(j)) == z3.Select(S, j))),
               z3.ForAll([j], Implies(And(j >= 0, j < n, under),
                                      And(j > 0, j < n - 1, Not(punct(z3.Select(S, j - 1))), Not(sign(z3.Select(S, j - 1))),
                                          Not(punct(z3.Select(S, j + 1)))))))


CASES = ["1e-_5", "1e+_5", "1_0", "1__0", "_1", "1_", "1e_5", "1e5_", "1_e5", "1._5", "1_.5", "1.5_", "1e-5_0", "1e-5__0", "  1_0  ", "\t1.5\n",
         "1e-_5 ", "nan_", "in_f", "1e-", "1e+", "+_1", "-_1", "+1_0", "0x10", "1_000.000_1e1_0", " 1e-_5", "1 ", "infinity", "-Infinity", "INF",
         "nan", "+nan", "1.e5", ".5", ".", "e5", "1e", "--1", "+-1", "1 2", "1_-5", "1e_-5", "-.5_0", "1_0e-1_0", "1\x1c", "\x1c1", "1\x0b", "\x851", "1\xa0",
         "1_0" * 20, "1" * 45 + "_0", "-1_0e+0_5", "1e-0_5", "1_e-5", "1e-_", "_", "", " ", "1_0.", "1_0.e1", "+.5", "-_.5", "1e+5_", "1e++5", "1e-+5"]


def _native(model, ob=None):
    import os
    import subprocess
    ctext, cfile = cextract.compile_pyx(PYX, name="dvfloatparserep")
    d = os.path.dirname(cfile)
    so = os.path.join(d, "dvfloatparserep.so")
    p = subprocess.run(["clang", "-shared", "-fPIC", "-O0", "-w", "-I" + cextract.PY_INCLUDE, cfile, "-o", so], capture_output=True, text=True)
    if p.returncode != 0:
        return {"confirmed": False, "note": "build failed " + p.stderr[-300:]}
    code = r'''
import sys; sys.path.insert(0, %r); import dvfloatparserep as m
def run(f, a):
    try: return ("ok", repr(f(a)))
    except Exception as e: return (type(e).__name__,)
bad = []
for c in %r:
    for name, f, a in (("str", m.fs, c), ("obj", m.fo, c)):
        if run(f, a) != run(float, a): bad.append((name, c, run(f, a), run(float, a)))
    try: b = c.encode("latin-1")
    except Exception: continue
    for name, f, a in (("bytes", m.fb, b), ("obj-bytes", m.fo, b), ("bytearray", m.fo, bytearray(b))):
        if run(f, a) != run(float, a): bad.append((name, c, run(f, a), run(float, a)))
print(bad[:4])
''' % (d, CASES)
    r = subprocess.run(["/venv/bin/python", "-c", code], capture_output=True, text=True, timeout=300)
    out = r.stdout.strip()
    return {"inputs": "%d numeric / malformed texts (underscores next to signs, punctuation, ends; whitespace incl. 0x1c..0x1f, 0x85, 0xa0) as str, bytes, "
                      "bytearray, through the typed and the untyped route" % len(CASES), "actual": out or r.stderr[-400:], "confirmed": out != "[]",
            "how": "catalogue module built from the working tree; float(s) compared with CPython's float(s) (value repr / exception type)",
            "obligation": getattr(ob, "name", None)}


def _lemmas():
    """NU is non-decreasing, non-negative and at most its argument (induction over the upper index; schema applied by hand)"""
    S = z3.Array("S", z3.IntSort(), z3.IntSort())
    i, n = z3.Ints("i n")
    a = z3.Int("a")
    step = NU(n + 1) == NU(n) + If(z3.Select(S, n) != 95, 1, 0)

    def ih(n):
        return And(z3.ForAll([i], Implies(And(i >= 0, i <= n), And(NU(i) >= 0, NU(i) <= i))),
                   z3.ForAll([a, i], Implies(And(0 <= a, a <= i, i <= n), NU(a) <= NU(i))))
    yield "NU.base", [NU(0) == 0], ih(z3.IntVal(0))
    yield "NU.step", [n >= 0, step, ih(n)], ih(n + 1)


def units(tier):
    props = {"C06": ["post", "inv", "pre", "subset"], "C36": ["ub", "inv", "subset"]}
    us = []
    u = CUnit("Optimize.AsDouble_IsSpace", props, "__Pyx__PyBytes_AsDouble_IsSpace", _tu, filt=["__Pyx__PyBytes_AsDouble_IsSpace"],
              ensures=[("Py_ISSPACE on ASCII: exactly 0x20 and 0x09..0x0d", lambda e: (e.result != 0) == Or(e.ch == 32, And(e.ch >= 9, e.ch <= 13)))],
              options={"merge": False}, subject={"file": "Cython/Utility/Optimize.c", "template": "pybytes_as_double"})
    u.replay = _native
    u.concrete_search = lambda ob, regions=(): _native({}, ob)
    us.append(u)
    u = CUnit("Optimize.AsDouble_Copy", props, "__Pyx__PyBytes_AsDouble_Copy", _tu, filt=["__Pyx__PyBytes_AsDouble_Copy"],
              arrays={"start": ("char", lambda e: z3.Int("length")), "buffer": ("char", lambda e: NU(z3.Int("length")) + 1)},
              requires=[("0 <= length, far below PY_SSIZE_T_MAX", lambda e: And(e.length >= 0, e.length <= 2 ** 40)),
                        ("NU(i) = number of non-underscore characters among the first i (definition)", lambda e: nu_def(e.mem0["start"], e.length)),
                        ("NU is non-decreasing (LemmaUnit Optimize.AsDouble_Copy.lemmas; induction schema applied by hand)", lambda e: nu_mono(e.length))],
              ensures=[("NULL, or the underscores are legal (PEP 515, none after a sign) and the buffer holds the text without them + NUL", _copy_post)],
              options={"merge": False, "invariants": {0: _CopyLoop()}}, subject={"file": "Cython/Utility/Optimize.c", "template": "pybytes_as_double"})
    u.replay = _native
    u.concrete_search = lambda ob, regions=(): _native({}, ob)
    us.append(u)
    us.append(LemmaUnit("Optimize.AsDouble_Copy.lemmas", {"C06": None}, _lemmas,
                        subject={"file": "Cython/Utility/Optimize.c", "function": "(monotonicity of the ghost counter used by the AsDouble_Copy contract)"}))
    return us


REGIONS = {}
