"""Contracts for slicing of lists and tuples with C bounds (C15 kernel; memory safety for C36), ObjectHandling.c::SliceTupleAndList.

Subject (module route: the helpers as found in the C the working-tree compiler generates for `l[a:b]` / `t[a:b]` on typed
receivers with Py_ssize_t bounds):
  * __Pyx_crop_slice(&start, &stop, &length)   - normalises the bounds against the length
From the statement ("slicing ... agree with CPython for every index or slice value ... negative and out-of-range values"):
for ALL Py_ssize_t start / stop and every length >= 0 the helper's outputs describe exactly the slice CPython's
PySlice_AdjustIndices(length, &start, &stop, 1) describes:
    new length <= 0  exactly when CPython's slice is empty;  otherwise  new start == CPython's start, new length == CPython's length,
    and [start, start + length) lies inside [0, length)  (what the callers then copy from ob_item);
no signed overflow on the way (C36).  The callers __Pyx_PyList_GetSlice_locked / __Pyx_PyTuple_GetSlice copy `length` items
from ob_item + start (an empty result for length <= 0): their use of the outputs is not under contract.
"""
import z3

from dv.spec import And, Or, Not, Implies, If
from dv.cunit import CUnit
from dv.l3 import compiled
from dv import cextract

SERVES = ("C15", "C36")

PYX = """# cython: language_level=3
def sl_list(list l, Py_ssize_t a, Py_ssize_t b): return l[a:b]
def sl_tuple(tuple t, Py_ssize_t a, Py_ssize_t b): return t[a:b]
def sl_list0(list l, Py_ssize_t b): return l[:b]
def sl_tuple1(tuple t, Py_ssize_t a): return t[a:]
"""


def _tu():
    return compiled(PYX, None, "dvslicing"), "module route: l[a:b] / t[a:b] on typed receivers with Py_ssize_t bounds, compiled by the working-tree compiler"


def adjust(length, start, stop):
    """CPython Objects/sliceobject.c::PySlice_AdjustIndices for step == 1 -> (start, stop, slice length).  Dual mode."""
    s1 = If(start < 0, If(start + length < 0, 0, start + length), If(start >= length, length, start))
    e1 = If(stop < 0, If(stop + length < 0, 0, stop + length), If(stop >= length, length, stop))
    return s1, e1, If(s1 < e1, e1 - s1, 0)


def _post(e):
    s1, e1, n1 = adjust(e._length, e._start, e._stop)
    ns, nl = e._start_out, e._length_out
    return And((nl <= 0) == (n1 == 0),
               Implies(nl > 0, And(ns == s1, nl == n1, ns >= 0, ns + nl <= e._length)))


def _native(model, ob=None):
    import os
    import subprocess
    ctext, cfile = cextract.compile_pyx(PYX, name="dvslicingrep")
    d = os.path.dirname(cfile)
    so = os.path.join(d, "dvslicingrep.so")
    p = subprocess.run(["clang", "-shared", "-fPIC", "-O0", "-g", "-w", "-DNDEBUG", "-fsanitize=address", "-I" + cextract.PY_INCLUDE, cfile, "-o", so],
                       capture_output=True, text=True)
    if p.returncode != 0:
        return {"confirmed": False, "note": "build failed " + p.stderr[-300:]}
    env = dict(os.environ, ASAN_OPTIONS="detect_leaks=0",
               LD_PRELOAD=subprocess.run(["clang", "-print-file-name=libclang_rt.asan-x86_64.so"], capture_output=True, text=True).stdout.strip())
    code = r'''
import sys; sys.path.insert(0, %r); import dvslicingrep as m
MAX, MIN = 2**63 - 1, -2**63
vals = [0, 1, 2, 3, 4, 7, -1, -2, -3, -4, -7, MAX, MAX - 1, MAX - 2, MAX - 3, MIN, MIN + 1, MIN + 2, MIN + 3, MIN + 7, 2**62, -2**62, 2**31, -2**31]
def run(f):
    try: return ("ok", f())
    except Exception as e: return (type(e).__name__,)
bad = []
for n in (0, 1, 3, 5):
    l = list(range(n)); t = tuple(l)
    for a in vals:
        for b in vals:
            for name, got, want in (("list", run(lambda: m.sl_list(l, a, b)), ("ok", l[a:b])), ("tuple", run(lambda: m.sl_tuple(t, a, b)), ("ok", t[a:b]))):
                if got != want: bad.append((name, n, a, b, got[0], len(want[1])))
        if run(lambda: m.sl_list0(l, a)) != ("ok", l[:a]): bad.append(("list[:b]", n, a))
        if run(lambda: m.sl_tuple1(t, a)) != ("ok", t[a:]): bad.append(("tuple[a:]", n, a))
print(bad[:4]); print(len(bad))
''' % d
    r = subprocess.run(["/venv/bin/python", "-c", code], capture_output=True, text=True, timeout=600, env=env)
    out = r.stdout.strip()
    if "AddressSanitizer" in r.stderr or r.returncode < 0:
        lines = [l for l in r.stderr.splitlines() if "AddressSanitizer" in l or l.lstrip().startswith(("READ", "WRITE", "#0", "#1", "#2"))]
        out = "crash / ASan (exit %d): " % r.returncode + " | ".join(lines[:5])
    ok = out.splitlines()[:1] == ["[]"]
    return {"inputs": "lists / tuples of length 0, 1, 3, 5 sliced with every pair of 24 boundary values (0, +-1..7, +-2**31, +-2**62, the ends of Py_ssize_t)",
            "actual": (out or r.stderr[-400:])[:700], "confirmed": not ok,
            "how": "catalogue module built from the working tree with ASan; result compared with CPython's slicing", "obligation": getattr(ob, "name", None)}


def units(tier):
    u = CUnit("ObjectHandling.crop_slice", {"C15": ["post", "pre", "subset"], "C36": ["ub", "subset"]}, "__Pyx_crop_slice", _tu,
              filt=["__Pyx_crop_slice"], cells=("_start", "_stop", "_length"),
              requires=[("0 <= length, far below PY_SSIZE_T_MAX (the size of a list / tuple)", lambda e: And(e._length >= 0, e._length < 2 ** 60))],
              ensures=[("the outputs describe exactly the slice of PySlice_AdjustIndices (empty iff it is empty; else same start and length, inside the sequence)",
                        _post)],
              options={"merge": False}, subject={"file": "Cython/Utility/ObjectHandling.c", "template": "SliceTupleAndList"})
    u.replay = _native
    u.concrete_search = lambda ob, regions=(): _native({}, ob)
    return [u]


REGIONS = {}


def side_checks(prop, tier, seed, kf_entries):
    """the transcription of PySlice_AdjustIndices against CPython's own slicing (slice.indices) on a grid"""
    MAX, MIN = 2 ** 63 - 1, -2 ** 63
    vals = [0, 1, 2, 3, 5, -1, -2, -3, -5, MAX, MAX - 1, MIN, MIN + 1, 2 ** 62, -2 ** 62]
    bad = n = 0
    first = None
    for length in (0, 1, 3, 5, 2 ** 40):
        for a in vals:
            for b in vals:
                n += 1
                s, e, k = adjust(length, a, b)
                cs, ce, _ = slice(a, b).indices(length)
                want = (cs, max(ce - cs, 0))
                if (int(s), int(k)) != want and not (k == 0 and want[1] == 0):
                    bad += 1
                    first = first or (length, a, b, (int(s), int(k)), want)
    out = [{"kind": "spec-validation", "name": "adjust() (PySlice_AdjustIndices, step 1) vs slice(a, b).indices(length)", "cases": n, "disagree": bad}]
    if bad:
        out.append({"kind": "side-check-failure", "name": "slice-adjust-validation", "text": repr(first)})
    return out
