"""Contract for the directive value parser (C41 kernel), Cython/Compiler/Options.py::parse_directive_value.

From the statement ("directive strings are either parsed to the documented value or rejected with an error"), for every
directive whose declared type is `bool` (boundscheck, wraparound, cdivision, ... - the bulk of the directives):
    the function returns True only for the text 'True' (or, with relaxed_bool, a text whose lower() is 'true' / 'yes'),
    returns False only for 'False' (relaxed: 'false' / 'no'), and rejects EVERY other text with ValueError; it never
    returns anything else, for all texts.
Texts are abstract identities (distinct constants <-> distinct identities), str.lower() is an uninterpreted function of the
identity, `directive_types.get(name)` is an opaque lookup.
"""
import z3

from dv.spec import And, Or, Not, Implies
from dv.pyunit import PyUnit, load_source_module
from dv.pyfe import Callee, intern_id

SERVES = ("C41",)
FILE = "Cython/Compiler/Options.py"
LOWER = z3.Function("method_lower", z3.IntSort(), z3.IntSort())
TRUTHY = z3.Function("truthy", z3.IntSort(), z3.BoolSort())
BOOL = intern_id("name:bool")


def _is(v, *texts):
    return Or(*[v == intern_id(t) for t in texts])


def _post(e):
    r = e.result
    v = e.value
    if r is None:
        return False                      # a bool directive never parses to None
    if not z3.is_bool(r):
        return False
    true_ok = Or(_is(v, "True"), And(e.relaxed_bool, _is(LOWER(v), "true", "yes")))
    false_ok = Or(_is(v, "False"), And(e.relaxed_bool, _is(LOWER(v), "false", "no")))
    return And(Implies(r, true_ok), Implies(Not(r), false_ok))


def _raise_ok(e):
    v = e.value
    accepted = Or(_is(v, "True", "False"), And(e.relaxed_bool, _is(LOWER(v), "true", "yes", "false", "no")))
    return Not(accepted)                  # ValueError only for texts that are not documented spellings


def _native(model, obname):
    mod = load_source_module(FILE, "dvsubject_Options")
    cases = ["True", "False", "true", "false", "yes", "no", "Yes", "NO", "1", "0", "", "TRUE", " True", "on", "off", "None", "y", "n"]
    for relaxed in (False, True):
        for text in cases:
            want = {"True": True, "False": False}.get(text)
            if want is None and relaxed:
                want = {"true": True, "yes": True, "false": False, "no": False}.get(text.lower())
            try:
                got = ("ok", mod.parse_directive_value("boundscheck", text, relaxed_bool=relaxed))
            except ValueError:
                got = ("ValueError",)
            exp = ("ok", want) if want is not None else ("ValueError",)
            if got != exp:
                return {"inputs": {"name": "boundscheck", "value": text, "relaxed_bool": relaxed}, "actual": repr(got), "expected": repr(exp),
                        "confirmed": True, "obligation": obname, "how": "Options.py loaded from source; parse_directive_value on a bool directive"}
    return {"confirmed": False, "tried": 2 * len(cases)}


# ------------------------------------------------------------------------------------------------------------
# InterpretCompilerDirectives.try_to_parse_directive: the value a scoped directive (decorator / with-block) denotes

PTT = "Cython/Compiler/ParseTreeTransforms.py"
DEFAULTS = z3.Int("ghost.builtin_directive_defaults")       # the dict returned by Options.get_directive_defaults()
IS_NONE_NODE = z3.Function("isinstance_NoneNode", z3.IntSort(), z3.BoolSort())
IS_BOOL_NODE = z3.Function("isinstance_BoolNode", z3.IntSort(), z3.BoolSort())


def _scoped_post(e):
    r = e.result
    if not isinstance(r, tuple) or len(r) != 2:
        return False
    a0 = e.h0.el(e.args, 0)
    n_args = e.h0.len(e.args)
    none_form = And(n_args == 1, IS_NONE_NODE(a0))
    bool_form = And(e.kwds == -1, n_args == 1, IS_BOOL_NODE(a0))
    return And(r[0] == e.optname,
               Implies(none_form, r[1] == e.h0.val(DEFAULTS, e.optname)),           # X(None): the BUILT-IN default of X
               Implies(Not(none_form), And(bool_form, r[1] == e.h0.fld("value", a0))))


def _scoped_raise_ok(e):
    a0 = e.h0.el(e.args, 0)
    n_args = e.h0.len(e.args)
    return Not(Or(And(n_args == 1, IS_NONE_NODE(a0)), And(e.kwds == -1, n_args == 1, IS_BOOL_NODE(a0))))


def _native_scoped(model, obname):
    """compile a module that sets cdivision in its header and resets it with cython.cdivision(None) in a scope"""
    from dv import cextract
    src = ("# cython: language_level=3\n# cython: cdivision=True\ncimport cython\n"
           "@cython.cdivision(None)\ndef f(int a, int b):\n    return a // b\n"
           "def g(int a, int b):\n    with cython.cdivision(None):\n        return a % b\n")
    try:
        ctext, cfile = cextract.compile_pyx(src, name="dvdirective")
    except Exception as ex:
        return {"confirmed": False, "note": "compile failed: %r" % ex}
    uses_py_div = "__Pyx_div_int" in ctext and "__Pyx_mod_int" in ctext
    if not uses_py_div:
        return {"inputs": {"module": "header cdivision=True; @cython.cdivision(None) / with cython.cdivision(None)"},
                "actual": "the scoped code uses C division (the None argument did not restore the built-in default False)",
                "expected": "Python division helpers __Pyx_div_int / __Pyx_mod_int in the scoped code", "confirmed": True, "obligation": obname,
                "how": "module compiled with the working-tree compiler; generated C inspected for the division helpers"}
    return {"confirmed": False, "tried": 1}


def _scoped_unit():
    T = "obj:InterpretCompilerDirectives"
    N = "obj:Node"
    fields = {T: {"context": "ref:obj:Context", "directives": "ref:dict", "directive_defaults": "ref:dict"}, "obj:Context": {"cpp": "bool"},
              N: {"value": "any"}}
    callees = {
        "Options.directive_types.get": Callee("Options.directive_types.get", ["name"], result_kind=lambda ex, e: __import__("dv.pyfe", fromlist=["POpaque"]).POpaque(z3.Int("ghost.directive_type"))),
        "Options.get_directive_defaults": Callee("Options.get_directive_defaults", [], result_kind=lambda ex, e: __import__("dv.pyfe", fromlist=["PRef"]).PRef("dict", DEFAULTS)),
    }
    return PyUnit("ParseTreeTransforms.InterpretCompilerDirectives.try_to_parse_directive[bool]", {"C41": None}, PTT,
                  "InterpretCompilerDirectives.try_to_parse_directive",
                  [("self", "ref:" + T), ("optname", "any"), ("args", "ref:list"), ("kwds", "any"), ("pos", "any")],
                  requires=[("kernel: the directive's declared type is bool", lambda e: z3.Int("ghost.directive_type") == BOOL),
                            ("the directive is neither np_pythran nor exceptval (they have their own rules)",
                             lambda e: And(e.optname != intern_id("np_pythran"), e.optname != intern_id("exceptval"))),
                            ("the built-in defaults know the directive; args is a list", lambda e: And(e.h0.has(DEFAULTS, e.optname), e.h0.len(e.args) >= 0)),
                            ("the built-in defaults are their own dict, not the transform's current directives",
                             lambda e: And(DEFAULTS != e.h0.fld("directives", e.self), DEFAULTS != e.h0.fld("directive_defaults", e.self)))],
                  ensures=[("X(<bool literal>) denotes that value; X(None) denotes the BUILT-IN default of X (not the module's current value)", _scoped_post)],
                  raises={"PostParseError": _scoped_raise_ok},
                  callees=callees, native=_native_scoped, search=lambda seed, ob: _native_scoped({}, ob),
                  options={"fields": fields, "opaque_names": ("bool", "int", "str", "type", "dict", "list"), "elem_kind": {"list": "ref:" + N},
                           "dynamic_classes": (N,), "dict_val_kind": "any", "merge": False, "modules": {}})


def units(tier):
    return _units_parse(tier) + [_scoped_unit()]


def _units_parse(tier):
    get = Callee("directive_types.get", ["name"], result_kind=lambda ex, e: __import__("dv.pyfe", fromlist=["POpaque"]).POpaque(z3.Int("ghost.directive_type")))
    u = PyUnit("Options.parse_directive_value[bool]", {"C41": None}, FILE, "parse_directive_value",
               [("name", "any"), ("value", "any"), ("relaxed_bool", "bool")],
               requires=[("kernel: the directive's declared type is bool", lambda e: z3.Int("ghost.directive_type") == BOOL),
                         ("the class object bool is truthy", lambda e: TRUTHY(BOOL))],
               ensures=[("True / False are returned only for their documented spellings", _post)],
               raises={"ValueError": _raise_ok},
               callees={"directive_types.get": get}, native=_native, search=lambda seed, ob: _native({}, ob),
               options={"opaque_names": ("bool", "int", "str"), "identity_functions": ("str",), "uf_methods": ("lower",), "merge": False})
    return [u]


REGIONS = {}
