"""Contract for the directive value parser (C41 kernel), Cython/Compiler/Options.py::parse_directive_value.

From the statement ("directive strings are either parsed to the documented value or rejected with an error"), for every
directive whose declared type is `bool` (boundscheck, wraparound, cdivision, ... - the bulk of the directives):
    the function returns True only for the text 'True' (or, with relaxed_bool, a text whose lower() is 'true' / 'yes'),
    returns False only for 'False' (relaxed: 'false' / 'no'), and rejects EVERY other text with ValueError; it never
    returns anything else, for all texts.
Texts are abstract identities (distinct constants <-> distinct identities), str.lower() is an uninterpreted function of the
identity, `directive_types.get(name)` is an opaque lookup.
"""
import z3

from dv.spec import And, Or, Not, Implies
from dv.pyunit import PyUnit, load_source_module
from dv.pyfe import Callee, intern_id

SERVES = ("C41",)
FILE = "Cython/Compiler/Options.py"
LOWER = z3.Function("method_lower", z3.IntSort(), z3.IntSort())
TRUTHY = z3.Function("truthy", z3.IntSort(), z3.BoolSort())
BOOL = intern_id("name:bool")


def _is(v, *texts):
    return Or(*[v == intern_id(t) for t in texts])


def _post(e):
    r = e.result
    v = e.value
    if r is None:
        return False                      # a bool directive never parses to None
    if not z3.is_bool(r):
        return False
    true_ok = Or(_is(v, "True"), And(e.relaxed_bool, _is(LOWER(v), "true", "yes")))
    false_ok = Or(_is(v, "False"), And(e.relaxed_bool, _is(LOWER(v), "false", "no")))
    return And(Implies(r, true_ok), Implies(Not(r), false_ok))


def _raise_ok(e):
    v = e.value
    accepted = Or(_is(v, "True", "False"), And(e.relaxed_bool, _is(LOWER(v), "true", "yes", "false", "no")))
    return Not(accepted)                  # ValueError only for texts that are not documented spellings


def _native(model, obname):
    mod = load_source_module(FILE, "dvsubject_Options")
    cases = ["True", "False", "true", "false", "yes", "no", "Yes", "NO", "1", "0", "", "TRUE", " True", "on", "off", "None", "y", "n"]
    for relaxed in (False, True):
        for text in cases:
            want = {"True": True, "False": False}.get(text)
            if want is None and relaxed:
                want = {"true": True, "yes": True, "false": False, "no": False}.get(text.lower())
            try:
                got = ("ok", mod.parse_directive_value("boundscheck", text, relaxed_bool=relaxed))
            except ValueError:
                got = ("ValueError",)
            exp = ("ok", want) if want is not None else ("ValueError",)
            if got != exp:
                return {"inputs": {"name": "boundscheck", "value": text, "relaxed_bool": relaxed}, "actual": repr(got), "expected": repr(exp),
                        "confirmed": True, "obligation": obname, "how": "Options.py loaded from source; parse_directive_value on a bool directive"}
    return {"confirmed": False, "tried": 2 * len(cases)}


def units(tier):
    get = Callee("directive_types.get", ["name"], result_kind=lambda ex, e: __import__("dv.pyfe", fromlist=["POpaque"]).POpaque(z3.Int("ghost.directive_type")))
    u = PyUnit("Options.parse_directive_value[bool]", {"C41": None}, FILE, "parse_directive_value",
               [("name", "any"), ("value", "any"), ("relaxed_bool", "bool")],
               requires=[("kernel: the directive's declared type is bool", lambda e: z3.Int("ghost.directive_type") == BOOL),
                         ("the class object bool is truthy", lambda e: TRUTHY(BOOL))],
               ensures=[("True / False are returned only for their documented spellings", _post)],
               raises={"ValueError": _raise_ok},
               callees={"directive_types.get": get}, native=_native, search=lambda seed, ob: _native({}, ob),
               options={"opaque_names": ("bool", "int", "str"), "identity_functions": ("str",), "uf_methods": ("lower",), "merge": False})
    return [u]


REGIONS = {}
