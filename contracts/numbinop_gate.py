"""Contract for the gate of Optimize.optimise_numeric_binop (C02 / C19 / C06): WHEN a constant-operand helper is selected.

The helper contracts (contracts/pylong_binop.py, compare.py, pyfloat_binop.py) are proved UNDER call-site conditions:
    an int constant satisfies |c| <= 2**30      ((double) c exact, digit cases of the compact / 2-digit paths, no overflow of c +- x);
    a division-like operator never gets the constant divisor 0;
    the variable operand is a Python object (generic object or an int-typed one).
Those conditions are established by the first part of `optimise_numeric_binop` - its decision prefix (selected structurally: the leading
assignments / ifs / returns, today from `num_nodes = ...` to `extra_args = []`): every path that does not `return None` before has them.  This unit discharges them for all nodes and operators
(fragment subject, located by source anchors on every run), so the helpers' call-site precondition is no longer only assumed.
Nodes and types are identities with fields; isinstance tests are uninterpreted predicates; has_constant_result() is a stub.
Not covered: the second part (helper name, utility code, extra arguments), the callers' choice of `operator`.
"""
import z3

from dv.spec import And, Or, Not, Implies, If
from dv.pyunit import PyUnit
from dv.pyfe import Callee, intern_id

SERVES = ("C02", "C19", "C06")
FILE = "Cython/Compiler/Optimize.py"
FIELDS = {"obj:Node": {"type": "ref:obj:Type", "constant_result": "int", "pos": "any", "value": "any", "inplace": "bool", "cdivision": "bool"},
          "obj:Type": {"is_pyint_type": "bool", "is_pyobject": "bool"}}
DIVLIKE = ("TrueDivide", "FloorDivide", "Divide", "Remainder")


def _local(e, name):
    from dv.pyfe import StaleContract
    v = e.vars.get(name)
    if v is None:
        raise StaleContract("the fragment no longer binds a local called %r (the contract reads the decision off it)" % name)
    return v


def _select_gate(fn):
    """the decision prefix of the function (no local is named by the contract): all leading statements made of assignments / ifs / returns with
    calls only to isinstance / abs / has_constant_result; roles: `const` = the local bound to `arg1` in one branch and to `arg0` in another,
    `is_float` = the local bound to an isinstance(<const>, ...) test"""
    import ast
    from dv.pyunit import guard_prefix
    from dv.pyfe import StaleContract
    stmts = guard_prefix(fn, allowed_calls=("isinstance", "abs", "has_constant_result"))
    if not stmts:
        raise StaleContract("optimise_numeric_binop has no decision prefix")
    bound = {}
    for s in stmts:
        for n in ast.walk(s):
            if not (isinstance(n, ast.Assign) and len(n.targets) == 1):
                continue
            t, v = n.targets[0], n.value
            pairs = [(t, v)] if isinstance(t, ast.Name) else list(zip(t.elts, v.elts)) if (
                isinstance(t, ast.Tuple) and isinstance(v, ast.Tuple) and len(t.elts) == len(v.elts)) else []
            for a, b in pairs:
                if isinstance(a, ast.Name) and isinstance(b, ast.Name) and b.id in ("arg0", "arg1"):
                    bound.setdefault(a.id, set()).add(b.id)
    # the constant node is the one of them whose `.constant_result` the prefix reads (the other one, if any, is the variable operand)
    reads = {n.value.id for s in stmts for n in ast.walk(s) if isinstance(n, ast.Attribute) and n.attr == "constant_result" and isinstance(n.value, ast.Name)}
    consts = [k for k, v in bound.items() if v == {"arg0", "arg1"} and k in reads]
    if len(consts) != 1:
        raise StaleContract("no single local is bound to arg1 in one branch and to arg0 in the other and read for its constant_result")
    floats = [n.targets[0].id for s in stmts for n in ast.walk(s)
              if isinstance(n, ast.Assign) and len(n.targets) == 1 and isinstance(n.targets[0], ast.Name) and isinstance(n.value, ast.Call)
              and isinstance(n.value.func, ast.Name) and n.value.func.id == "isinstance" and isinstance(n.value.args[0], ast.Name) and n.value.args[0].id == consts[0]]
    if len(floats) != 1:
        raise StaleContract("no single local holds isinstance(<constant node>, ...)")
    return stmts, {"const": consts[0], "is_float": floats[0]}


def _post(e):
    if "$fell_through" not in e.vars:
        return z3.BoolVal(True)            # `return None`: no helper is selected
    numval = _local(e, e.roles["const"]).addr
    is_float = _local(e, e.roles["is_float"]).b
    c = e.h.fld("constant_result", numval)
    divlike = Or(*[e.operator == intern_id(op) for op in DIVLIKE])
    return And(Implies(Not(is_float), And(c >= -(2 ** 30), c <= 2 ** 30)),
               Implies(divlike, e.h.fld("constant_result", e.arg1) != 0),
               Or(numval == e.arg0, numval == e.arg1))


def _native(model, obname):
    """the call-site condition observed from outside: compile `x == K`, `x + K`, ... for K around 2**30 / 2**53 / 2**62 and look which helper the C uses"""
    import re
    from dv import cextract
    ks = [2 ** 30, 2 ** 30 + 1, -(2 ** 30) - 1, 2 ** 53 + 1, 2 ** 62, 2 ** 62 + 1]
    src = "# cython: language_level=3\n" + "".join(
        "def eq%d(x):\n    return 1 if x == %d else 0\ndef add%d(x):\n    return x + %d\ndef mod%d(x):\n    return x %% %d\n" % (i, k, i, k, i, k) for i, k in enumerate(ks))
    try:
        ctext, cfile = cextract.compile_pyx(src, name="dvnumgate")
    except Exception as ex:
        return {"confirmed": False, "note": "compile failed: %r" % ex}
    bad = []
    for i, k in enumerate(ks):
        for fn in ("eq", "add", "mod"):
            heads = [m.start() for m in re.finditer(r"static PyObject \*__pyx_pf_\w*_\d*%s%d\(" % (fn, i), ctext)]
            body = ctext[heads[-1]:ctext.index("\n}\n", heads[-1])] if heads else ""        # (the last one is the definition)
            uses = re.findall(r"__Pyx_PyLong_\w+(?:ObjC|CObj)", body)
            if uses and abs(k) > 2 ** 30:
                bad.append((fn, k, sorted(set(uses))))
    return {"inputs": "x == K, x + K, x % K for K in 2**30, 2**30+1, -2**30-1, 2**53+1, 2**62, 2**62+1: which functions call a constant-operand helper",
            "actual": repr(bad)[:400], "expected": "no __Pyx_PyLong_* constant helper for |K| > 2**30", "confirmed": bool(bad), "obligation": obname,
            "how": "catalogue compiled by the working-tree compiler; the generated C of each function inspected"}


DIVNODE = z3.Function("isinstance_DivNode", z3.IntSort(), z3.BoolSort())       # the front end's predicate for isinstance(x, ...DivNode)


def _post_flag(e):
    """constant <op> x with a division-like operator: the helper is told to CHECK for a zero divisor, unless the node says cdivision"""
    zdc = _local(e, e.roles["flag"])
    return zdc.b == (e.h0.fld("cdivision", e.node) == 0)


FLAG_PARAMS = ("operator", "node", "arg_order", "is_float", "extra_args")


def _select_flag(fn):
    """the statement that computes the zero-division flag, selected structurally: the top-level `if` whose body assigns a local and appends
    `...BoolNode(..., value=<that local>)` to a list; preceded by the top-level definitions `x = <expr>` of any other local it reads (a refactoring
    may have named a sub-condition).  role: the flag local"""
    import ast
    from dv.pyfe import StaleContract
    body = list(fn.body)
    hits = []
    for idx, s_ in enumerate(body):
        if not isinstance(s_, ast.If):
            continue
        assigned = {t.id for n in ast.walk(s_) if isinstance(n, ast.Assign) for t in n.targets if isinstance(t, ast.Name)}
        for n in ast.walk(s_):
            if (isinstance(n, ast.Call) and isinstance(n.func, ast.Attribute) and n.func.attr == "append" and len(n.args) == 1 and isinstance(n.args[0], ast.Call)):
                for kw in n.args[0].keywords:
                    if kw.arg == "value" and isinstance(kw.value, ast.Name) and kw.value.id in assigned:
                        hits.append((idx, s_, kw.value.id))
    if len(hits) != 1:
        raise StaleContract("no single top-level `if` computes a flag and appends BoolNode(value=<flag>)")
    idx, stmt, flag = hits[0]
    assigned = {t.id for n in ast.walk(stmt) if isinstance(n, ast.Assign) for t in n.targets if isinstance(t, ast.Name)}
    free = {n.id for n in ast.walk(stmt) if isinstance(n, ast.Name) and isinstance(n.ctx, ast.Load)} - assigned - set(FLAG_PARAMS) - {"ExprNodes"} - set(dir(__import__("builtins")))
    defs = []
    for name in sorted(free):
        cands = [b for b in body[:idx] if isinstance(b, ast.Assign) and len(b.targets) == 1 and isinstance(b.targets[0], ast.Name) and b.targets[0].id == name]
        if len(cands) != 1:
            raise StaleContract("the flag statement reads the local %r, which has no single top-level definition before it" % name)
        defs.append(cands[0])
    defs.sort(key=lambda b: b.lineno)
    return defs + [stmt], {"flag": flag}


def _flag_units():
    from dv.pyfe import Callee as C
    us = []
    for op in ("Remainder", "TrueDivide", "FloorDivide"):
        u = PyUnit("Optimize.optimise_numeric_binop[zero-division flag, %s, constant on the left]" % op, {"C02": None, "C06": None}, FILE, "optimise_numeric_binop",
                   [("operator", "const:" + op), ("node", "ref:obj:Node"), ("arg_order", "const:CObj"), ("is_float", "bool"), ("extra_args", "ref:list")],
                   requires=[("a division-like operator comes from a DivNode (ModNode is a subclass of DivNode)", lambda e: DIVNODE(e.node)),
                             ("the extra arguments form a list", lambda e: e.h0.len(e.extra_args) >= 0)],
                   ensures=[("`c %s x`: the zero-division check is requested exactly when the node does not ask for C division" % {"Remainder": "%", "TrueDivide": "/", "FloorDivide": "//"}[op],
                             _post_flag)],
                   callees={"ExprNodes.BoolNode": C("ExprNodes.BoolNode", ["pos", "value"], result_kind="ref:obj:Node")},
                   native=_native_flag, search=lambda seed, ob: _native_flag({}, ob),
                   options={"fields": FIELDS, "merge": False, "modules": {"PyrexTypes": "obj:Type", "ExprNodes": "obj:Class"}, "dynamic_classes": ("obj:Node",),
                            "fragment": {"select": _select_flag}},
                   subject={"fragment": "the statement computing the zero-division flag and appending it to the helper's extra arguments (structurally selected)"})
        us.append(u)
    return us


def _native_flag(model, obname):
    import os
    import subprocess
    from dv import cextract
    src = "# cython: language_level=3\ndef mod_c_x(x): return 2.5 % x\ndef div_c_x(x): return 2.5 / x\n"
    try:
        ctext, cfile = cextract.compile_pyx(src, name="dvzeroflag")
    except Exception as ex:
        return {"confirmed": False, "note": "compile failed: %r" % ex}
    d = os.path.dirname(cfile)
    p = subprocess.run(["clang", "-shared", "-fPIC", "-O0", "-w", "-I" + cextract.PY_INCLUDE, cfile, "-o", os.path.join(d, "dvzeroflag.so")], capture_output=True, text=True)
    if p.returncode != 0:
        return {"confirmed": False, "note": "build failed " + p.stderr[-300:]}
    code = ("import sys; sys.path.insert(0, %r); import dvzeroflag as m\nbad = []\n"
            "for f in (m.mod_c_x, m.div_c_x):\n    for z in (0, 0.0, -0.0):\n"
            "        try: bad.append((f.__name__, z, f(z)))\n        except ZeroDivisionError: pass\nprint(bad)\n" % d)
    r = subprocess.run(["/venv/bin/python", "-c", code], capture_output=True, text=True, timeout=120)
    out = r.stdout.strip()
    return {"inputs": "2.5 % x and 2.5 / x for x = 0, 0.0, -0.0", "actual": (out or r.stderr[-300:])[:400], "expected": "ZeroDivisionError", "confirmed": out != "[]",
            "obligation": obname, "how": "module compiled by the working-tree compiler; called natively"}


def units(tier):
    return _gate_units(tier) + _flag_units()


def _gate_units(tier):
    u = PyUnit("Optimize.optimise_numeric_binop[gate]", {"C02": None, "C19": None, "C06": None}, FILE, "optimise_numeric_binop",
               [("operator", "any"), ("node", "ref:obj:Node"), ("ret_type", "ref:obj:Type"), ("arg0", "ref:obj:Node"), ("arg1", "ref:obj:Node")],
               requires=[],
               ensures=[("a path that selects a helper has |int constant| <= 2**30, no zero divisor, and the constant is one of the operands", _post)],
               callees={"Node.has_constant_result": Callee("Node.has_constant_result", ["self"], result_kind="bool")},
               native=_native, search=lambda seed, ob: _native({}, ob),
               options={"fields": FIELDS, "merge": False, "modules": {"PyrexTypes": "obj:Type", "ExprNodes": "obj:Class"},
                        "dynamic_classes": ("obj:Node",), "fragment": {"select": _select_gate}},
               subject={"fragment": "the decision prefix of the function (structurally selected: leading assignments / ifs / returns, up to the first statement that "
                                    "builds nodes): the conditions under which a helper is selected"})
    return [u]


REGIONS = {}
