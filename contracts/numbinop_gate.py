"""Contract for the gate of Optimize.optimise_numeric_binop (C02 / C19 / C06): WHEN a constant-operand helper is selected.

The helper contracts (contracts/pylong_binop.py, compare.py, pyfloat_binop.py) are proved UNDER call-site conditions:
    an int constant satisfies |c| <= 2**30      ((double) c exact, digit cases of the compact / 2-digit paths, no overflow of c +- x);
    a division-like operator never gets the constant divisor 0;
    the variable operand is a Python object (generic object or an int-typed one).
Those conditions are established by the first part of `optimise_numeric_binop` - the statements from `num_nodes = ...` to
`extra_args = []`: every path that does not `return None` before has them.  This unit discharges them for all nodes and operators
(fragment subject, located by source anchors on every run), so the helpers' call-site precondition is no longer only assumed.
Nodes and types are identities with fields; isinstance tests are uninterpreted predicates; has_constant_result() is a stub.
Not covered: the second part (helper name, utility code, extra arguments), the callers' choice of `operator`.
"""
import z3

from dv.spec import And, Or, Not, Implies, If
from dv.pyunit import PyUnit
from dv.pyfe import Callee, intern_id

SERVES = ("C02", "C19", "C06")
FILE = "Cython/Compiler/Optimize.py"
FIELDS = {"obj:Node": {"type": "ref:obj:Type", "constant_result": "int", "pos": "any", "value": "any", "inplace": "bool", "cdivision": "bool"},
          "obj:Type": {"is_pyint_type": "bool", "is_pyobject": "bool"}}
DIVLIKE = ("TrueDivide", "FloorDivide", "Divide", "Remainder")


def _post(e):
    if "extra_args" not in e.vars:
        return z3.BoolVal(True)            # `return None`: no helper is selected
    numval = e.vars["numval"].addr
    is_float = e.vars["is_float"].b
    c = e.h.fld("constant_result", numval)
    divlike = Or(*[e.operator == intern_id(op) for op in DIVLIKE])
    return And(Implies(Not(is_float), And(c >= -(2 ** 30), c <= 2 ** 30)),
               Implies(divlike, e.h.fld("constant_result", e.arg1) != 0),
               Or(numval == e.arg0, numval == e.arg1))


def _native(model, obname):
    """the call-site condition observed from outside: compile `x == K`, `x + K`, ... for K around 2**30 / 2**53 / 2**62 and look which helper the C uses"""
    import re
    from dv import cextract
    ks = [2 ** 30, 2 ** 30 + 1, -(2 ** 30) - 1, 2 ** 53 + 1, 2 ** 62, 2 ** 62 + 1]
    src = "# cython: language_level=3\n" + "".join(
        "def eq%d(x):\n    return 1 if x == %d else 0\ndef add%d(x):\n    return x + %d\ndef mod%d(x):\n    return x %% %d\n" % (i, k, i, k, i, k) for i, k in enumerate(ks))
    try:
        ctext, cfile = cextract.compile_pyx(src, name="dvnumgate")
    except Exception as ex:
        return {"confirmed": False, "note": "compile failed: %r" % ex}
    bad = []
    for i, k in enumerate(ks):
        for fn in ("eq", "add", "mod"):
            heads = [m.start() for m in re.finditer(r"static PyObject \*__pyx_pf_\w*_\d*%s%d\(" % (fn, i), ctext)]
            body = ctext[heads[-1]:ctext.index("\n}\n", heads[-1])] if heads else ""        # (the last one is the definition)
            uses = re.findall(r"__Pyx_PyLong_\w+(?:ObjC|CObj)", body)
            if uses and abs(k) > 2 ** 30:
                bad.append((fn, k, sorted(set(uses))))
    return {"inputs": "x == K, x + K, x % K for K in 2**30, 2**30+1, -2**30-1, 2**53+1, 2**62, 2**62+1: which functions call a constant-operand helper",
            "actual": repr(bad)[:400], "expected": "no __Pyx_PyLong_* constant helper for |K| > 2**30", "confirmed": bool(bad), "obligation": obname,
            "how": "catalogue compiled by the working-tree compiler; the generated C of each function inspected"}


def units(tier):
    u = PyUnit("Optimize.optimise_numeric_binop[gate]", {"C02": None, "C19": None, "C06": None}, FILE, "optimise_numeric_binop",
               [("operator", "any"), ("node", "ref:obj:Node"), ("ret_type", "ref:obj:Type"), ("arg0", "ref:obj:Node"), ("arg1", "ref:obj:Node")],
               requires=[],
               ensures=[("a path that selects a helper has |int constant| <= 2**30, no zero divisor, and the constant is one of the operands", _post)],
               callees={"Node.has_constant_result": Callee("Node.has_constant_result", ["self"], result_kind="bool")},
               native=_native, search=lambda seed, ob: _native({}, ob),
               options={"fields": FIELDS, "merge": False, "modules": {"PyrexTypes": "obj:Type", "ExprNodes": "obj:Class"},
                        "dynamic_classes": ("obj:Node",), "fragment": {"start": r"^num_nodes = ", "end": r"^extra_args = \[\]$"}},
               subject={"fragment": "from `num_nodes = ...` to `extra_args = []`: the conditions under which a helper is selected"})
    return [u]


REGIONS = {}
