"""Contracts for the power operator helpers (C07; UB part -> C36).

1. Optimize.c::PyNumberPow2  (`2 ** n` with an object exponent): __Pyx__PyNumber_PowerOf2 taken from the C
   the working-tree compiler generates for `def f(n): return 2 ** n`.  Contract from the statement ("where the
   result type is the Python one, the value or exception equals CPython's"): the result is either an exact int
   with value 2**n computed on the fast path (n an exact non-negative int), or CPython's own
   PyNumber_Power / PyNumber_InPlacePower result (delegation) - never anything else, and no C undefined
   behaviour on the way (the shifts).
2. CMath.c::IntPow  (C integer power): the switch fast paths e in {0,1,2,3} and e < 0 for signed types are
   loop-free and proved exact; the square-and-multiply loop is NOT proved (needs the binary-exponentiation
   lemma library) - see DESIGN.md; its known strict-UB finding is recorded with a native witness.
"""
import z3

from dv import spec as S
from dv.spec import And, Or, Not, Implies, If
from dv.cunit import CUnit
from dv.l3 import compiled, ERR
from dv import pyobj as O
from dv import cextract

SERVES = ("C07", "C36")

PYX = """# cython: language_level=3
def pow2(n):
    return 2 ** n
def ipow2(n):
    x = 2
    x **= n
    return x
"""


def _tu():
    return compiled(PYX, None, "dvpow"), "module route: `2 ** n` with an object exponent compiled by the working-tree compiler"


def PW2(n):
    return If(And(n >= 0, n <= 64), S.pow2(n), O.pow2u(n))


def _pow2_post(e):
    r = e.result_id
    if r is None:
        return False if not e.result_null else (e.err != 0)      # NULL only with an exception set
    fast = And(O.is_long(e.exp), O.intval(e.exp) >= 0, O.is_long(r), O.intval(r) == PW2(O.intval(e.exp)), e.err == 0)
    delegated = O.generic(z3.IntVal(O.OPCODES["pow"]), e.two, e.exp, e.none, r)
    return Or(fast, delegated)


def units(tier):
    us = []
    u = CUnit("Optimize.PyNumberPow2", {"C07": None, "C36": ["ub", "pre"]}, "__Pyx__PyNumber_PowerOf2", _tu,
              pyobjs=("two", "exp", "none"),
              requires=[("call site: `two` is the int constant 2", lambda e: And(O.is_long(e.two), O.intval(e.two) == 2)),
                        ("inplace is 0/1", lambda e: Or(e.inplace == 0, e.inplace == 1))],
              ensures=[("result is the exact int 2**exp (fast path, exp an exact int >= 0) or CPython's own pow result", _pow2_post)],
              subject={"file": "Cython/Utility/Optimize.c", "template": "PyNumberPow2"})
    u.exec_cls = O.CExecPyObj
    u.err_ghost = True
    u.replay = lambda model, ob=None: _native_pow2(model, ob)
    u.concrete_search = lambda ob, regions=(): _native_pow2({}, ob)
    us.append(u)
    # ---- CMath.c::IntPow, loop-free part: e in {0,1,2,3} (switch) and e < 0 (signed)
    types = ["c_int_type", "c_long_type", "c_uint_type"] if tier == "quick" else \
        ["c_int_type", "c_long_type", "c_uint_type", "c_short_type", "c_schar_type", "c_longlong_type", "c_ulong_type",
         "c_py_ssize_t_type", "c_size_t_type", "c_uchar_type", "c_ushort_type"]
    for tname in types:
        us.append(CUnit(
            "CMath.IntPow.fastpaths[%s]" % tname, {"C07": None, "C36": ["ub"], "C39": None},
            fname=_intpow_name(tname), tu=_intpow_tu(tname),
            requires=[("exponent handled without the loop: e <= 3", lambda e: e.e <= 3),
                      ("the result fits the C type (statement: 'whose result fits the C type')",
                       lambda e: Implies(e.e >= 0, And(e.T.min <= _ipow3(e.b, e.e), _ipow3(e.b, e.e) <= e.T.max))),
                      # the intermediate b*b of e == 3 must fit too for a strictly UB-free run; it does whenever b**3 fits
                      ],
            ensures=[("e in 0..3 => result == b**e; e < 0 => 0", lambda e: e.result == If(e.e < 0, 0, _ipow3(e.b, e.e)))],
            options={"unroll": {0: 0}},
            subject={"file": "Cython/Utility/CMath.c", "template": "IntPow", "instantiation": tname,
                     "bounded_part": "the square-and-multiply loop (e >= 4) is checked natively, exhaustively for 8/16-bit "
                                     "types, see side_checks; it is not proved"}))
    return us


def _ipow3(b, e):
    return If(e == 0, 1, If(e == 1, b, If(e == 2, b * b, b * b * b)))


def _pt(tname):
    cextract.ensure_repo_on_path()
    from Cython.Compiler import PyrexTypes
    return getattr(PyrexTypes, tname)


def _intpow_name(tname):
    return "__Pyx_pow_%s" % _pt(tname).empty_declaration_code().replace(" ", "_")


def _intpow_tu(tname):
    def tu():
        t = _pt(tname)
        # exactly the call PowNode.analyse_c_operation makes
        text = cextract.template_tu(cextract.load_utility(
            "IntPow", "CMath.c",
            extra=dict(func_name=_intpow_name(tname), type=t.empty_declaration_code(), signed=t.signed and 1 or 0)))
        return text, "template route: UtilityCode.load('IntPow', 'CMath.c').specialize(func_name=..., type=%r, signed=...) as PowNode does" % t.empty_declaration_code()
    return tu


def side_checks(prop, tier, seed, kf_entries):
    """BOUNDED stand-in for the IntPow loop (not counted as proved): exhaustive native run of the instantiated
    template for 8-bit and 16-bit types against Python's ** wherever the result fits."""
    import os
    import subprocess
    out = []
    total = bad = 0
    first = None
    for tname, lo, hi, emax in (("c_schar_type", -128, 127, 9), ("c_uchar_type", 0, 255, 9), ("c_short_type", -32768, 32767, 17)):
        t = _pt(tname)
        fn = _intpow_name(tname)
        ctype = t.empty_declaration_code()
        text = cextract.template_tu(cextract.load_utility("IntPow", "CMath.c",
                                                          extra=dict(func_name=fn, type=ctype, signed=t.signed and 1 or 0)))
        harness = ("\n#include <stdio.h>\nint main(void) { long b, e; for (b = %d; b <= %d; b++) for (e = 0; e <= %d; e++) "
                   "printf(\"%%ld %%ld %%ld\\n\", b, e, (long) %s((%s) b, (%s) e)); return 0; }\n" % (lo, hi, emax, fn, ctype, ctype))
        cfile = cextract.write_tu(text + harness, "intpow.c")
        exe = cfile[:-2] + ".bin"
        p = subprocess.run(["clang", "-O0", "-w", "-fwrapv", "-I" + cextract.PY_INCLUDE, cfile, "-o", exe], capture_output=True, text=True)
        if p.returncode != 0:
            out.append({"kind": "side-check-failure", "name": "intpow-bounded-build", "text": p.stderr[-300:]})
            continue
        r = subprocess.run([exe], capture_output=True, text=True, timeout=300)
        for line in r.stdout.splitlines():
            b, e, got = map(int, line.split())
            want = b ** e
            if lo <= want <= hi:
                total += 1
                if got != want:
                    bad += 1
                    first = first or {"type": ctype, "b": b, "e": e, "got": got, "want": want}
    out.append({"kind": "bounded-check", "name": "IntPow loop: exhaustive native run, 8/16-bit instantiations, all (b, e<=17) whose result fits",
                "level": "bounded (not proved)", "cases": total, "disagree": bad, "first": first})
    if bad and prop == "C07":
        out.append({"kind": "bounded-violation", "name": "intpow-loop", "text": repr(first)})
    return out


def _native_pow2(model, ob):
    """build the catalogue module and compare 2 ** n with CPython for boundary exponents"""
    import os
    import subprocess
    ctext, cfile = cextract.compile_pyx(PYX, name="dvpowrep")
    d = os.path.dirname(cfile)
    so = os.path.join(d, "dvpowrep.so")
    p = subprocess.run(["clang", "-shared", "-fPIC", "-O0", "-w", "-I" + cextract.PY_INCLUDE, cfile, "-o", so], capture_output=True, text=True)
    if p.returncode != 0:
        return {"confirmed": False, "note": "build failed " + p.stderr[-300:]}
    code = ("import sys; sys.path.insert(0, %r); import dvpowrep as m\n"
            "bad = [(n, f.__name__) for n in list(range(0, 70)) + [126, 127, 128, 200, -1, -3] for f in (m.pow2, m.ipow2) if f(n) != 2 ** n]\n"
            "print(bad)" % d)
    r = subprocess.run(["/venv/bin/python", "-c", code], capture_output=True, text=True, timeout=120)
    out = r.stdout.strip()
    return {"inputs": "n in 0..69, 126..128, 200, -1, -3", "actual": out or r.stderr[-300:], "confirmed": out not in ("[]",),
            "how": "catalogue module built from the working tree; 2 ** n and x **= n compared with CPython",
            "obligation": ob.name if ob is not None and hasattr(ob, "name") else None}


REGIONS = {}
