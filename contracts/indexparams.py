"""Contract for the `wraparound` flag handed to the integer-index helpers (C15), ExprNodes.IndexNode.extra_index_params.

`s[i]` with a C-integer index calls __Pyx_GetItemInt* / __Pyx_SetItemInt* / __Pyx_DelItemInt with a compile-time flag `wraparound`: only when it
is 1 does the helper add len(s) to a negative index.  From the statement ("indexing ... agree with CPython for every index ... negative indices
count from the end"): under `wraparound=True` (the default) the flag must be 1 for EVERY signed index type - `CNumericType.signed` is 0 for
unsigned, 1 for plain and 2 for explicitly `signed` types (`signed char`) - unless the index is a compile-time constant >= 0.
Subject: the statements of the `if self.index.type.is_int:` branch up to the one that computes the flag (selected structurally on every run);
nodes and types are identities with fields, the directives a dict.  Not covered: the rest of the parameter string, the helpers themselves
(contracts/getitem.py).
"""
import z3

from dv.spec import And, Or, Not, Implies, If
from dv.pyunit import PyUnit
from dv.pyfe import intern_id

SERVES = ("C15",)
FILE = "Cython/Compiler/ExprNodes.py"
FIELDS = {"obj:IndexNode": {"index": "ref:obj:Node", "original_index_type": "ref:obj:Type", "base": "ref:obj:Node", "in_nogil_context": "bool", "pos": "any"},
          "obj:Node": {"type": "ref:obj:Type", "constant_result": "any"},
          "obj:Type": {"is_int": "bool", "signed": "int", "is_pybytearray_type": "bool"},
          "obj:Code": {"globalstate": "ref:obj:GlobalState"},
          "obj:GlobalState": {"directives": "ref:dict"}}
ISINT = z3.Function("isinstance_int", z3.IntSort(), z3.BoolSort())


def _select(fn):
    """inside `if self.index.type.is_int:` the statements up to and including the assignment whose value reads directives['wraparound'];
    role: the local it assigns"""
    import ast
    from dv.pyfe import StaleContract
    ifs = [s for s in fn.body if isinstance(s, ast.If) and any(isinstance(n, ast.Attribute) and n.attr == "is_int" for n in ast.walk(s.test))]
    if len(ifs) != 1:
        raise StaleContract("no single top-level `if <index type>.is_int:` in extra_index_params")
    out = []
    for s in ifs[0].body:
        out.append(s)
        if isinstance(s, ast.Assign) and any(isinstance(n, ast.Constant) and n.value == "wraparound" for n in ast.walk(s.value)):
            if not (len(s.targets) == 1 and isinstance(s.targets[0], ast.Name)):
                raise StaleContract("the wraparound flag is not assigned to a plain local")
            return out, {"flag": s.targets[0].id}
    raise StaleContract("no assignment reads directives['wraparound']")


def _post(e):
    from dv.pyfe import StaleContract
    v = e.vars.get(e.roles["flag"])
    if v is None:
        raise StaleContract("the flag local is not bound at the end of the fragment")
    t = e.h0.fld("original_index_type", e.self)
    c = e.h0.fld("constant_result", e.h0.fld("index", e.self))
    directive = e.h0.val(e.h0.fld("directives", e.h0.fld("globalstate", e.code)), intern_id("wraparound")) != 0
    want = And(directive, e.h0.fld("signed", t) != 0, Not(And(ISINT(c), c >= 0)))
    flag = v.b if hasattr(v, "b") else (v.t != 0)
    return flag == want


def _native(model, obname):
    import os
    import subprocess
    from dv import cextract
    src = ("# cython: language_level=3\n"
           "def get_sc(str s, signed char i): return s[i]\ndef get_c(str s, char i): return s[i]\ndef get_i(bytes s, int i): return s[i]\n"
           "def set_sc(bytearray b, signed char i, v): b[i] = v\ndef del_sc(list l, signed char i): del l[i]\n")
    try:
        ctext, cfile = cextract.compile_pyx(src, name="dvindexparams")
    except Exception as ex:
        return {"confirmed": False, "note": "compile failed: %r" % ex}
    d = os.path.dirname(cfile)
    p = subprocess.run(["clang", "-shared", "-fPIC", "-O0", "-w", "-I" + cextract.PY_INCLUDE, cfile, "-o", os.path.join(d, "dvindexparams.so")],
                       capture_output=True, text=True)
    if p.returncode != 0:
        return {"confirmed": False, "note": "build failed " + p.stderr[-300:]}
    code = r'''
import sys; sys.path.insert(0, %r); import dvindexparams as m
def run(f, *a):
    try: return f(*a)
    except Exception as e: return type(e).__name__
bad = []
for name, got, want in (("str[signed char -1]", run(m.get_sc, "abc", -1), "c"), ("str[char -2]", run(m.get_c, "abc", -2), "b"), ("bytes[int -1]", run(m.get_i, b"abc", -1), 99),
                        ("str[signed char -4]", run(m.get_sc, "abc", -4), "IndexError")):
    if got != want: bad.append((name, got, want))
b = bytearray(b"abc"); r = run(m.set_sc, b, -1, 65)
if r is not None or b != bytearray(b"abA"): bad.append(("bytearray[signed char -1] = 65", r, bytes(b)))
l = [1, 2, 3]; r = run(m.del_sc, l, -1)
if r is not None or l != [1, 2]: bad.append(("del list[signed char -1]", r, l))
print(bad)
''' % d
    r = subprocess.run(["/venv/bin/python", "-c", code], capture_output=True, text=True, timeout=120)
    out = r.stdout.strip() if r.returncode >= 0 else "crashed with signal %d" % -r.returncode
    return {"inputs": "negative indices of type signed char / char / int on str, bytes, bytearray, list (get, set, del)", "actual": (out or r.stderr[-300:])[:500],
            "expected": "CPython's results (counting from the end)", "confirmed": out != "[]", "obligation": obname,
            "how": "module compiled by the working-tree compiler; results compared with CPython's"}


def units(tier):
    u = PyUnit("ExprNodes.IndexNode.extra_index_params[wraparound flag]", {"C15": None}, FILE, "IndexNode.extra_index_params",
               [("self", "ref:obj:IndexNode"), ("code", "ref:obj:Code")],
               requires=[("the directives dict has the wraparound entry (Options.directive_defaults)",
                          lambda e: e.h0.has(e.h0.fld("directives", e.h0.fld("globalstate", e.code)), intern_id("wraparound"))),
                         ("CNumericType.signed is 0 (unsigned), 1 (plain) or 2 (explicitly signed)",
                          lambda e: And(e.h0.fld("signed", e.h0.fld("original_index_type", e.self)) >= 0, e.h0.fld("signed", e.h0.fld("original_index_type", e.self)) <= 2))],
               ensures=[("wraparound is requested exactly for: directive on, a signed index type (plain or explicitly signed), not a constant >= 0", _post)],
               native=_native, search=lambda seed, ob: _native({}, ob),
               options={"fields": FIELDS, "merge": False, "dynamic_classes": (), "dict_val_kind": "any", "fragment": {"select": _select}},
               subject={"fragment": "the statements of the `if self.index.type.is_int:` branch up to the assignment of the wraparound flag (structurally selected)"})
    return [u]


REGIONS = {}
