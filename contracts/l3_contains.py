"""L3 unit for C19: `c in b` with a C integer c and a bytes object b (ExprNodes.CmpNode.find_special_bool_compare_function).

Subject: the C function the working-tree compiler emits for
    cdef int cin(bytes b, int c) except? -1: return c in b          (and `not in`, and an unsigned char c)
CPython: `c in b` for an int c is True/False by the bytes of b when 0 <= c <= 255 and raises ValueError otherwise.
Contract: the answer is EITHER CPython's own membership test asked with an int object holding exactly c (delegation; it
raises the ValueError itself), OR - only when 0 <= c <= 255 - the direct scan: true iff some byte of b equals c.
`__Pyx_BytesContains(character, bytes, eq)` enters through its contract (a memchr over the object's bytes for the value
(unsigned char)character): the subject here is the CALL SITE, i.e. what the compiler passes to which helper.
"""
import z3

from dv.spec import And, Or, Not, Implies, If
from dv.l3 import L3Unit
from dv import pyobj as O
from dv import cextract

SERVES = ("C19",)

CATALOGUE = """# cython: language_level=3
cdef int cin(bytes b, int c) except? -1:
    return c in b

cdef int cnotin(bytes b, long c) except? -1:
    return c not in b

cdef int ucin(bytes b, unsigned char c) except? -1:
    return c in b
"""


class BytesContains:
    """contract of __Pyx_BytesContains(char character, PyObject* bytes, int eq): a scan of the object's bytes"""

    def apply(self, ex, st, args, n):
        from dv.cfe import CV, node_type
        ch, b, eq = args[0].t, ex.oid(args[1]), args[2].t
        ex.oblige(st, "pre", "BytesContains.the second argument is a bytes object (not None)", O.is_bytes_sub(b), n)
        i = z3.Int("i!bc")
        uch = ch % 256
        found = z3.Exists([i], And(i >= 0, i < O.blen(b), z3.Select(O.bytes_of(b), i) % 256 == uch))
        r = ex.fresh("bytes_contains")
        st.path.append(r == If(found == (eq == 2), 1, 0))
        ex.assumptions.add("__Pyx_BytesContains(ch, b, eq): memchr over the bytes of b for (unsigned char)ch, answer mapped through eq (Py_EQ == 2)")
        return CV(node_type(n), r)


class LongFrom:
    """contract of __Pyx_PyLong_From_<T>(v): an int object holding exactly v (the contract the C05 units prove for these helpers)"""

    def apply(self, ex, st, args, n):
        from dv.cfe import node_type
        r = ex.obj(st, node_type(n), "long")
        st.path.append(And(O.is_long(r.off), O.intval(r.off) == args[0].t))
        ex.assumptions.add("__Pyx_PyLong_From_<T>(v) returns an int object holding v (contract proved in contracts/cint.py; allocation never fails)")
        return r


def _post(negated):
    def post(e):
        b, c = e.b, e.c
        i = z3.Int("i!post")
        has = z3.Exists([i], And(i >= 0, i < O.blen(b), z3.Select(O.bytes_of(b), i) % 256 == c))
        direct = And(c >= 0, c <= 255, e.err == 0, e.result == If(has != negated, 1, 0))
        item, r = z3.Ints("item!post r!post")
        deleg = z3.Exists([item, r], And(O.is_long(item), O.intval(item) == c, O.generic(z3.IntVal(O.OPCODES["contains"]), b, item, z3.IntVal(0), r),
                                         Or(And(r < 0, e.err != 0), And(r >= 0, e.result == If((r == 1) != negated, 1, 0)))))
        return Or(direct, deleg)
    return post


def _native(model, ob=None):
    import os
    import subprocess
    text = CATALOGUE + "\ndef py_cin(b, c): return cin(b, c)\ndef py_cnotin(b, c): return cnotin(b, c)\ndef py_ucin(b, c): return ucin(b, c)\n"
    try:
        ctext, cfile = cextract.compile_pyx(text, name="dvcontainsrep")
    except Exception as ex:
        return {"confirmed": False, "note": "compile failed: %r" % ex}
    d = os.path.dirname(cfile)
    p = subprocess.run(["clang", "-shared", "-fPIC", "-O0", "-w", "-I" + cextract.PY_INCLUDE, cfile, "-o", os.path.join(d, "dvcontainsrep.so")],
                       capture_output=True, text=True)
    if p.returncode != 0:
        return {"confirmed": False, "note": "build failed " + p.stderr[-300:]}
    code = r'''
import sys; sys.path.insert(0, %r); import dvcontainsrep as m
def run(f, *a):
    try: return ("ok", int(f(*a)))
    except Exception as e: return (type(e).__name__,)
bad = []
for b in (b"", b"a", b"a\x00", b"\xff", b"abc\x80"):
    for c in (0, 1, 97, 128, 255, 256, 353, -1, -159, 2**31 - 1, -2**31):
        for name, ref in (("py_cin", lambda: int(c in b)), ("py_cnotin", lambda: int(c not in b))):
            got, want = run(getattr(m, name), b, c), run(ref)
            if got != want: bad.append((name, b, c, got, want))
print(bad[:4]); print(len(bad))
''' % d
    r = subprocess.run(["/venv/bin/python", "-c", code], capture_output=True, text=True, timeout=120)
    out = r.stdout.strip().splitlines()
    return {"inputs": "c in b / c not in b for 5 bytes objects and 11 integers incl. 256, 353, -1, -159", "actual": (r.stdout.strip() or r.stderr[-300:])[:500],
            "confirmed": len(out) == 2 and out[0] != "[]", "obligation": getattr(ob, "name", None),
            "how": "catalogue compiled by the working-tree compiler; answers compared with CPython's `in` on the same operands"}


def units(tier):
    us = []
    for name, neg in (("cin", False), ("cnotin", True), ("ucin", False)):
        u = L3Unit("L3contains.%s" % name, {"C19": None}, CATALOGUE, name, pyobjs=("b",), callees={"__Pyx_BytesContains": BytesContains(), "__Pyx_PyLong_From_int": LongFrom(), "__Pyx_PyLong_From_long": LongFrom()},
                   requires=[("kernel: the receiver is a bytes object (the typed argument is not None)", lambda e: O.is_bytes_sub(e.b))],
                   ensures=[("CPython's membership test on an int object holding c, or - for 0 <= c <= 255 only - the direct scan of the bytes", _post(neg))],
                   options={"merge": False},
                   subject={"mechanism": "ExprNodes.CmpNode.find_special_bool_compare_function (helper selection and operand coercion for `in`)"})
        u.exec_cls = O.CExecPyObj
        u.replay = _native
        u.concrete_search = lambda ob, regions=(): _native({}, ob)
        us.append(u)
    return us


REGIONS = {}
