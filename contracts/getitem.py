"""Contracts for integer indexing of lists and tuples (C15), ObjectHandling.c::GetItemInt.

Subjects: __Pyx_GetItemInt_List_Fast / __Pyx_GetItemInt_Tuple_Fast as found in the C the working-tree compiler
generates for `l[i]` with a C index (module route, release configuration -DNDEBUG as every extension build).
Object model: dv/pyobj.py (seq_len, item).  Contract from the statement, for all (wraparound, boundscheck) flag
values the code generator can pass:
  * wraparound and boundscheck on (the default):  -len <= i < len  => the element at i (wrapped once) is returned;
    otherwise the GENERIC protocol is asked with the ORIGINAL index i (which raises IndexError);
  * the direct ob_item[] access is only ever executed with an index inside [0, len)  (memory safety, C36) -
    with boundscheck off this is the caller's documented obligation and becomes a precondition.
"""
import z3

from dv.spec import And, Or, Not, Implies, If
from dv.cunit import CUnit
from dv.l3 import compiled
from dv import pyobj as O
from dv import cextract

SERVES = ("C15", "C36")

PYX = """# cython: language_level=3
def li(list l, Py_ssize_t i):
    return l[i]
def tu(tuple t, Py_ssize_t i):
    return t[i]
"""


def _tu():
    return compiled(PYX, None, "dvgetitem"), "module route: l[i] / t[i] with a C index, compiled by the working-tree compiler; clang -DNDEBUG"


def _post(e):
    r = e.result_id
    if r is None:
        return False
    n = O.seq_len(e.o)
    wrapped = If(And(e.wraparound == 1, e.i < 0), e.i + n, e.i)
    direct = r == O.item(e.o, wrapped)
    generic = O.generic(z3.IntVal(O.OPCODES["getitem"]), e.o, e.i, z3.IntVal(0), r)
    in_range = And(wrapped >= 0, wrapped < n)
    return And(Implies(in_range, direct),
               # out of range with bounds checking: CPython's generic item access decides (IndexError), asked with
               # the index the program wrote - not a pre-wrapped one
               Implies(And(e.boundscheck == 1, Not(in_range)), generic))


def _native(model, ob=None):
    import os
    import subprocess
    ctext, cfile = cextract.compile_pyx(PYX, name="dvgetitemrep")
    d = os.path.dirname(cfile)
    so = os.path.join(d, "dvgetitemrep.so")
    p = subprocess.run(["clang", "-shared", "-fPIC", "-O0", "-w", "-DNDEBUG", "-I" + cextract.PY_INCLUDE, cfile, "-o", so], capture_output=True, text=True)
    if p.returncode != 0:
        return {"confirmed": False, "note": "build failed " + p.stderr[-300:]}
    code = r'''
import sys; sys.path.insert(0, %r); import dvgetitemrep as m
bad = []
for n in range(0, 6):
    l = list(range(100, 100 + n))
    for i in range(-3 * n - 2, 3 * n + 3):
        for f, s in ((m.li, l), (m.tu, tuple(l))):
            try: got = f(s, i)
            except IndexError: got = "IndexError"
            try: want = s[i]
            except IndexError: want = "IndexError"
            if got != want: bad.append((f.__name__, n, i, got, want))
print(bad[:5])
''' % d
    r = subprocess.run(["/venv/bin/python", "-c", code], capture_output=True, text=True, timeout=120)
    out = r.stdout.strip()
    return {"inputs": "lists/tuples of length 0..5, indices in [-3n-2, 3n+2]", "actual": out or r.stderr[-300:], "confirmed": out != "[]",
            "how": "catalogue module built from the working tree; results compared with CPython indexing", "obligation": getattr(ob, "name", None)}


def units(tier):
    us = []
    for kind in ("List", "Tuple"):
        fname = "__Pyx_GetItemInt_%s_Fast" % kind
        u = CUnit("ObjectHandling.GetItemInt_%s_Fast" % kind, {"C15": ["post", "pre", "subset"], "C36": ["ub", "subset"]}, fname, _tu, filt=[fname, "__Pyx_is_valid_index"],
                  defines=("NDEBUG",), pyobjs=("o",),
                  requires=[("flags are 0/1", lambda e: And(*[Or(x == 0, x == 1) for x in (e.wraparound, e.boundscheck, e.unsafe_shared)])),
                            ("with boundscheck off the caller guarantees a valid index (documented semantics of the directive)",
                             lambda e: Implies(e.boundscheck == 0,
                                               And(If(And(e.wraparound == 1, e.i < 0), e.i + O.seq_len(e.o), e.i) >= 0,
                                                   If(And(e.wraparound == 1, e.i < 0), e.i + O.seq_len(e.o), e.i) < O.seq_len(e.o)))),
                            ("0 <= len(o) (far below PY_SSIZE_T_MAX)", lambda e: And(O.seq_len(e.o) >= 0, O.seq_len(e.o) < 2 ** 62))],
                  ensures=[("in range => the element itself; out of range (checked) => generic access with the original index", _post)],
                  options={"inline": ("*",), "merge": False},
                  subject={"file": "Cython/Utility/ObjectHandling.c", "template": "GetItemInt", "instantiation": kind})
        u.exec_cls = O.CExecPyObj
        u.err_ghost = True
        u.replay = _native
        u.concrete_search = lambda ob, regions=(): _native({}, ob)
        us.append(u)
    return us


REGIONS = {}
