"""Contracts for integer indexing of lists and tuples (C15), ObjectHandling.c::GetItemInt.

Subjects: __Pyx_GetItemInt_List_Fast / __Pyx_GetItemInt_Tuple_Fast as found in the C the working-tree compiler
generates for `l[i]` with a C index (module route, release configuration -DNDEBUG as every extension build).
Object model: dv/pyobj.py (seq_len, item).  Contract from the statement, for all (wraparound, boundscheck) flag
values the code generator can pass:
  * wraparound and boundscheck on (the default):  -len <= i < len  => the element at i (wrapped once) is returned;
    otherwise the GENERIC protocol is asked with the ORIGINAL index i (which raises IndexError);
  * the direct ob_item[] access is only ever executed with an index inside [0, len)  (memory safety, C36) -
    with boundscheck off this is the caller's documented obligation and becomes a precondition.
"""
import z3

from dv.spec import And, Or, Not, Implies, If
from dv.cunit import CUnit
from dv.l3 import compiled
from dv import pyobj as O
from dv import cextract

SERVES = ("C15", "C36")

PYX = """# cython: language_level=3
cimport cython
def li(list l, Py_ssize_t i):
    return l[i]
def tu(tuple t, Py_ssize_t i):
    return t[i]
def seti(list l, Py_ssize_t i, v):
    l[i] = v
def ba(bytearray b, Py_ssize_t i):
    return b[i]
def bas(bytearray b, Py_ssize_t i, unsigned char v):
    b[i] = v
def by(bytes b, Py_ssize_t i):
    return b[i]
@cython.boundscheck(False)
def by_nb(bytes b, Py_ssize_t i):
    return b[i]
@cython.wraparound(False)
def by_nw(bytes b, Py_ssize_t i):
    return b[i]
"""


def _tu():
    return compiled(PYX, None, "dvgetitem"), "module route: l[i] / t[i] with a C index, compiled by the working-tree compiler; clang -DNDEBUG"


def _post(e):
    r = e.result_id
    if r is None:
        return False
    n = O.seq_len(e.o)
    wrapped = If(And(e.wraparound == 1, e.i < 0), e.i + n, e.i)
    direct = r == O.item(e.o, wrapped)
    generic = O.generic(z3.IntVal(O.OPCODES["getitem"]), e.o, e.i, z3.IntVal(0), r)
    in_range = And(wrapped >= 0, wrapped < n)
    return And(Implies(in_range, direct),
               # out of range with bounds checking: CPython's generic item access decides (IndexError), asked with
               # the index the program wrote - not a pre-wrapped one
               Implies(And(e.boundscheck == 1, Not(in_range)), generic))


def _native(model, ob=None):
    import os
    import subprocess
    ctext, cfile = cextract.compile_pyx(PYX, name="dvgetitemrep")
    d = os.path.dirname(cfile)
    so = os.path.join(d, "dvgetitemrep.so")
    p = subprocess.run(["clang", "-shared", "-fPIC", "-O0", "-w", "-DNDEBUG", "-I" + cextract.PY_INCLUDE, cfile, "-o", so], capture_output=True, text=True)
    if p.returncode != 0:
        return {"confirmed": False, "note": "build failed " + p.stderr[-300:]}
    code = r'''
import sys; sys.path.insert(0, %r); import dvgetitemrep as m
bad = []
for n in range(0, 6):
    l = list(range(100, 100 + n))
    for i in range(-3 * n - 2, 3 * n + 3):
        for f, s in ((m.li, l), (m.tu, tuple(l))):
            try: got = f(s, i)
            except IndexError: got = "IndexError"
            try: want = s[i]
            except IndexError: want = "IndexError"
            if got != want: bad.append((f.__name__, n, i, got, want))
print(bad[:5])
''' % d
    r = subprocess.run(["/venv/bin/python", "-c", code], capture_output=True, text=True, timeout=120)
    out = r.stdout.strip()
    return {"inputs": "lists/tuples of length 0..5, indices in [-3n-2, 3n+2]", "actual": out or r.stderr[-300:], "confirmed": out != "[]",
            "how": "catalogue module built from the working tree; results compared with CPython indexing", "obligation": getattr(ob, "name", None)}


def _bytes_post(e):
    """b[i] for a bytes object: the byte as an int 0..255, or IndexError (-1 with the error set)"""
    from dv.l3 import ERRS
    n = O.blen(e.bytes)
    wrapped = If(And(e.wraparound != 0, e.index < 0), e.index + n, e.index)
    in_range = And(wrapped >= 0, wrapped < n)
    val = z3.Select(O.bytes_of(e.bytes), wrapped) % 256
    return And(Implies(in_range, And(e.err == 0, e.result == val)),
               Implies(And(e.boundscheck != 0, Not(in_range)), And(e.result == -1, e.err == ERRS["IndexError"])))


def _native_bytes(model, ob=None):
    import os
    import subprocess
    ctext, cfile = cextract.compile_pyx(PYX, name="dvgetitemrep")
    d = os.path.dirname(cfile)
    so = os.path.join(d, "dvgetitemrep.so")
    p = subprocess.run(["clang", "-shared", "-fPIC", "-O0", "-w", "-DNDEBUG", "-I" + cextract.PY_INCLUDE, cfile, "-o", so], capture_output=True, text=True)
    if p.returncode != 0:
        return {"confirmed": False, "note": "build failed " + p.stderr[-300:]}
    code = r"""
import sys; sys.path.insert(0, %r); import dvgetitemrep as m
bad = []
for s in (b"", b"a", b"\x80\xff\x00", b"abcde"):
    n = len(s)
    for i in range(-3 * n - 2, 3 * n + 3):
        def run(f):
            try: return f(s, i)
            except IndexError: return "IndexError"
        want = run(lambda s, i: s[i])
        if run(m.by) != want: bad.append(("by", s, i, run(m.by), want))
        if want != "IndexError" and run(m.by_nb) != want: bad.append(("by_nb", s, i))
        if 0 <= i < n and run(m.by_nw) != want: bad.append(("by_nw", s, i))
        if i < 0 and run(m.by_nw) != "IndexError": bad.append(("by_nw", s, i, run(m.by_nw)))
print(bad[:5])
""" % d
    r = subprocess.run(["/venv/bin/python", "-c", code], capture_output=True, text=True, timeout=120)
    out = r.stdout.strip()
    return {"inputs": "bytes of length 0..5 (incl. high bytes), indices in [-3n-2, 3n+2], default / boundscheck(False) / wraparound(False)",
            "actual": out or r.stderr[-300:], "confirmed": out != "[]",
            "how": "catalogue module built from the working tree; results compared with CPython indexing", "obligation": getattr(ob, "name", None)}


def _bytes_unit():
    fname = "__Pyx_GetItemInt_Bytes_Fast"
    u = CUnit("StringTools.GetItemInt_Bytes_Fast", {"C15": ["post", "pre", "subset"], "C36": ["ub", "subset"]}, fname, _tu,
              filt=[fname, "__Pyx_is_valid_index", "__Pyx_SetStringIndexingError"], defines=("NDEBUG",), pyobjs=("bytes",),
              requires=[("the operand is a bytes object (typed operand, None excluded by the caller)", lambda e: O.is_bytes_sub(e.bytes)),
                        ("flags are 0/1", lambda e: And(*[Or(x == 0, x == 1) for x in (e.wraparound, e.boundscheck, e.has_gil)])),
                        ("with boundscheck off the caller guarantees a valid index (documented semantics of the directive)",
                         lambda e: Implies(e.boundscheck == 0,
                                           And(If(And(e.wraparound == 1, e.index < 0), e.index + O.blen(e.bytes), e.index) >= 0,
                                               If(And(e.wraparound == 1, e.index < 0), e.index + O.blen(e.bytes), e.index) < O.blen(e.bytes)))),
                        ("model: the contents are chars (-128..127)",
                         lambda e: z3.ForAll([z3.Int("k!ch")], And(z3.Select(O.bytes_of(e.bytes), z3.Int("k!ch")) >= -128,
                                                                   z3.Select(O.bytes_of(e.bytes), z3.Int("k!ch")) <= 127)))],
              ensures=[("in range (after one wrap) => the byte as an int 0..255; out of range (checked) => -1 with IndexError", _bytes_post)],
              options={"inline": ("*",), "merge": False},
              subject={"file": "Cython/Utility/StringTools.c", "template": "GetItemIntBytes"})
    u.exec_cls = O.CExecPyObj
    u.err_ghost = True
    u.replay = _native_bytes
    u.concrete_search = lambda ob, regions=(): _native_bytes({}, ob)
    return u


def _set_post(e):
    """l[i] = v on an exact list"""
    n = O.seq_len(e.o)
    wrapped = If(And(e.wraparound != 0, e.i < 0), e.i + n, e.i)
    in_range = And(wrapped >= 0, wrapped < n)
    key = [k for k in e.mem if k.startswith("liststore[")]
    cnt = [k for k in e.mem if k.startswith("liststores[")]
    stored = e.mem[key[0]] if key else z3.K(z3.IntSort(), z3.IntVal(0))
    nstores = e.mem[cnt[0]] if cnt else z3.IntVal(0)
    j = z3.Int("j!set")
    only_w = z3.ForAll([j], Implies(j != wrapped, z3.Select(stored, j) == 0))
    from dv.cfe import CV
    idx_obj = z3.Int("new_int_index")
    return And(Implies(in_range, And(e.err == 0, e.result == 0, nstores == 1, z3.Select(stored, wrapped) == e.v, only_w)),
               # out of range (checked): CPython's generic item assignment decides (IndexError) - asked with an int object
               # holding the index the program wrote, and nothing is stored
               Implies(And(e.boundscheck != 0, Not(in_range)),
                       And(nstores == 0, z3.Exists([idx_obj], And(O.is_long(idx_obj), O.intval(idx_obj) == e.i,
                                                                  O.generic(z3.IntVal(O.OPCODES["setitem"]), e.o, idx_obj, e.v, e.result))))))


def _native_set(model, ob=None):
    import os
    import subprocess
    ctext, cfile = cextract.compile_pyx(PYX, name="dvgetitemrep")
    d = os.path.dirname(cfile)
    so = os.path.join(d, "dvgetitemrep.so")
    p = subprocess.run(["clang", "-shared", "-fPIC", "-O0", "-w", "-DNDEBUG", "-I" + cextract.PY_INCLUDE, cfile, "-o", so], capture_output=True, text=True)
    if p.returncode != 0:
        return {"confirmed": False, "note": "build failed " + p.stderr[-300:]}
    code = r"""
import sys; sys.path.insert(0, %r); import dvgetitemrep as m
bad = []
for n in range(0, 6):
    for i in range(-3 * n - 2, 3 * n + 3):
        a, b = list(range(100, 100 + n)), list(range(100, 100 + n))
        try: m.seti(a, i, "X"); ra = "ok"
        except IndexError: ra = "IndexError"
        try: b[i] = "X"; rb = "ok"
        except IndexError: rb = "IndexError"
        if (ra, a) != (rb, b): bad.append((n, i, ra, a, rb, b))
print(bad[:4])
""" % d
    r = subprocess.run(["/venv/bin/python", "-c", code], capture_output=True, text=True, timeout=120)
    out = r.stdout.strip()
    return {"inputs": "lists of length 0..5, l[i] = 'X' for i in [-3n-2, 3n+2]", "actual": out or r.stderr[-300:], "confirmed": out != "[]",
            "how": "catalogue module built from the working tree; outcome and mutated list compared with CPython", "obligation": getattr(ob, "name", None)}


def _set_unit():
    fname = "__Pyx_SetItemInt_Fast"
    u = CUnit("ObjectHandling.SetItemInt_Fast[list]", {"C15": ["post", "pre", "subset"], "C36": ["ub", "subset"]}, fname, _tu,
              filt=[fname, "__Pyx_is_valid_index"], defines=("NDEBUG",), pyobjs=("o", "v"),
              requires=[("kernel: the container is an exact list", lambda e: And(O.is_list(e.o), O.exact_type(e.o) == O.TYPE_IDS["PyList_Type"])),
                        ("flags are 0/1", lambda e: And(*[Or(x == 0, x == 1) for x in (e.wraparound, e.boundscheck, e.unsafe_shared)])),
                        ("with boundscheck off the caller guarantees a valid index (documented semantics of the directive)",
                         lambda e: Implies(e.boundscheck == 0,
                                           And(If(And(e.wraparound == 1, e.i < 0), e.i + O.seq_len(e.o), e.i) >= 0,
                                               If(And(e.wraparound == 1, e.i < 0), e.i + O.seq_len(e.o), e.i) < O.seq_len(e.o)))),
                        ("0 <= len(o) (far below PY_SSIZE_T_MAX)", lambda e: And(O.seq_len(e.o) >= 0, O.seq_len(e.o) < 2 ** 62))],
              ensures=[("in range (after one wrap) => exactly that slot is overwritten with v; out of range (checked) => nothing stored, "
                        "generic assignment with the original index", _set_post)],
              options={"inline": ("*",), "merge": False},
              subject={"file": "Cython/Utility/ObjectHandling.c", "template": "SetItemInt", "instantiation": "exact list"})
    u.exec_cls = O.CExecPyObj
    u.err_ghost = True
    u.replay = _native_set
    u.concrete_search = lambda ob, regions=(): _native_set({}, ob)
    return u


def _ba_requires():
    return [("the operand is an exact bytearray (typed operand, None excluded by the caller)", lambda e: O.exact_type(e.string) == O.TYPE_IDS["PyByteArray_Type"]),
            ("flags are 0/1", lambda e: And(*[Or(x == 0, x == 1) for x in (e.wraparound, e.boundscheck, e.has_gil)])),
            ("with boundscheck off the caller guarantees a valid index (documented semantics of the directive)",
             lambda e: Implies(e.boundscheck == 0,
                               And(If(And(e.wraparound == 1, e.i < 0), e.i + O.blen(e.string), e.i) >= 0,
                                   If(And(e.wraparound == 1, e.i < 0), e.i + O.blen(e.string), e.i) < O.blen(e.string)))),
            ("model: the contents are chars (-128..127)",
             lambda e: z3.ForAll([z3.Int("k!ch")], And(z3.Select(O.bytes_of(e.string), z3.Int("k!ch")) >= -128,
                                                       z3.Select(O.bytes_of(e.string), z3.Int("k!ch")) <= 127)))]


def _ba_get_post(e):
    from dv.l3 import ERRS
    n = O.blen(e.string)
    wrapped = If(And(e.wraparound != 0, e.i < 0), e.i + n, e.i)
    in_range = And(wrapped >= 0, wrapped < n)
    return And(Implies(in_range, And(e.err == 0, e.result == z3.Select(O.bytes_of(e.string), wrapped) % 256)),
               Implies(And(e.boundscheck != 0, Not(in_range)), And(e.result == -1, e.err == ERRS["IndexError"])))


def _ba_set_post(e):
    from dv.l3 import ERRS
    n = O.blen(e.string)
    wrapped = If(And(e.wraparound != 0, e.i < 0), e.i + n, e.i)
    in_range = And(wrapped >= 0, wrapped < n)
    key = [k for k in e.mem if k.startswith("pybytes[")]
    now = e.mem[key[0]] if key else O.bytes_of(e.string)
    before = O.bytes_of(e.string)
    j = z3.Int("j!bas")
    return And(Implies(in_range, And(e.err == 0, e.result == 0, z3.Select(now, wrapped) % 256 == e.v,
                                     z3.ForAll([j], Implies(j != wrapped, z3.Select(now, j) == z3.Select(before, j))))),
               Implies(And(e.boundscheck != 0, Not(in_range)), And(e.result == -1, e.err == ERRS["IndexError"], now == before)))


def _native_ba(model, ob=None):
    import os
    import subprocess
    ctext, cfile = cextract.compile_pyx(PYX, name="dvgetitemrep")
    d = os.path.dirname(cfile)
    so = os.path.join(d, "dvgetitemrep.so")
    p = subprocess.run(["clang", "-shared", "-fPIC", "-O0", "-w", "-DNDEBUG", "-I" + cextract.PY_INCLUDE, cfile, "-o", so], capture_output=True, text=True)
    if p.returncode != 0:
        return {"confirmed": False, "note": "build failed " + p.stderr[-300:]}
    code = r"""
import sys; sys.path.insert(0, %r); import dvgetitemrep as m
bad = []
for raw in (b"", b"a", b"\x80\xff\x00", b"abcde"):
    n = len(raw)
    for i in range(-3 * n - 2, 3 * n + 3):
        a, b = bytearray(raw), bytearray(raw)
        def run(f):
            try: return f()
            except IndexError: return "IndexError"
        if run(lambda: m.ba(a, i)) != run(lambda: b[i]): bad.append(("get", raw, i))
        ra = run(lambda: m.bas(a, i, 200)); 
        def setb(): b[i] = 200
        rb = run(setb)
        if (ra, a) != (rb, b): bad.append(("set", raw, i, ra, bytes(a), rb, bytes(b)))
print(bad[:4])
""" % d
    r = subprocess.run(["/venv/bin/python", "-c", code], capture_output=True, text=True, timeout=120)
    out = r.stdout.strip()
    return {"inputs": "bytearrays of length 0..5 (incl. high bytes), b[i] and b[i] = 200 for i in [-3n-2, 3n+2]", "actual": out or r.stderr[-300:],
            "confirmed": out != "[]", "how": "catalogue module built from the working tree; outcome and mutated bytearray compared with CPython",
            "obligation": getattr(ob, "name", None)}


def _ba_units():
    us = []
    for what, post, label in (("Get", _ba_get_post, "in range (after one wrap) => the byte as an int 0..255; out of range (checked) => -1 with IndexError"),
                              ("Set", _ba_set_post, "in range (after one wrap) => exactly that byte becomes v; out of range (checked) => -1 with IndexError, nothing written")):
        fname = "__Pyx_%sItemInt_ByteArray_Fast_Locked" % what
        u = CUnit("StringTools.%sItemInt_ByteArray_Fast_Locked" % what, {"C15": ["post", "pre", "subset"], "C36": ["ub", "subset"]}, fname, _tu,
                  filt=[fname, "__Pyx_is_valid_index", "__Pyx_SetStringIndexingError"], defines=("NDEBUG",), pyobjs=("string",),
                  requires=_ba_requires(), ensures=[(label, post)], options={"inline": ("*",), "merge": False},
                  subject={"file": "Cython/Utility/StringTools.c", "template": "%sItemIntByteArray" % what})
        u.exec_cls = O.CExecPyObj
        u.err_ghost = True
        u.replay = _native_ba
        u.concrete_search = lambda ob, regions=(): _native_ba({}, ob)
        us.append(u)
    return us


def units(tier):
    us = [_bytes_unit(), _set_unit()] + _ba_units()
    for kind in ("List", "Tuple"):
        fname = "__Pyx_GetItemInt_%s_Fast" % kind
        u = CUnit("ObjectHandling.GetItemInt_%s_Fast" % kind, {"C15": ["post", "pre", "subset"], "C36": ["ub", "subset"]}, fname, _tu, filt=[fname, "__Pyx_is_valid_index"],
                  defines=("NDEBUG",), pyobjs=("o",),
                  requires=[("flags are 0/1", lambda e: And(*[Or(x == 0, x == 1) for x in (e.wraparound, e.boundscheck, e.unsafe_shared)])),
                            ("with boundscheck off the caller guarantees a valid index (documented semantics of the directive)",
                             lambda e: Implies(e.boundscheck == 0,
                                               And(If(And(e.wraparound == 1, e.i < 0), e.i + O.seq_len(e.o), e.i) >= 0,
                                                   If(And(e.wraparound == 1, e.i < 0), e.i + O.seq_len(e.o), e.i) < O.seq_len(e.o)))),
                            ("0 <= len(o) (far below PY_SSIZE_T_MAX)", lambda e: And(O.seq_len(e.o) >= 0, O.seq_len(e.o) < 2 ** 62))],
                  ensures=[("in range => the element itself; out of range (checked) => generic access with the original index", _post)],
                  options={"inline": ("*",), "merge": False},
                  subject={"file": "Cython/Utility/ObjectHandling.c", "template": "GetItemInt", "instantiation": kind})
        u.exec_cls = O.CExecPyObj
        u.err_ghost = True
        u.replay = _native
        u.concrete_search = lambda ob, regions=(): _native({}, ob)
        us.append(u)
    return us


REGIONS = {}
