"""Contracts for the C string literal writer (C11 kernel), Cython/Compiler/StringEncoding.py.

split_string_literal(s, limit) cuts an ESCAPED byte string into pieces that are written as adjacent C string literals
("..." "..."; MSVC limits the size of one literal).  From the statement ("the splitting of long literals into adjacent
pieces must not change the value"): a C compiler processes escape sequences per literal and concatenates afterwards, so the
value is unchanged iff every cut falls on a token boundary of the escaped text.

Input model: s is a text of unbounded length (characters s.chars[i], 0 <= i < s.len) produced by escape_byte_string, i.e. a
sequence of tokens  plain character | backslash + one non-octal character | backslash + exactly three octal digits.
WF(s, T): the ghost array T marks exactly the token boundaries of that tokenisation.
Contract:  either s is returned unchanged (shorter than the limit), or the recorded chunks tile [0, len(s)) in order,
none is empty, and EVERY cut is a token boundary.  Loop invariants for both loops, termination of both.
The even-offset fact for runs of backslashes (lemma L3) is an induction: its base and step are discharged as lemma units,
the induction schema itself is applied by hand (stated).
"""
import z3

from dv.spec import And, Or, Not, Implies
from dv.pyunit import PyUnit, load_source_module
from dv.lemma import LemmaUnit

SERVES = ("C11",)
FILE = "Cython/Compiler/StringEncoding.py"
BS = 92
FST = z3.Function("pair_fst", z3.IntSort(), z3.IntSort())
SND = z3.Function("pair_snd", z3.IntSort(), z3.IntSort())
T = z3.Array("ghost.token_boundary", z3.IntSort(), z3.BoolSort())


def octal(c):
    return And(c >= 48, c <= 55)


def wf(chars, ln):
    """T marks the token boundaries of the escaped text chars[0..ln)"""
    i, j = z3.Ints("i!wf j!wf")
    c = lambda k: z3.Select(chars, k)  # noqa: E731
    t = lambda k: z3.Select(T, k)  # noqa: E731
    step = z3.ForAll([i], Implies(And(i >= 0, i < ln, t(i)), And(
        Implies(c(i) != BS, t(i + 1)),
        Implies(c(i) == BS, And(
            i + 1 < ln,
            Implies(octal(c(i + 1)), And(i + 3 < ln, octal(c(i + 2)), octal(c(i + 3)), Not(t(i + 1)), Not(t(i + 2)), Not(t(i + 3)), t(i + 4))),
            Implies(Not(octal(c(i + 1))), And(Not(t(i + 1)), t(i + 2))))))))
    cover = z3.ForAll([j], Implies(And(j > 0, j < ln, Not(t(j))), Or(
        And(t(j - 1), c(j - 1) == BS),
        And(j >= 2, t(j - 2), c(j - 2) == BS, octal(c(j - 1))),
        And(j >= 3, t(j - 3), c(j - 3) == BS, octal(c(j - 2))))))
    return And(t(0), t(ln), step, cover)


def l3(chars, ln):
    """in a run of backslashes that starts on a token boundary, every even offset is a token boundary"""
    a, b, i = z3.Ints("a!l3 b!l3 i!l3")
    return z3.ForAll([a, b], Implies(And(a >= 0, a <= b, b <= ln, z3.Select(T, a), (b - a) % 2 == 0,
                                         z3.ForAll([i], Implies(And(i >= a, i < b), z3.Select(chars, i) == BS))),
                                     z3.Select(T, b)))


def _chunks_ok(h, chunks, n, ln, upto):
    """the n recorded chunks tile [0, upto) in order, none is empty, every chunk starts and ends on a token boundary"""
    j = z3.Int("j!ch")
    A = lambda k: FST(h.el(chunks, k))  # noqa: E731
    B = lambda k: SND(h.el(chunks, k))  # noqa: E731
    return And(*[f for _, f in _chunk_clauses(h, chunks, n, ln, upto)])


def _chunk_clauses(h, chunks, n, ln, upto):
    j = z3.Int("j!ch")
    A = lambda k: FST(h.el(chunks, k))  # noqa: E731
    B = lambda k: SND(h.el(chunks, k))  # noqa: E731
    return [("chunks.count", n >= 0),
            ("chunks.each non-empty, inside s, on token boundaries",
             z3.ForAll([j], Implies(And(j >= 0, j < n), And(A(j) >= 0, A(j) < B(j), B(j) <= ln, z3.Select(T, A(j)), z3.Select(T, B(j)))))),
            ("chunks.consecutive", z3.ForAll([j], Implies(And(j >= 0, j < n - 1), B(j) == A(j + 1)))),
            ("chunks.first starts at 0, last ends at the cursor", And(Implies(n > 0, And(A(0) == 0, B(n - 1) == upto)), Implies(n == 0, upto == 0)))]


class _Outer:
    modifies_heap = ["list.len", "list.el"]

    def holds(self, ex, st, st0):
        s = st0.vars["s"]
        start = st.vars["start"].t
        ch = st.vars["chunks"].addr
        h = st.heap
        upto = z3.If(start > s.ln, s.ln, start)
        return ([("start", And(start >= 0, Implies(start <= s.ln, z3.Select(T, start))))] +
                _chunk_clauses(h, ch, h.len(ch), s.ln, upto) +
                [("chunks is the list allocated by this call", ch == st0.vars["chunks"].addr)])

    def decreases(self, ex, st):
        s = st.vars["s"]
        return s.ln - st.vars["start"].t


class _Inner:
    """while s[end-1] == '\\\\': end -= 1 ...  - everything from `end` up to the backslash found in the window is a backslash"""
    modifies_heap = []

    def holds(self, ex, st, st0):
        s = st0.vars["s"]
        end, q = st.vars["end"].t, st0.vars["end"].t
        start, limit = st0.vars["start"].t, st0.vars["limit"].t
        i = z3.Int("i!inner")
        return [("range", And(start < end, end <= q, q < s.ln, q >= start + limit - 4)),
                ("run", z3.ForAll([i], Implies(And(i >= end, i <= q), z3.Select(s.arr, i) == BS)))]

    def decreases(self, ex, st):
        return st.vars["end"].t - st.vars["start"].t


def _post(e):
    r = e.result
    if isinstance(r, tuple) and r and r[0] == "seq":
        return And(r[1] == 0, r[2] == e.s.len)           # returned unchanged
    ch = e.vars["chunks"].addr
    return _chunks_ok(e.h, ch, e.h.len(ch), e.s.len, e.s.len)


SIMPLE = {'n': 10, 'r': 13, 't': 9, '"': 34, '\\': 92, "'": 39, '?': 63, 'a': 7, 'b': 8, 'f': 12, 'v': 11}


def cdecode(text):
    """bytes denoted by the C source text  "<text>"  where "" inside text separates adjacent literals (C11 5.1.1.2 phases 5-6,
    6.4.4.4: an octal escape is a backslash and one to three octal digits, taken greedily)"""
    out, i, n = [], 0, len(text)
    while i < n:
        c = text[i]
        if c == '"':
            if i + 1 >= n or text[i + 1] != '"':
                raise ValueError("stray quote")
            i += 2
            continue
        if c != '\\':
            out.append(ord(c))
            i += 1
            continue
        if i + 1 >= n:
            raise ValueError("backslash at the end of a literal")
        d = text[i + 1]
        if d in '01234567':
            j, v = i + 1, 0
            while j < n and j < i + 4 and text[j] in '01234567':
                v = v * 8 + int(text[j])
                j += 1
            out.append(v & 255)
            i = j
        else:
            out.append(SIMPLE[d])
            i += 2
    return bytes(out)


def _native(model, obname):
    """the real function on random escaped texts (the real escape_byte_string produces them), decoded like a C compiler"""
    import random
    mod = load_source_module(FILE, "dvsubject_StringEncoding")
    rnd = random.Random(11)
    for trial in range(1500):
        limit = rnd.choice([8, 9, 10, 12, 17, 2000, 2000])
        n = rnd.randint(0, 70) if limit < 100 else rnd.randint(1900, 4200)
        pool = [b"a", b"7", b"\\", b'"', b"\n", b"\x01", b"\xff", b"0", b"?", b"'"]
        w = [4, 2, 5, 1, 1, 2, 1, 1, 1, 1] if trial % 2 else [1, 1, 12, 0, 1, 1, 0, 1, 0, 0]
        raw = b"".join(rnd.choices(pool, weights=w, k=n))
        s = mod.escape_byte_string(raw)
        r = mod.split_string_literal(s, limit)
        try:
            got = cdecode(r)
        except Exception as ex:
            got = "C compiler rejects the text: %s" % ex
        if got != raw:
            return {"inputs": {"bytes_hex": raw.hex()[:400], "limit": limit, "len_escaped": len(s)},
                    "actual": repr(got)[:200], "expected": "the original bytes", "confirmed": True, "obligation": obname,
                    "how": "StringEncoding.py loaded from source: escape_byte_string then split_string_literal, the result read back with a C "
                           "lexer model (escapes per literal, then adjacent-literal concatenation)"}
    return {"confirmed": False, "tried": 1500}


def _lemmas():
    chars = z3.Array("s.chars", z3.IntSort(), z3.IntSort())
    ln = z3.Int("s.len")
    a, k = z3.Ints("a k")
    c = lambda x: z3.Select(chars, x)  # noqa: E731
    hyp = [ln >= 0, wf(chars, ln)]
    return [("L3.step: a token boundary followed by two backslashes is followed by a token boundary two characters later",
             hyp + [a >= 0, k >= 0, a + 2 * k + 1 < ln, z3.Select(T, a + 2 * k), c(a + 2 * k) == BS, c(a + 2 * k + 1) == BS],
             z3.Select(T, a + 2 * k + 2))]


def units(tier):
    u = PyUnit("StringEncoding.split_string_literal", {"C11": None}, FILE, "split_string_literal", [("s", "str"), ("limit", "int")],
               requires=[("s is an escaped text and T marks its token boundaries (WF)", lambda e: wf(e.s.chars, e.s.len)),
                         ("lemma L3 (even offsets in a run of backslashes; induction with base/step discharged as lemma units)",
                          lambda e: l3(e.s.chars, e.s.len)),
                         ("8 <= limit < 2**31 (the callers use the default 2000)", lambda e: And(e.limit >= 8, e.limit < 2 ** 31))],
               ensures=[("s is returned unchanged, or the chunks tile s in order, none empty, and every cut is a token boundary", _post)],
               native=_native, search=lambda seed, ob: _native({}, ob),
               options={"invariants": {0: _Outer(), 1: _Inner()}, "elem_kind": {"list": "slice"}, "tuple_keys": True, "merge": False})
    return [u, LemmaUnit("StringEncoding.split_string_literal.lemmas", {"C11": None}, _lemmas,
                         subject={"file": FILE, "function": "(lemma about the token model used by the split_string_literal contract)"})]


def side_checks(prop, tier, seed, kf_entries):
    """(1) EXHAUSTIVE (finite domain, complete): escape_char over all 256 byte values, read back as a C character constant;
    (2) BOUNDED stand-in (labelled bounded): escape_byte_string over all byte strings of length <= 2 and a random sample of
    longer ones, read back with the C lexer model incl. trigraph replacement (C11 5.2.1.1)."""
    import itertools
    import random
    mod = load_source_module(FILE, "dvsubject_StringEncoding")
    out = []
    bad = []
    for b in range(256):
        t = mod.escape_char(bytes([b]))
        try:
            v = _cchar(t)
        except Exception as ex:
            v = repr(ex)
        if v != b:
            bad.append((b, t, v))
    out.append({"kind": "exhaustive-check", "name": "escape_char: all 256 byte values, read back as a C character constant", "cases": 256,
                "disagree": len(bad)})
    if bad:
        out.append({"kind": "bounded-violation", "name": "escape_char", "text": "byte %r is written as %r, which C reads as %r" % bad[0]})
    rnd = random.Random(seed + 11)
    cases = [bytes(c) for n in (0, 1, 2) for c in itertools.product(range(256), repeat=n)]
    cases += [bytes(rnd.choices([63, 63, 47, 92, 34, 39, 0, 10, 48, 55, 56, 65, 127, 128, 255, 61, 40, 45], k=rnd.randint(3, 12))) for _ in range(20000)]
    badb = None
    for raw in cases:
        s = mod.escape_byte_string(raw)
        try:
            got = cdecode(_trigraphs(s))
        except Exception as ex:
            got = repr(ex)
        if got != raw:
            badb = (raw, s, got)
            break
    out.append({"kind": "bounded-check", "name": "escape_byte_string: C reads the escaped text back as the original bytes (trigraphs replaced first)",
                "level": "bounded", "bound": "all byte strings of length <= 2 (65793) + 20000 random strings of length 3..12 over a hostile alphabet",
                "violations": 0 if badb is None else 1})
    if badb is not None:
        out.append({"kind": "bounded-violation", "name": "escape_byte_string", "text": "bytes %r are written as %r, which C reads as %r" % badb})
    return out


TRIGRAPHS = {"=": "#", "(": "[", "/": "\\", ")": "]", "'": "^", "<": "{", "!": "|", ">": "}", "-": "~"}


def _trigraphs(text):
    out, i = [], 0
    while i < len(text):
        if text[i:i + 2] == "??" and i + 2 < len(text) and text[i + 2] in TRIGRAPHS:
            out.append(TRIGRAPHS[text[i + 2]])
            i += 3
        else:
            out.append(text[i])
            i += 1
    return "".join(out)


def _cchar(t):
    """value of the C character constant '<t>' (one char or one escape)"""
    if len(t) == 1:
        if t in "'\\\n":
            raise ValueError("not a valid character constant")
        return ord(t)
    if t[0] != "\\":
        raise ValueError("multi-character constant")
    if t[1] == "x":
        return int(t[2:], 16) & 255
    if t[1] in "01234567":
        return int(t[1:], 8) & 255
    if len(t) != 2:
        raise ValueError("bad escape")
    return SIMPLE[t[1]]


REGIONS = {}
