"""Contracts for Python int <-> C integer conversion (C05), TypeConversion.c::CIntFromPy / CIntToPy.

Subjects: __Pyx_PyLong_As_<T> (with its compact / 2-4 digit / C-API paths, inlined: all real code) and
__Pyx_PyLong_From_<T>, taken from the C the working-tree compiler generates for a module that converts to and
from each C type (module route).  Object model: dv/pyobj.py (PyLong 3.12 representation contract).
Contract from the statement, for an exact int object x:
    value fits T      =>  returns intval(x), no error
    value out of range =>  returns (T)-1 with OverflowError set
and for the way back: the result is an exact int whose value is the C value.
Non-int arguments (the __Pyx_PyNumber_Long path) are outside these units - see DESIGN.md (finding (l):
floats are accepted through nb_int, deliberate upstream behaviour).
"""
import z3

from dv.spec import And, Or, Not, Implies, If
from dv.cunit import CUnit
from dv.l3 import compiled, ERR
from dv import pyobj as O
from dv import cextract

SERVES = ("C05", "C36")

TYPES_QUICK = [("int", "int"), ("long", "long"), ("unsigned int", "unsigned_int"), ("unsigned long", "unsigned_long")]
TYPES_ALL = TYPES_QUICK + [("short", "short"), ("unsigned char", "unsigned_char"), ("long long", "PY_LONG_LONG"),
                           ("unsigned long long", "unsigned_PY_LONG_LONG"), ("signed char", "signed_char"),
                           ("unsigned short", "unsigned_short")]


def catalogue(types):
    out = ["# cython: language_level=3", ""]
    for t, tag in types:
        out += ["def conv_%s(x):" % tag, "    cdef %s v = x" % t, "    return v", ""]
    return "\n".join(out) + "\n"


def _tu(types):
    pyx = catalogue(types)
    return lambda: (compiled(pyx, None, "dvconv"), "module route: module converting Python ints to/from each C type, compiled by the working-tree compiler")


def _native(tag):
    def run(model, ob=None):
        import os
        import subprocess
        types = TYPES_ALL
        ctext, cfile = cextract.compile_pyx(catalogue(types), name="dvconvrep")
        d = os.path.dirname(cfile)
        so = os.path.join(d, "dvconvrep.so")
        p = subprocess.run(["clang", "-shared", "-fPIC", "-O0", "-w", "-I" + cextract.PY_INCLUDE, cfile, "-o", so], capture_output=True, text=True)
        if p.returncode != 0:
            return {"confirmed": False, "note": "build failed " + p.stderr[-300:]}
        code = r'''
import sys; sys.path.insert(0, %r); import dvconvrep as m
rng = {"int": (-2**31, 2**31-1), "long": (-2**63, 2**63-1), "unsigned_int": (0, 2**32-1), "unsigned_long": (0, 2**64-1), "short": (-2**15, 2**15-1),
       "unsigned_char": (0, 255), "PY_LONG_LONG": (-2**63, 2**63-1), "unsigned_PY_LONG_LONG": (0, 2**64-1), "signed_char": (-128, 127),
       "unsigned_short": (0, 65535), "size_t": (0, 2**64-1)}
vals = sorted(set(s * (2**k + d) for k in (0, 7, 8, 15, 16, 29, 30, 31, 32, 59, 60, 61, 62, 63, 64, 65, 90, 120) for d in (-1, 0, 1) for s in (1, -1)))
bad = []
for tag, (lo, hi) in rng.items():
    f = getattr(m, "conv_" + tag)
    for v in vals:
        try:
            got = f(v)
        except OverflowError:
            got = "OverflowError"
        want = v if lo <= v <= hi else "OverflowError"
        if got != want:
            bad.append((tag, v, got))
print(bad[:5])
''' % d
        r = subprocess.run(["/venv/bin/python", "-c", code], capture_output=True, text=True, timeout=120)
        out = r.stdout.strip()
        return {"inputs": "boundary values +-(2**k + d) for every C type of the catalogue", "actual": out or r.stderr[-300:],
                "confirmed": out != "[]", "how": "catalogue module built from the working tree; conversion results compared with the exact range rule",
                "obligation": getattr(ob, "name", None)}
    return run


def units(tier):
    types = TYPES_QUICK if tier == "quick" else TYPES_ALL
    tu = _tu(types)
    us = []
    for t, tag in types:
        fname = "__Pyx_PyLong_As_" + tag
        u = CUnit("TypeConversion.CIntFromPy[%s]" % t, {"C05": None, "C36": ["ub", "pre", "subset"]}, fname, tu, filt=fname,
                  pyobjs=("x",),
                  requires=[("x is an exact int object", lambda e: O.is_long(e.x))],
                  ensures=[("value fits => returned exactly, no error",
                            lambda e: Implies(And(O.intval(e.x) >= e.T.min, O.intval(e.x) <= e.T.max), And(e.result == O.intval(e.x), e.err == 0))),
                           ("value does not fit => (T)-1 with OverflowError",
                            lambda e: Implies(Or(O.intval(e.x) < e.T.min, O.intval(e.x) > e.T.max),
                                              And(e.err == ERR("OverflowError"), e.result == If(e.T.signed, -1, e.T.max))))],
                  options={"inline": ("*",)},
                  subject={"file": "Cython/Utility/TypeConversion.c", "template": "CIntFromPy", "instantiation": t})
        u.exec_cls = O.CExecPyObj
        u.err_ghost = True
        nat = _native(tag)
        u.replay = lambda model, ob=None, nat=nat: nat(model, ob)
        u.concrete_search = lambda ob, regions=(), nat=nat: nat({}, ob)
        us.append(u)
        fname2 = "__Pyx_PyLong_From_" + tag
        u2 = CUnit("TypeConversion.CIntToPy[%s]" % t, {"C05": None, "C36": ["ub", "pre", "subset"]}, fname2, tu, filt=fname2,
                   ensures=[("result is an exact int with the C value",
                             lambda e: And(e.result_id is not None, O.is_long(e.result_id), O.intval(e.result_id) == e.value)
                             if e.result_id is not None else False)],
                   subject={"file": "Cython/Utility/TypeConversion.c", "template": "CIntToPy", "instantiation": t})
        u2.exec_cls = O.CExecPyObj
        u2.err_ghost = True
        u2.replay = lambda model, ob=None, nat=nat: nat(model, ob)
        u2.concrete_search = lambda ob, regions=(), nat=nat: nat({}, ob)
        us.append(u2)
    # Py_ssize_t takes its own helper (the index protocol): __Pyx_PyLong_AsSsize_t on an exact int
    pyx = catalogue(types) + "\ndef conv_ssize(x):\n    cdef Py_ssize_t v = x\n    return v\n"
    tu2 = lambda: (compiled(pyx, None, "dvconv2"), "module route: `cdef Py_ssize_t v = x`, compiled by the working-tree compiler")  # noqa: E731
    lo, hi = -(1 << 63), (1 << 63) - 1
    u3 = CUnit("TypeConversion.PyLong_AsSsize_t", {"C05": None, "C36": ["ub", "pre", "subset"]}, "__Pyx_PyLong_AsSsize_t", tu2,
               filt="__Pyx_PyLong_AsSsize_t", pyobjs=("b",),
               requires=[("b is an exact int object", lambda e: O.is_long(e.b))],
               ensures=[("value fits Py_ssize_t => returned exactly, no error",
                         lambda e: Implies(And(O.intval(e.b) >= lo, O.intval(e.b) <= hi), And(e.result == O.intval(e.b), e.err == 0))),
                        ("value does not fit => -1 with OverflowError",
                         lambda e: Implies(Or(O.intval(e.b) < lo, O.intval(e.b) > hi), And(e.result == -1, e.err == ERR("OverflowError"))))],
               options={"inline": ("*",), "merge": False},
               subject={"file": "Cython/Utility/TypeConversion.c", "template": "__Pyx_PyLong_AsSsize_t"})
    u3.exec_cls = O.CExecPyObj
    u3.err_ghost = True

    def nat3(model, ob=None):
        import os
        import subprocess
        ctext, cfile = cextract.compile_pyx(pyx, name="dvconv2rep")
        d = os.path.dirname(cfile)
        so = os.path.join(d, "dvconv2rep.so")
        p = subprocess.run(["clang", "-shared", "-fPIC", "-O0", "-w", "-I" + cextract.PY_INCLUDE, cfile, "-o", so], capture_output=True, text=True)
        if p.returncode != 0:
            return {"confirmed": False, "note": "build failed " + p.stderr[-300:]}
        code = ("import sys; sys.path.insert(0, %r); import dvconv2rep as m\n"
                "vals = sorted(set(s * (2**k + d) for k in (0, 29, 30, 31, 59, 60, 61, 62, 63, 64, 65, 89, 90, 91) for d in (-1, 0, 1) for s in (1, -1)))\n"
                "bad = []\n"
                "for v in vals:\n"
                "    try: got = m.conv_ssize(v)\n"
                "    except OverflowError: got = 'OverflowError'\n"
                "    want = v if -2**63 <= v < 2**63 else 'OverflowError'\n"
                "    if got != want: bad.append((v, got))\n"
                "print(bad[:5])\n" % d)
        r = subprocess.run(["/venv/bin/python", "-c", code], capture_output=True, text=True, timeout=120)
        out = r.stdout.strip()
        return {"inputs": "boundary ints at digit borders", "actual": out or r.stderr[-300:], "confirmed": out != "[]",
                "how": "catalogue module rebuilt from the working tree; Py_ssize_t conversion compared with the exact range rule",
                "obligation": getattr(ob, "name", None)}
    u3.replay = nat3
    u3.concrete_search = lambda ob, regions=(): nat3({}, ob)
    us.append(u3)
    return us


REGIONS = {}
