#!/bin/sh
# Offline setup: verifies the tools the checks need; builds nothing outside /verif.
set -e
cd "$(dirname "$0")"
python3-vt -c "import z3, sys; assert z3.get_version_string().startswith('5.'), z3.get_version_string(); print('z3', z3.get_version_string())"
clang --version | head -1
/usr/bin/cvc5 --version | head -1
test -d /repo/Cython || { echo "no /repo/Cython"; exit 1; }
python3-vt -m compileall -q dv contracts >/dev/null
echo setup-ok
