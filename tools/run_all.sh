#!/bin/sh
# runs every registered quick check on the unchanged tree (rewrites evidence/*.json)
cd /verif || exit 3
git -C /repo diff --quiet -- . || { echo "/repo has uncommitted changes"; exit 3; }
for p in $(python3 -c "import json; print(' '.join(c['property_id'] for c in json.load(open('MANIFEST.json'))['checks']))"); do
  ./check $p --tier ${1:-quick} | tail -3; echo "exit=$? $p"
done
