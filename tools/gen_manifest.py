#!/usr/bin/env python3
"""Regenerates /verif/MANIFEST.json from the tables below (run after changing what is claimed)."""
import json
import os

ROOT = os.path.dirname(os.path.dirname(os.path.abspath(__file__)))

TECH = ("contract-based deductive verification: sidecar contracts on the real functions, VCs generated "
        "from /repo's current source by dv (symbolic executor over clang's typed AST / Python ast), discharged by z3 (cvc5 fallback)")

CLAIMS = {
    "C03": dict(
        text="Proof, for all operand values, that every instantiation of the DivInt/ModInt helpers returns Python's floor quotient / "
             "remainder (UB-free), and that the C functions the working-tree compiler emits for a catalogue of //, % functions "
             "(widths x signedness x runtime/constant divisor x cdivision placements) raise ZeroDivisionError on a zero divisor, return "
             "the Python result when it fits, establish the helpers' preconditions (no MIN/-1 trap) and give C truncation under cdivision. "
             "Kernel: programs are the stated catalogue; inputs are universally quantified.",
        note="Trusted: dv VC generator + encodings (idiom lemmas re-proved each run), z3/cvc5, clang typing, LP64, two's-complement "
             "narrowing; CPython API stubs on the error path (PyErr_SetString sets the indicator). Unverified: ModFloat (see C06), "
             "DivNode type analysis beyond the catalogue.",
        ref="4 C03"),
    "C04": dict(
        text="Proof, for all operands and both preprocessor configurations (__builtin_*_overflow present / absent), that every checked "
             "arithmetic helper of Overflow.c (add/sub/mul/mul_const base cases, Binop dispatch by callee contract, LeftShift) never misses "
             "an overflow, returns the exact result whenever the flag stays clear, and only ever or-s the flag; UB-freedom of each.",
        note="Trusted: as C03 plus GCC's documented contract of __builtin_*_overflow. __builtin_constant_p is an arbitrary boolean. "
             "Spurious flags are measured, not required. Unverified: the code generator's use of the helpers beyond the L3 catalogue "
             "(ConsolidateOverflowCheck); unary minus and / are decided by the L3 units (see known findings).",
        ref="4 C04"),
    "C15": dict(
        text="Proof on the abstract object model (seq_len / item) that __Pyx_GetItemInt_List_Fast and __Pyx_GetItemInt_Tuple_Fast - "
             "taken from the generated module in the release (-DNDEBUG) configuration - return exactly the element at the index "
             "wrapped once when -len <= i < len, hand every other checked index to CPython's generic item access with the ORIGINAL "
             "index, for every (wraparound, boundscheck) flag combination, and never touch ob_item[] outside [0, len). The same for "
             "__Pyx_SetItemInt_Fast on an exact list (exactly the wrapped slot is overwritten with v, or nothing is stored and the "
             "generic assignment gets an int object holding the ORIGINAL index), __Pyx_GetItemInt_Bytes_Fast (the byte as an int "
             "0..255 or IndexError) and __Pyx_{Get,Set}ItemInt_ByteArray_Fast_Locked (read / write of exactly one byte, IndexError, "
             "nothing else changed). And __Pyx_crop_slice, the bound normaliser behind l[a:b] / t[a:b] on typed lists and tuples: for ALL "
             "Py_ssize_t start / stop and every length its outputs describe exactly the slice of CPython's PySlice_AdjustIndices (empty "
             "iff that slice is empty, else the same start and length, inside the sequence), with no signed overflow; and "
             "IndexNode.analyse_as_pyobject for C-integer indices (Python side, 30 paths): a base typed str / bytes / bytearray / list / "
             "tuple reaches the direct C helper only through the None check as_none_safe_node, whatever `nonecheck` says; the `wraparound` flag handed to "
             "the integer-index helpers (IndexNode.extra_index_params, fragment unit) is 1 for every signed index type - plain or explicitly signed - "
             "unless the directive is off or the index is a constant >= 0. "
             "Kernel: integer indexing of exact lists, tuples, bytes and bytearrays; item assignment on lists "
             "and bytearrays; slice bounds of lists and tuples.",
        note="Trusted: dv C front end, dv/pyobj.py (element array model, PyList_GET_SIZE/PyTuple_GET_SIZE, generic access delegated to "
             "CPython; bytes / bytearray buffers as length + char array; PyList_SET_ITEM as a ghost store with a bounds obligation), "
             "z3. Unverified: str indexing (Unicode_Fast), DelItemInt, the non-list paths of SetItemInt (type slots), object indices, "
             "the callers of __Pyx_crop_slice (item copy), slicing of str / bytes / untyped objects (SliceObject, PyUnicode_Substring), "
             "slice bounds outside Py_ssize_t, helper selection and None checks in IndexNode / SliceIndexNode (probe findings recorded "
             "in DESIGN.md section 5 as observed, not claimed).",
        ref="4 C15"),
    "C09": dict(
        text="Proof of the data-structure contract of the numeric constant pool in Code.py (GlobalState.num_const_index as an abstract map "
             "from (literal text, type tag) to NumConst objects): INV - every pooled constant is filed under its own value text and tag - "
             "is preserved by new_num_const, get_float_const and get_int_const (new_num_const inlined = real code; try/except KeyError "
             "as two paths), the constant returned for a literal was created from exactly that text and tag, an existing entry is reused "
             "and never replaced, entries under other keys are unchanged. Hence literals with different texts or tags ('0.0' / '-0.0', "
             "'1' / '1L', int / float) never share a pooled object. Kernel: the pool of int and float literals. BOUNDED (labelled, not "
             "counted): ExprNodes.make_dedup_key, the pooling key of tuple / frozenset / slice constants, by enumeration of all pairs of "
             "short item sequences over a fixed atom set on the real function; IntNode.value_as_c_integer_string (text -> C text) over "
             "320 spellings (4 bases x 2 signs) of magnitudes around the 32/64-bit boundaries against an LP64 model of C's literal "
             "typing (C11 6.4.4.1) and unary minus.",
        note="Trusted: dv Python front end (literal texts and tags as abstract identities, tuple keys through an injective pairing with "
             "projections, any non-identity key such as float(text) an uninterpreted function), z3; NumConst.__init__ and "
             "new_num_const_cname are contract stubs (the chosen C names are NOT part of the contract: seed C09-a, colliding cnames of "
             "huge ints, is outside). Unverified: constant folding (Optimize.ConstantFolding), Utils.str_to_number and the text "
             "normalisation done by IntNode/FloatNode before the pool is asked, literal emission, get_py_const / string constants.",
        ref="4 C09"),
    "C10": dict(
        text="Proof of the escape-decoding kernel of bytes and char literals: Parsing._append_escape_sequence (escape text of symbolic "
             "content and length, builder calls by contract with a ghost event record) issues exactly the builder call CPython's escape "
             "rules prescribe - the numeric value of 1-3 octal digits for \\ooo and of two hex digits for \\xhh (int(text, base) "
             "modelled digit by digit), the character itself for \\' \\\" \\\\, the table entry for \\a \\b \\f \\n \\r \\t \\v, nothing for "
             "backslash-newline, and the sequence kept literally for every other character (incl. \\N \\u \\U, which are not escapes in "
             "bytes literals); BytesLiteralBuilder.append_charval appends exactly the byte n % 256 for every n in 0..0o777 (CPython keeps "
             "the low 8 bits of b'\\777') and UnicodeLiteralBuilder.append_charval exactly chr(n). EXHAUSTIVE: the 7-entry escape table. "
             "Also: the items a for-loop over a bytes literal delivers to an object target are int objects holding the literal's bytes "
             "(L3 unit L3bytesiter, shared with C14). "
             "Kernel: these functions; the LZSS string-table compression setting is decided at item level under C12.",
        note="Trusted: dv Python front end (PSeq string model, int(text, base) closed form for <= 8 digits), z3; the scanner guarantees "
             "about the shape of escape sequences (Lexicon.py) are preconditions, not proved. NOT covered: str / f-string literals "
             "(\\N{...}, \\uXXXX, \\UXXXXXXXX, surrogates), prefixes and raw strings, implicit concatenation, p_string_literal's token loop, "
             "generate_string_constants, the zlib/bz2/zstd settings, very long strings.",
        ref="4 C10"),
    "C11": dict(
        text="Proof for texts of UNBOUNDED length (symbolic character array + length, Python slicing with clamping, `in` / find on "
             "statically bounded windows) that StringEncoding.split_string_literal either returns the escaped text unchanged or cuts it into "
             "non-empty chunks that tile it in order with EVERY cut on a token boundary of the escaped text (plain character | backslash + "
             "non-octal character | backslash + three octal digits) - the condition under which a C compiler, which processes escapes per "
             "literal before concatenating adjacent literals, reads the same bytes; loop invariants and termination for both loops, for "
             "every limit >= 8. EXHAUSTIVE over the full finite domain: escape_char for all 256 byte values read back as a C character "
             "constant. BOUNDED (labelled, not counted): escape_byte_string for all byte strings of length <= 2 plus a random sample, "
             "read back with a C lexer model including trigraph replacement.",
        note="Trusted: dv Python front end (PSeq string model), z3; the token model WF of escaped texts (what escape_byte_string emits: "
             "validated by the bounded check on the real function, not proved); lemma L3 (even offsets inside a run of backslashes are "
             "token boundaries): its step is discharged as a lemma unit, the induction schema is applied by hand; the C lexer model used "
             "for replays (C11 5.1.1.2, 6.4.4.4). Unverified: _build_specials_replacer's regular expressions beyond the bounded check, "
             "Code._write_escaped_cstring_const, the string-table writer's own chunking, encode_pyunicode_string.",
        ref="4 C11"),
    "C41": dict(
        text="Proof for ALL texts that Options.parse_directive_value, for a directive whose declared type is bool, returns True only for "
             "'True' (with relaxed_bool also texts whose lower() is 'true' or 'yes'), False only for 'False' ('false' / 'no'), and "
             "rejects every other text with ValueError - the last clause of the statement ('parsed to the documented value or "
             "rejected') for the bulk of the directives. InterpretCompilerDirectives.try_to_parse_directive, for a bool directive used as a "
             "decorator or with-block: X(<bool literal>) denotes that value, X(None) denotes the BUILT-IN default of X (the dict "
             "returned by Options.get_directive_defaults(), not the module's current setting), every other argument shape raises "
             "PostParseError. Kernel: these two functions, bool directives only.",
        note="Trusted: dv Python front end (texts as abstract identities, str.lower() an uninterpreted function, directive_types.get an "
             "opaque lookup, str() of a str the identity), z3. NOT covered: int / str / one_of() / callable directive types, "
             "parse_directive_list, and the whole scoping and precedence part of the property (InterpretCompilerDirectives decorators and "
             "with-blocks - seed C41-b is missed -, header comments, command line vs. header vs. defaults).",
        ref="4 C41"),
    "C40": dict(
        text="Proof of the two decision points of safe type inference in TypeInference.py (real functions, sidecar contracts): "
             "MarkOverflowingArithmetic.visit_BinopNode visits the operand names of EVERY binary operator whose C result can leave the "
             "operand range (all of ExprNodes.binop_node_classes except & | ^ %, the universe being read from the working tree each run) "
             "with might_overflow set, restores the flag and returns the node (visit_neutral_node / visit_dangerous_node inlined, "
             "visitchildren by contract with a ghost recording the flag); safe_spanning_type returns a C integer or enum type other "
             "than bint only when might_overflow is false, on every one of its 19 paths (type objects opaque, kind flags as fields); "
             "visit_NameNode marks the entry of every name visited while the flag is set (its own entry, else the scope's), unconditionally. "
             "Kernel: these three functions.",
        note="Trusted: dv Python front end (strings as interned ids; the substring test `op in '&|^'` decided over the declared operator "
             "universe; user-defined == as an uninterpreted reflexive relation), z3. ASSUMED: consistency of PyrexTypes kind flags (C "
             "integer/enum kinds exclude the other kinds; c_double/c_float are floats; the Builtin fallback types are Python object "
             "types; integer types can always be coerced to objects). Unverified: MarkParallelAssignments, the other visit_* methods "
             "(abs, unary minus, in-place operators, long literals), find_spanning_type / simply_type, the inference driver "
             "(SimpleAssignmentTypeInferer), and that results of inferred code equal those of uninferred code (a relational "
             "whole-compiler property).",
        ref="4 C40"),
    "C13": dict(
        text="Proof (a) on the abstract object model (bytes objects as length + char array) that __Pyx_PyBytes_SingleTailmatch - the helper "
             "behind bytes.startswith / bytes.endswith on typed receivers, taken from the generated module - returns for a bytes affix and "
             "ALL Py_ssize_t start / end exactly what CPython's _Py_bytes_tailmatch returns (ADJUST_INDICES clamping, the endswith "
             "window, empty affixes, start beyond the end) and that its memcmp stays inside both objects; that __Pyx_PyList_Pop and "
             "__Pyx__PyList_PopIndex (l.pop(), l.pop(i); mutable size and element array as ghost state) either return the right element "
             "with the size decremented and the elements above moved down by one (memmove inside the element array), or call CPython's "
             "own list.pop on the UNCHANGED list with the original index; that __Pyx_PyList_Append, __Pyx_ListComp_Append and "
             "__Pyx_PyObject_Append (l.append(x), comprehensions) either store x in slot `size` INSIDE the allocated slots, raise the size by "
             "one and write nothing else, or call CPython's own PyList_Append on the unchanged list, or - for a non-list receiver - make "
             "the Python-level call L.append(x) and map a NULL result to -1; that Optimize._optimise_generic_builtin_method_call (the "
             "transform that makes `obj.meth(..)` on a builtin-typed receiver call the method's cached C function directly) hands the "
             "receiver to the cached call only through the None check of _wrap_self_arg; that Visitor._dispatch_to_handler dispatches the "
             "unbound form T.meth(o, ..) to T's specialised helper only when o's static type IS T; that _handle_simple_method_dict_pop "
             "keeps the KeyError-raising helper for d.pop(key) (the miss-ignoring one needs an explicit default and an unused result); "
             "that the call site of bytearray.append(v) for int / long long / unsigned int / Py_ssize_t arguments appends exactly the "
             "byte values and raises for everything else (L3 on the object model, helpers by contract); that list(x) selects the helper which may "
             "return its argument (__Pyx_PySequence_ListKeepNew) only for an argument living in a compiler temporary; that the optional integer "
             "bounds of optimised str / bytes method calls are normalised in place (_inject_int_default_argument: default for an absent or literal-None "
             "bound, run-time None mapped to the default's text, nothing else changed); (b) for a catalogue of builtin "
             "calls on C integers (abs, min / max with 2-4 operands of mixed C types and constants, nested min/max, bool()) the C function "
             "the working-tree compiler emits returns, for ALL argument values, the value Python's semantics give the same source text "
             "(reference evaluator dv/pyref.py over the catalogue's own ast, validated against CPython every run). Kernel: these helpers "
             "and this catalogue only.",
        note="Trusted: dv C front end, dv/pyobj.py (PyBytes_AS_STRING / PyBytes_GET_SIZE contracts: len + 1 readable chars), memcmp's C "
             "contract, the transcription of CPython 3.12 _Py_bytes_tailmatch (validated against bytes.startswith/endswith every run), z3. "
             "Recorded finding: abs() of the most negative C integer (witness replayed every run). NOT covered: non-bytes affixes (buffer "
             "protocol path), tuples of affixes, str methods (delegated to CPython's PyUnicode_Tailmatch), reference counts (Py_INCREF before "
             "the store is not modelled), the dict/set/bytearray method helpers (dict_getitem_default, py_dict_pop, py_set_remove, ...), "
             "len/sum/any/all/sorted/isinstance/ord/chr and the "
             "type-constructor replacements, wrong-type / None / subclass argument paths, Builtin.py signatures.",
        ref="4 C13"),
    "C14": dict(
        text="Proof, for a catalogue of `for i in range(...)` / `reversed(range(...))` loops over C integers (start/stop/constant step "
             "of both signs, |step| in 1..3, else clause, break), that the C function the working-tree compiler emits runs exactly "
             "Python's iterations in Python's order: a structural loop invariant (read off the emitted `for` statement's own counter, "
             "bound and increment) states that at the k-th entry of the body the loop variable is element k of Python's sequence, "
             "termination by a decreasing measure, and the postcondition gives the iteration count len(range(a, b, s)), the final "
             "value of the loop variable (untouched for an empty sequence), the else clause exactly when no break happened and the "
             "position of the first hit for break - for ALL bounds a, b (unbounded iteration counts; no unrolling). Also: a loop over a bytes LITERAL with an object "
             "or C-int target appends int objects holding the literal's bytes, in order (L3 unit L3bytesiter on the object model, 2-item loop "
             "unrolled with an unwinding assertion); a loop over a set-typed variable never hands None to the helper that reads it as a set "
             "(L3 unit L3setiter: precondition of __Pyx_set_iterator at the call site, None modelled as an object); the C-array route of loops over a display is taken only for a display without a repeat factor "
             "(fragment unit on _try_optimise_array_iteration: precondition of the array route at its call); optimised enumerate() / dict.items() loops split their target only into two "
             "plain (un-starred) targets (two fragment units); the counter of enumerate() is marked as a Py_ssize_t for type inference only in the "
             "one-argument form (fragment unit on FlowControl.mark_forloop_target). Kernel: "
             "programs are the stated catalogue; inputs are universally quantified.",
        note="Trusted: dv C front end (loop-invariant rule), z3, the closed form of len(range()) (validated against CPython every run), "
             "the Div/Mod helper contracts proved under C03. Value obligations assume absence of C undefined behaviour; the overflow "
             "obligations of the emitted counter arithmetic are part of this check and hold except in the recorded finding "
             "C14-range-counter-overflow (bounds near the type limits; witness replayed natively every run). NOT covered: range with a "
             "run-time step (Python iteration protocol), object loop targets of range loops, enumerate, dict/set/str/bytes-object/C-array iteration, "
             "dict_iter/set_iter helpers and the mutation-during-iteration RuntimeError.",
        ref="4 C14"),
    "C20": dict(
        text="Proof, for a catalogue of expression and assignment shapes whose leaves are calls of external C functions (binary and unary "
             "operators, nested call arguments, and / or chains, conditional expressions, chained comparisons, min / max / abs, tuple, "
             "cascaded and augmented assignment, if statements, conditionals inside arguments), that the C function the working-tree "
             "compiler emits calls the leaves in exactly the order Python's evaluation rules give for the same source text - left to "
             "right, each at most once, stopping where and / or / conditional expressions / chained comparisons stop - and returns "
             "Python's value, for ALL leaf values: every leaf is a contract that appends its identity to a ghost call trace, the expected "
             "trace is computed from the catalogue's own ast by a reference evaluator (validated against CPython's exec with logging "
             "leaves on every run). Kernel: C-typed leaves in these shapes only.",
        note="Trusted: dv C front end, z3, the reference evaluator (spec-validated natively, 20k cases per run). ASSUMED: the C compiler "
             "evaluates the operands of one C expression from left to right (indeterminately sequenced in C11 6.5.2.2p10; what gcc and "
             "clang do for calls) - Cython emits several leaf calls inside one C expression. Recorded finding (KNOWN-FINDING, witness "
             "replayed every run): a plain C call that is emitted inline runs AFTER a right-hand sibling that needs a temporary. NOT "
             "covered: Python-object operands, attribute / subscript targets, unpacking of iterables, dict / set displays, "
             "keyword / star arguments, ExpandInplaceOperators on non-name targets.",
        ref="4 C20"),
    "C19": dict(
        text="Proof (a) on the abstract CPython object model that the comparison helpers of Optimize.c::PyObjectCompare taken from the "
             "generated module answer like CPython: __Pyx_PyObject_CompareIntInt<Op> for all six operators and both result kinds "
             "(sign/size comparison, 1- and 2-digit fast paths, digit loop with invariant and termination) returns value(op1) <op> value(op2) "
             "for exact ints of ANY size; the dispatcher __Pyx_PyObject_CompareBool<Op>_object_object compares exact floats / ints by value, "
             "sends every other pair of builtin types to the helper for exactly that pair in that argument order and everything else to "
             "PyObject_RichCompare(op1, op2, Py_<OP>); __Pyx_PyLong_{Eq,Ne}ObjC (x == c, x != c); the 24 bytes / bytearray comparison helpers "
             "(all four type pairs, six operators) answer CPython's lexicographic comparison of the UNSIGNED bytes, then of the lengths "
             "(memcmp by its C contract incl. the sign of the first differing byte; char objects read through unsigned char pointers). "
             "(b) For a catalogue of C-integer functions "
             "(if/elif chains rewritten into C switches, `in`/`not in` against literal tuples and bytes literals, chained comparisons, "
             "and/or/not mixes) the C function the working-tree compiler emits returns, for ALL argument values, the value Python's "
             "semantics give the same source text (reference evaluator dv/pyref.py over the catalogue's own ast, validated against "
             "CPython every run). (c) Call sites and transforms: `c in b` with a C integer and a bytes object answers like CPython's "
             "membership test on an int object holding exactly c, or - for byte values only - by the direct scan; `a == b` / `a != b` as a "
             "condition on an extension-type operand is the truth of CPython's rich comparison also for IDENTICAL objects (no C-API identity "
             "shortcut); ConstantFolding._handle_NotNode never negates a chained comparison link-wise; chained comparisons of OBJECTS "
             "(a < b < c as a value and as a condition, a == b <= c != d) give Python's value, have an exception pending exactly when a "
             "comparison or a truth test raised, and enter no comparison or truth test while an exception is pending; a link against a C "
             "integer literal after a membership / str-equality helper passes objects (never an integer cast to PyObject *). "
             "Kernel: programs are the stated catalogue; inputs are universally quantified.",
        note="Trusted: dv C front end, dv/pyobj.py (PyLong 3.12 representation contract, exact-type predicates as views of Py_TYPE, "
             "PyFloat_AS_DOUBLE, PyObject_RichCompare = CPython's own answer), z3; the positional-notation lemma LEX is a lemma unit "
             "(bases, steps and derivation discharged; induction schema applied by hand; assumed: value = sum of weighted digits). "
             "NOT covered: the int/float and str helpers "
             "(their answers are uninterpreted at the dispatcher's call sites: only the routing is decided), the object-returning "
             "dispatcher variants and typed variants (same template text), UnicodeEquals/UCS4, dict/set membership, operand evaluation "
             "order for operands with side effects, mixed signed/unsigned C comparisons.",
        ref="4 C19"),
    "C18": dict(
        text="Proof, on an abstract str model (code points / UTF-8 bytes handed to the decoder), that the C-integer formatting helpers "
             "taken from the generated module produce exactly CPython's text: __Pyx____Pyx_PyUnicode_From_<T> == format(v, '<0?><width>[doxX]') "
             "character by character for every value of T, every width and both paddings (loop unrolled to the type's digit bound with an "
             "unwinding assertion, per-iteration ghost lemmas); __Pyx_uchar_<T> / __Pyx_PyUnicode_FromOrdinal_Padded == format(v, '<0?><width>c') "
             "incl. OverflowError outside range(0x110000) and the RFC 3629 bytes given to PyUnicode_DecodeUTF8; __Pyx_PyUnicode_BuildFromAscii "
             "(loop invariants, termination). Python side and call sites: ConstantFolding.visit_FormattedValueNode replaces an f-string field "
             "by its value only for a unicode literal (not a bytes literal); the emitted call for an f-string field on an EXTERNAL typedef "
             "passes the full value to a helper of that type, and a plain int formatted AFTER a narrower external typedef still reaches a helper of type int "
             "(L3 call-site units on two catalogues, helpers by contract); the kind handed to __Pyx_PyUnicode_Join "
             "by the emitted f-string code covers every part's largest code point (L3 call-site unit L3join on three catalogue shapes: 'c', "
             "width+'c', 'd'; join and formatting helpers by contract). "
             "BOUNDED stand-in (labelled, not counted as proved): CIntLike._parse_format, which decides which "
             "f-string specs reach these helpers and with which (type, width, padding), exhaustively over every spec of length <= 4 over a "
             "24-character alphabet: an accepted spec must mean under CPython's format() what the helper computes. "
             "Kernel: integer and character formatting helpers only.",
        note="Trusted: dv C front end, dv/pystr.py (contracts of PyUnicode_New/WRITE/DecodeLatin1/DecodeUTF8/FromOrdinal/Concat, "
             "PySequence_Repeat; allocation never fails), the closed forms of the digit tables (checked against the initialisers every run), z3. "
             "Unverified: f-string node lowering beyond the catalogue shapes (JoinedStrNode/FormattedValueNode choose helper, width, padding), "
             "%-format rewriting, CDoubleToPyUnicode, str()/repr()/format() of objects, the body of __Pyx_PyUnicode_Join (contract only), every format spec outside "
             "[0]width{d,o,x,X,c}; the quick tier covers int (d, x) + the character helpers, the thorough tier all of int/long/short/unsigned int.",
        ref="4 C18"),
    "C16": dict(
        text="Proof for all Py_ssize_t arguments that __pyx_memoryview_slice_memviewslice (the one-dimension index/slice normaliser "
             "behind both a[i:j:k] on typed memoryviews and memoryview.__getitem__), taken from the C the working-tree compiler "
             "generates, yields exactly CPython's slice.indices()/len(range()) extent, stride*step, the adjusted start offset, "
             "IndexError for out-of-range indices and ValueError for a zero step, leaving *dst untouched on errors; and that _unellipsify_index_tuple (the tuple-index normaliser of the memoryview object, cut "
             "mechanically out of MemoryView.pyx on every run, three loop invariants) returns exactly ndim entries and accepts no tuple "
             "naming more dimensions than the view has (IndexError / TypeError otherwise); and that the compiler's static layout of a sliced typed "
             "memoryview (MemoryViewIndexNode.analyse_types, fragment unit) keeps a non-strided packing for a sliced axis only when the step is "
             "absent or the constant 1 (a reversed or strided axis is never declared contiguous). Kernel: these "
             "subjects, direct (non-indirect) dimensions.",
        note="Trusted: dv C front end + clang typing, z3, the slice.indices transcription (validated natively each run), CPython API "
             "stubs for the error path; for the .pyx function: the extraction drops the C types of parameters and locals (integers are mathematical), "
             "items are opaque identities, isinstance / PyIndex_Check uninterpreted. Unverified: _unellipsify (the non-tuple wrapper), the per-dimension driver loop (memview_slice),  compile-time generate_buffer_slice_code, "
             "PIL-style indirect dimensions. Value obligations assume absence of UB, which is reported under C36.",
        ref="4 C16"),
    "C36": dict(
        text="Proof of the UB-freedom obligations (signed overflow, division by zero and MIN/-1, shift count/negative shift, out-of-bounds "
             "access of contract-described buffers, uninitialised reads, helper preconditions at call sites) of every C function under "
             "contract in the other checks: CMath Div/Mod helpers, all of Overflow.c in both preprocessor configurations, the L3 division "
             "catalogue, the memoryview slice normaliser. For all inputs satisfying the call-site preconditions - strictly stronger than a "
             "sanitizer run on those functions, silent about everything else.",
        note="Trusted: as the individual checks. Known finding (recorded, witness replayed under a UBSan trap build each run): stride*step "
             "overflow in the memoryview slice normaliser. Unverified: all generated code outside the catalogue; refcount/lifetime errors.",
        ref="4 C36"),
    "C39": dict(
        text="The same contract is proved for each preprocessor/instantiation configuration that selects a different branch of a helper: "
             "Overflow.c with and without __builtin_*_overflow, b_is_constant 0/1 in Div/Mod, every C integer type of the instantiation "
             "matrix. Configuration independence for exactly these helpers (kernel).",
        note="Trusted: as C03/C04. Unverified: optimisation levels, Limited API, CYTHON_* feature macros outside the helpers under contract.",
        ref="4 C39"),
    "C48": dict(
        text="Proof (loop invariant over an arbitrary-order dict iteration with a ghost 'seen' set) that "
             "CompilationOptions.get_fingerprint puts EVERY attribute of the options object that the statement does not allow to be "
             "ignored - in particular language_level and compiler_directives - into the fingerprint data with its value, or raises "
             "NotImplementedError; so two option objects differing in such an attribute cannot share a cythonize cache key. Its nested "
             "to_fingerprint renders every non-dict value with repr() (the rendering assumed injective) and with nothing weaker. "
             "Cache.transitive_fingerprint (loop invariant over the dependency list, digest object as the set of data fed) feeds the "
             "digest with the content hash of the source, of EVERY dependency that is not a C/C++ source or header, and with the "
             "fingerprints of the extension flags and of the compilation options, and returns the digest of exactly that (or None "
             "after an OSError: no caching). Kernel: these key builders.",
        note="Trusted: dv Python front end (strings abstracted to interned identities, option values to opaque identities), z3; "
             "repr/sha256 assumed injective on the option-value domain; file_hash = content hash, os.path.splitext, sorted (a permutation; "
             "the contract is order-insensitive) and the two get_fingerprint methods are contract stubs at transitive_fingerprint's call "
             "sites; try/except OSError over-approximated. NOT covered (unverified surround, see DESIGN.md): the dict branch of "
             "to_fingerprint (sorting, recursion), Cache.file_hash itself and its memoisation across compilations in one process, the "
             "dependency discovery that produces the list (C46), Inline._inline_key call sites (the key omits "
             "cython_compiler_directives), cache lookup/store I/O.",
        ref="4 C48"),
    "C02": dict(
        text="Proof on the abstract CPython object model that the constant-operand fast paths __Pyx_PyLong_{Add,Subtract,FloorDivide,"
             "Remainder,Lshift,Rshift,TrueDivide}ObjC and {Add,Subtract}CObj (taken from the generated module, digit cases unrolled, "
             "sub-functions inlined) return an exact int / float with exactly Python's result for the int operand - floor division, "
             "remainder with the divisor's sign, shifts validated after the fact, true division only via doubles when the operand is "
             "exactly representable - or delegate to CPython's own slot; under the call-site conditions of Optimize.py (|c| <= 2**30, "
             "no zero divisor, shift constants 1..63). All int operands of any size at once.",
        note="Trusted: dv C front end, dv/pyobj.py (PyLong representation contract, C-API stubs, delegation to CPython's slots assumed "
             "correct), z3; inside the function marked no_sanitize(\"shift\") shifts follow x86-64/AArch64 semantics; IEEE division and "
             "int->double conversion are uninterpreted functions shared with the spec. Also under contract for this property: "
             "__Pyx_PyLong_{Eq,Ne}ObjC (contracts/compare.py) and the float-constant binops __Pyx_PyFloat_* (contracts/pyfloat_binop.py). "
             "Also the float-with-int fast paths of the object-object helpers __Pyx_PyNumber_{Add,Subtract,Multiply}_{xfloat,xint}_object "
             "(PyNumberBinop: exact float of the IEEE operation on a and (double) n, sign of zero included; kernel: one exact float, one exact int). "
             "The call-site conditions themselves are discharged at their source: the gate of Optimize.optimise_numeric_binop (fragment "
             "unit, all nodes and operators) lets a helper be selected only with |int constant| <= 2**30 and a non-zero constant divisor, and for `c / x`, `c // x`, `c % x` the "
             "helper is told to check for a zero divisor exactly when the node does not ask for C division (three fragment units). "
             "NOT covered: And/Or/Xor (symbolic-symbolic bit operations), Multiply, the non-int operand paths of PyLongBinop, "
             "the second half of optimise_numeric_binop (helper name, extra arguments) and its callers.",
        ref="4 C02"),
    "C05": dict(
        text="Proof on the abstract CPython object model, for every C integer type of the matrix, that __Pyx_PyLong_As_<T> (compact, "
             "2-4 digit and C-API paths, all inlined real code from the generated module) returns the value of an exact int object when "
             "it fits T and (T)-1 with OverflowError otherwise, without UB in the digit arithmetic; and that __Pyx_PyLong_From_<T> "
             "returns an exact int with the C value. For all int objects (all digit counts) at once. Compiler side: a coercion node with a C integer "
             "target passes no substitute converter to from_py_call_code (CoerceFromPyTypeNode.generate_result_code: the type's own checked converter is used).",
        note="Trusted: dv C front end; dv/pyobj.py: PyLong 3.12 representation contract (incl. ob_digit[0] == 0 for zero), documented "
             "contracts of PyLong_As*/PyLong_From*, allocation never fails, refcounts not modelled; z3. Not covered: non-int arguments "
             "(__Pyx_PyNumber_Long: floats are accepted through nb_int - observed, deliberate upstream behaviour, not claimed), "
             "__Pyx_PyIndex_AsSsize_t, enums, the Limited-API and non-PYLONG_INTERNALS configurations.",
        ref="4 C05"),
    "C06": dict(
        text="Proof in the theory of IEEE-754 floats (z3 Float64/Float32, fmod as an uninterpreted function constrained by the C11 "
             "clauses and shared by subject and spec) that the ModFloat helper returns, for all finite operands with a non-zero "
             "divisor, a value bit-identical (up to NaN payload) to CPython's float_rem - including the sign of a zero remainder. "
             "Proof on the abstract object model that __Pyx_PyFloat_{Add,Subtract,TrueDivide}{ObjC,CObj} and {Eq,Ne}ObjC (x op 1.5, "
             "1.5 op x; taken from the generated module) apply the IEEE operation to the right operands in the right order for exact "
             "floats and for ints whose conversion to double is exact (the fast path is taken for ints only below 2**53, with the sign "
             "re-applied), raise ZeroDivisionError for `c / 0`, and delegate everything else to CPython's own PyNumber / comparison "
             "functions. Proof (FP theory, same fmod symbol) that the FloorDivFloat helper is bit-identical to CPython's float_floor_div "
             "for ALL doubles a (incl. inf / nan) and b != 0, and that the C function the working-tree compiler emits for `a // b` on C "
             "doubles raises ZeroDivisionError for b == 0 and otherwise returns that value (C's floor(a / b) under cdivision=True). "
             "Proof, for the float(str/bytes/bytearray) fast path, that __Pyx__PyBytes_AsDouble_IsSpace is Py_ISSPACE on ASCII and that "
             "__Pyx__PyBytes_AsDouble_Copy (loop invariant over a ghost count of non-underscore characters, termination) either refuses "
             "(NULL: CPython's own parser decides) or has removed only underscores PEP 515 allows - none first or last, none directly "
             "after `_ . e E + -`, none directly before `_ . e E` - leaving the text without them plus NUL inside the caller's buffer; "
             "the same for the str variant __Pyx__PyUnicode_AsDouble_Copy (per PyUnicode kind; every copied character ASCII; all writes inside "
             "the end - start + 1 bytes the caller provides - the obligation that exposed a one-byte stack/heap overflow, repaired) and "
             "__Pyx__PyUnicode_AsDouble_IsSpace (on ASCII exactly what the bytes parser strips). "
             "Kernel: float modulo, float floor division, float-constant binops and these two parsing helpers.",
        note="Trusted: dv C front end, z3's FP theory, the C11 contract of fmod/copysign, the float_rem transcription (validated "
             "against float.__mod__ each run); for PyFloatBinop the IEEE operations and the int -> double conversion are uninterpreted "
             "functions shared by subject and specification (ASSUMED per converted term: not NaN, sign, zero only for 0, below 2**53 "
             "exactly when the magnitude is), PyLong_AsDouble / tp_richcompare are CPython's own. NOT covered: the Remainder variant of "
             "PyFloatBinop, int()/round() of doubles, the rest of float parsing (PyOS_string_to_double is CPython's; the inf/nan "
             "spellings, the whitespace loops and the dispatch of __Pyx__PyBytes_AsDouble are not under contract; that a fully parsed "
             "text consists of digits, '.', 'e', 'E' and signs is the argument that turns 'between digits' into the adjacency clause).",
        ref="4 C06"),
    "C07": dict(
        text="Proof on the abstract CPython object model that __Pyx__PyNumber_PowerOf2 (the `2 ** n` fast path, taken from the C the "
             "working-tree compiler generates) returns either the exact int 2**n (n an exact non-negative int) or CPython's own "
             "PyNumber_Power/InPlacePower result, with no undefined shift on the way; proof that the loop-free part of IntPow "
             "(e in 0..3, and e < 0 for signed types) is exact and UB-free for every instantiated C integer type whenever the result "
             "fits. The square-and-multiply loop of IntPow is only covered by a BOUNDED native check (exhaustive for 8/16-bit types), "
             "labelled bounded and not counted as proved. ExprNodes.PowNode.py_operation_function selects the PowerOf2 helpers (which "
             "ignore their base argument) only when operand1's constant is an int AND equals 2 - their call-site precondition - with "
             "`== 2` and isinstance(., int) as uninterpreted predicates on abstract constants (2.0 == 2 holds in Python).",
        note="Trusted: dv C front end, the object model of dv/pyobj.py (PyLong 3.12 representation contract, C-API stubs, allocation "
             "never fails, refcounts not modelled), z3. Unverified: PowNode result-type table (cpow), float/complex pow, the IntPow loop "
             "(its final squaring is signed overflow for e.g. 3**19 as int: strict-C UB, masked by -fwrapv/-fno-strict-overflow builds).",
        ref="4 C07"),
    "C12": dict(
        text="Item-level round trip of the string-table compressor, proved on the two real code fragments (located mechanically on every "
             "run): whatever (offset, length) the emission branch of lzss_compress encodes, the bytes it appends decode under the shared "
             "format spec to exactly (offset-length, length) and are consumed exactly - and the back-reference branch of the C "
             "decompressor __pyx_lzss_decompress implements that format spec, copies from the right place, stays in bounds and never "
             "overlaps (memcpy), for all byte values. And the WHOLE C decompressor, both loops by invariants over a ghost token stream "
             "(one flags byte per 8 tokens; the back-reference branch enters through the contract proved for it): for every well-formed "
             "stream it consumes EXACTLY the compressed length and never reads the source or writes the destination outside their extents. "
             "Kernel: the per-item encode/decode pair of all three encodings plus literals, and the decoder's loop structure.",
        note="Trusted: dv front ends (fragment extraction drops the rest of both functions), z3, idiom lemmas, memcpy's C contract. ASSUMED, "
             "not proved: find_longest_match returns a real match within the window (its postcondition is the fragment's precondition); "
             "the stream well-formedness the decoder unit requires (= the postcondition of lzss_compress as a whole: flag-byte grouping, "
             "exact length, padding of its outer loop); termination of both outer loops; the decoded content at function level; "
             "zlib/bz2/zstd paths are CPython's. A native whole-compressor round trip through the real C decompressor backs the replay.",
        ref="4 C12"),
    "C49": dict(
        text="Proof of field-exact postconditions with whole-heap frames for the mutators of StringIOTree on an address-based heap "
             "(aliasing is real: commit moves the SAME stream object into the fresh child): commit(), insert(t) and insertion_point() "
             "(commit's body inlined, i.e. real code) - pending text is always committed into a fresh child before anything is appended, "
             "children only grow at the end, self gets a fresh stream/markers and a write alias bound to the new stream, nothing else in "
             "the heap changes. Kernel: the per-operation step of the insertion-point-order argument.",
        note="Trusted: dv Python front end; io.StringIO and the StringIOTree constructor are contract stubs (tell() = length of the text, "
             "fresh empty objects); write aliases are modelled as the stream's identity. NOT mechanised: the induction from the per-step "
             "contracts to 'getvalue() is the concatenation in insertion-point order' (DESIGN.md), getvalue/copyto/allmarkers "
             "recursion, marker/line alignment in CCodeWriter.",
        ref="4 C49"),
    "C50": dict(
        text="Proof of two data-structure kernels of the lexer engine: TransitionMap.split (binary search with insertion) against the "
             "class's representation invariant - loop invariant taken from the source comment, termination, field-exact postcondition "
             "(map unchanged, or [code, COPY of the left set] inserted at the returned even index strictly between its neighbours), "
             "invariant re-established, no other set object changed; and Regexps.Seq.__init__: the nullable / match_nl flags equal "
             "their definition over the items (they decide where begin-of-line transitions are generated); and the epsilon closure of "
             "the subset construction (DFA.add_to_epsilon_closure, recursive, by its own contract with a loop invariant over an arbitrary "
             "iteration order of a set; DFA.epsilon_closure with the data-structure invariant 'every memoised closure is complete'; "
             "DFA.set_epsilon_closure, two nested set loops, against the frame contract of epsilon_closure): the "
             "result contains the state(s), is closed under epsilon moves and holds only reachable states. Kernel only.",
        note="Trusted: dv Python front end (heap as address-indexed arrays; list cells typed by position through the invariant), z3. "
             "Assumed: only the closure rules of the ghost reachability relation (used positively). Termination of the recursion is not proved. "
             "Unverified: TransitionMap.add/add_set/items, NFA construction (build_machine), the rest of nfa_to_dfa, the scanner loop - the global "
             "longest-match/earliest-rule theorem is not proved.",
        ref="4 C50"),
    "C38": dict(
        text="Proof for ALL integers (unbounded) that the interpreted fallbacks Shadow.cdiv / Shadow.cmod compute C truncating division "
             "and remainder - the same spec functions the compiled cdivision code is proved against in C03 - and raise ZeroDivisionError "
             "exactly for a zero divisor. Kernel: only these two functions of pure-Python mode.",
        note="Trusted: dv Python front end (int = mathematical integer; // and % encoded through z3 div/mod), z3/cvc5. Unverified: "
             "cython.cast/declare/locals plumbing and every other Shadow facility.",
        ref="4 C38"),
    "C44": dict(
        text="Proof that every function of LineTable.py meets its contract against a transcription of CPython's location-table decoder "
             "(validated against co_positions() each run): for every documented position (start-sorted, start<=end, non-negative columns, "
             "C int range) the bytes appended by encode_single_position decode to exactly that position and the returned running line is "
             "the decoder's; encode_varint by width-bounded unrolling with unwinding assertion; range obligations for the cython.int "
             "locals so the proof covers the compiled module; build_line_table: every iteration meets the entry contract with the "
             "decoder's running line. Code.py: the loop of generate_codeobject_constants that sizes the packed code-object description "
             "(statement fragment located by source anchors; loop invariant) bounds every code object's first line, variable count and "
             "argument counts by the maxima the bit-field widths are computed from - a first line that does not fit its field would "
             "shift every decoded position. Kernel: the encoder and this sizing loop.",
        note="Trusted: dv Python front end, z3/cvc5, the decoder transcription (spec-validated natively). Not proved: the quantified "
             "whole-table invariant (composition by the append-only/locality argument, DESIGN.md); position collection in the compiler, "
             "AddTraceback, and that the shipped .so was compiled from this .py.",
        ref="4 C44"),
}

NOT_APPLICABLE = {
    "C01": "whole-compiler semantic preservation over all programs: the postcondition would be a refinement between CPython's semantics and emitted C; no contract within reach expresses or decides it",
    "C08": "floating-point algorithms through libm (hypot/atan2/exp/pow) whose results are implementation-defined to the last ulp; equality of two FP programs is not decided by SMT FP theories beyond syntactic identity",
    "C17": "__Pyx_BufFmt_CheckString is a 600-line recursive parser over a mutable context; its specification is the struct-module grammar x C ABI alignment rules; no inductive invariant of tractable size",
    "C21": "not reached: the property is carried by the reaching-definitions fixpoint of FlowControl.check_definitions over arbitrary control-flow graphs; a contract would need the data-flow lattice and its fixpoint as specification, and the emitted definedness checks are program-dependent; no unit was built (seed C21-b is missed)",
    "C43": "by nature: 'no internal exception for EVERY input text' is a whole-compiler totality property, no per-function contract expresses it; instances found under other properties (the b'\\777' crash under C10) were repaired there",
    "C46": "not reached: transitive_merge_helper is a depth-first search with cycle heads and a cache of partial results; its completeness invariant (what a node inside a cycle may cache) is a research-size inductive invariant, and only a bounded enumeration of small graphs would stand in, which is a different technique - nothing is claimed (seed C46-b is missed)",
    "C47": "not reached: strip_string_literals is a 100-line hand-written scanner over unbounded text with nested f-string state; its specification is Python's tokenizer (a grammar that would have to be modelled); no contract was built (seed C47-b is missed)",
    "C22": "trace property of emitted code for all try/finally nestings plus Exceptions.c helpers over CPython thread state; not a per-function contract",
    "C23": "protocol over whole call histories implemented in ~2.5 kLOC of C against CPython internals; no sub-function carries the property",
    "C24": "ParseKeywordsImpl needs a model of PyDict_Next / unicode interning; the per-signature unpacking code is program-dependent",
    "C25": "ExpressionWriter correctness is parse(print(e)) == e, which needs the 4 kLOC parser as specification (a model)",
    "C26": "the cached lookup path (CYTHON_USE_DICT_VERSIONS) is compiled out on CPython >= 3.12 (this image); its contract would restate the assumed PEP 509 axiom",
    "C27": "emitted inline against type-dict version tags and tp_dictoffset internals; history property over CPython object state",
    "C28": "synthesis mechanism (slot functions generated from the method lattice); the oracle (CPython binop dispatch) is not modelled",
    "C29": "synthesis mechanism (__reduce_cython__ source generated per class); checksum collision-freedom is not a provable contract",
    "C30": "synthesis mechanism (dataclass methods generated as source); oracle is the dataclasses module",
    "C31": "synthesis mechanism (match statement lowering); oracle is CPython's match protocol",
    "C32": "every raising catalogue body drags in __Pyx_Raise/traceback/refcount code outside the C subset of the engine",
    "C33": "template-generated Cython code over C++ containers; no C++ front end",
    "C34": "runtime type tests on CPython objects / buffer protocol; no model of isinstance and the buffer protocol",
    "C35": "needs an ownership/permission logic over all emitted code; nothing comparable can be built for Cython's C output here",
    "C37": "concurrency and schedules: outside this family (no thread reasoning in the engine)",
    "C42": "2-safety (non-interference w.r.t. hash seed / scheduling) of the whole compiler; the local handle is a syntactic lint, not a contract",
    "C45": "macro-emitted event calls interleaved with error handling in all generated functions: a trace property over emitted code",
}
NOT_YET = "not reached by the engine yet in this build phase (planned in DESIGN.md section 4; no check is registered, so nothing is claimed)"


def main():
    props = [json.loads(l) for l in open(os.path.join(ROOT, "properties.jsonl"))]
    checks = []
    for pid in sorted(CLAIMS):
        c = CLAIMS[pid]
        checks.append({
            "property_id": pid,
            "quick_cmd": "./check %s --tier quick" % pid,
            "thorough_cmd": "./check %s --tier thorough" % pid,
            "evidence_file": "evidence/%s.json" % pid,
            "replay_cmd_template": "./check %s --replay {path}" % pid,
            "engine": "dv",
            "level_claimed": {"category": c.get("category", "proof"), "text": c["text"], "design_ref": c["ref"]},
            "level_note": c["note"],
            "technique": c.get("technique", TECH),
        })
    na = []
    for p in props:
        pid = p["id"]
        if pid in CLAIMS:
            continue
        na.append({"property_id": pid, "reason": NOT_APPLICABLE.get(pid, NOT_YET)})
    m = {
        "version": 1,
        "setup_cmd": "./setup.sh",
        "hooks": {"guard": "CYTHON_VERIF",
                  "enable": "no hooks: contracts are sidecar files under /verif/contracts; subjects are re-read from /repo on every run",
                  "baseline_off_cmd": "cd /repo && /venv/bin/python -m pytest -ra -q -p no:cacheprovider --timeout=900 --continue-on-collection-errors",
                  "source_commits": [], "add_only": True},
        "engines": [{"name": "dv", "path": "dv/", "serves_properties": sorted(CLAIMS),
                     "kind_free_text": "VC generator (symbolic execution under contracts) for C (clang JSON AST) and Python (ast) subjects + z3/cvc5"}],
        "checks": checks,
        "notes": "Exit codes of ./check: 0 held, 1 VIOLATION (replay file), 2 UNDECIDED, 3 CHECKER-ERROR. Genuine defects repaired in /repo are "
                 "listed in known_findings.json ('fixed'); recorded ones under 'findings'.",
        "not_applicable": na,
    }
    with open(os.path.join(ROOT, "MANIFEST.json"), "w") as f:
        json.dump(m, f, indent=1)
    print("checks:", [c["property_id"] for c in checks], "n/a:", len(na))


if __name__ == "__main__":
    main()
