#!/usr/bin/env python3
"""prints the per-property status rows of DESIGN.md section 0 from the evidence files of the last clean run"""
import glob
import json
import os

ROOT = os.path.dirname(os.path.dirname(os.path.abspath(__file__)))
rows = []
for f in sorted(glob.glob(os.path.join(ROOT, "evidence", "C*.json"))):
    e = json.load(open(f))
    cov = e.get("coverage", {})
    fns = cov.get("functions_under_contract") or cov.get("functions") or []
    rows.append((e["property_id"], cov.get("obligations"), cov.get("discharged"), e.get("wall_s"), len(fns)))
print("| id | units | obligations (discharged) | wall |")
print("|----|---|---|---|")
for pid, ob, dis, wall, nf in rows:
    print("| %s | %s | %s (%s) | %s s |" % (pid, nf, ob, dis, int(wall) if wall else "?"))
