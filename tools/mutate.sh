#!/bin/sh
# tools/mutate.sh <file under /repo> <sed expression> <contracts module> <unit substring> [timeout]
# applies a one-line mutation to the working tree, runs one unit in debug mode, reverts.  For testing the checks only.
f=$1; expr=$2; mod=$3; unit=$4; tmo=${5:-20}
cd /repo || exit 3
git diff --quiet -- . || { echo "/repo has uncommitted changes"; exit 3; }
sed -i "$expr" "$f"
git diff --stat | tail -1
(cd /verif && timeout 3000 python3-vt -m dv.debug "$mod" "$unit" "$tmo" 2>&1 | grep -v "^  proved" | cut -c1-420 | head -${LINES_MAX:-8})
git checkout -- .
