#!/bin/sh
# tools/try_seed.sh <seed-id> <property> [tier]: apply a seeded change to /repo, run the property's check, undo the change.
# Evidence of such runs goes to a scratch directory, never to /verif/evidence.
sid=$1; prop=$2; tier=${3:-quick}
cd /repo || exit 3
git diff --quiet -- . || { echo "/repo has uncommitted changes"; exit 3; }
git apply /verif/seeded/$sid/patch.diff || { echo "patch does not apply"; exit 3; }
ev=$(mktemp -d /tmp/dv-seed-ev.XXXXXX)
(cd /verif && DV_EVIDENCE_DIR=$ev ./check $prop --tier $tier | tail -6); rc=$?
git -C /repo checkout -- .
rm -rf "$ev"
git -C /repo status --short | grep -v '^??'
exit 0
