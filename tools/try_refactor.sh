#!/bin/sh
# tools/try_refactor.sh <id> <property>...: apply the behaviour-preserving change kept under /verif/refactors/<id>/patch.diff to /repo,
# run the given checks (expected: exit 0, no VIOLATION), undo the change.
rid=$1; shift
cd /repo || exit 3
git diff --quiet -- . || { echo "/repo has uncommitted changes"; exit 3; }
git apply /verif/refactors/$rid/patch.diff || { echo "patch does not apply"; exit 3; }
ev=$(mktemp -d /tmp/dv-ref-ev.XXXXXX)
for p in "$@"; do
  (cd /verif && DV_EVIDENCE_DIR=$ev ./check $p --tier quick > $ev/out.txt 2>&1; echo "$rid $p exit=$?"; grep -E "^property=|VIOLATION|UNDECIDED|CHECKER" $ev/out.txt | cut -c1-220 | head -6)
done
git -C /repo checkout -- .
rm -rf "$ev"
