#!/bin/sh
# tools/confirm_seed.sh <seed-id> <property> <worktree>
# Confirms a seeded change delivered by a sub-agent in its scratch worktree:
#   pinned suite with the change == baseline counts; demo FAILS with the change; demo PASSES without it.
# On success copies patch.diff, the demo and NOTES.md to /verif/seeded/<seed-id>/ and writes confirm.log.
set -u
sid=$1; prop=$2; wt=$3
out=/verif/seeded/$sid
mkdir -p "$out"
log=$out/confirm.log
: > "$log"
cd "$wt" || exit 2
git diff -- Cython > "$out/patch.diff"
test -s "$out/patch.diff" || { echo "empty patch" | tee -a "$log"; exit 2; }
demo=$(ls demo_*.py | head -1)
echo "== suite with the change" >> "$log"
/venv/bin/python -m pytest -q -p no:cacheprovider --timeout=900 --continue-on-collection-errors 2>&1 | tail -1 | tee -a "$log"
rm -f tests/run/_cython_inline_*.pyx
echo "== demo with the change (must fail)" >> "$log"
/venv/bin/python "$demo" > "$out/demo_with.log" 2>&1; rc_with=$?
echo "exit=$rc_with $(tail -1 "$out/demo_with.log")" | tee -a "$log"
git apply -R "$out/patch.diff" || { echo "cannot reverse patch"; exit 2; }
echo "== demo without the change (must pass)" >> "$log"
/venv/bin/python "$demo" > "$out/demo_without.log" 2>&1; rc_without=$?
echo "exit=$rc_without $(tail -1 "$out/demo_without.log")" | tee -a "$log"
git apply "$out/patch.diff"
cp "$demo" "$out/"; cp NOTES.md "$out/" 2>/dev/null
if [ "$rc_with" != 0 ] && [ "$rc_without" = 0 ]; then echo "CONFIRMED $sid" | tee -a "$log"; else echo "NOT-CONFIRMED $sid" | tee -a "$log"; fi
