"""probe_P3_3: a bytes LITERAL inside an f-string (or as a '%s' argument of a rewritten '%' template) is
treated as if it were an already-formatted str literal:

  f"{b'abc'}"            CPython: "b'abc'" (str)     compiled: b'abc'  (a BYTES object is returned)
  '%s' % (b'abc',)       CPython: "b'abc'"           compiled: b'abc'
  f"{x}{b'abc'}"         CPython: "xb'abc'"          compiled: TypeError (str + bytes)
  f"{x}{b'abc'}{y}"      CPython: "xb'abc'y"         compiled: the bytes object is handed to
                         __Pyx_PyUnicode_Join() as a str: its memory is read through the PyUnicode
                         macros (bogus kind/length), max_char[kind] is indexed out of bounds
                         (ASan: global-buffer-overflow, UBSan: index -1 out of bounds); a release build
                         happens to end in OverflowError, a build with assertions aborts the process.
  f"-{b'abc'}-"          CPython: "-b'abc'-"         the COMPILER crashes (TypeError in simplify_JoinedStrNode)

Cause: Optimize.ConstantFolding.visit_FormattedValueNode():
        if node.format_spec is None and conversion_char == 's':
            if node.value.is_string_literal:
                return node.value
`is_string_literal` is also true for BytesNode, so the FormattedValueNode (which would call str()) is
replaced by the bytes constant itself.

Run:  /venv/bin/python probe_P3_3.py   (from the worktree root).  Exit 1 = defect present.
"""
import os, re, shutil, subprocess, sys, sysconfig, tempfile, importlib.util

ROOT = os.path.dirname(os.path.abspath(__file__))
EXTRA_CFLAGS = []   # a probe may add e.g. -DNDEBUG (what setuptools builds use)


def build(name, source):
    """Compile `source` (.pyx text) with the worktree's Cython + gcc; return (module, C text, tmpdir)."""
    tmp = tempfile.mkdtemp(prefix="probe_P3_")
    pyx, cfile = os.path.join(tmp, name + ".pyx"), os.path.join(tmp, name + ".c")
    so = os.path.join(tmp, name + ".so")
    with open(pyx, "w", encoding="utf-8") as f:
        f.write(source)
    env = dict(os.environ, PYTHONPATH=ROOT)
    subprocess.run([sys.executable, "-m", "cython", "-3", pyx, "-o", cfile],
                   cwd=ROOT, env=env, check=True, stdout=subprocess.DEVNULL, stderr=subprocess.DEVNULL)
    cc = shutil.which("gcc") or shutil.which("clang") or "cc"
    subprocess.run([cc, "-O1", "-w"] + EXTRA_CFLAGS + ["-shared", "-fPIC", "-I", sysconfig.get_paths()["include"], cfile, "-o", so],
                   check=True)
    spec = importlib.util.spec_from_file_location(name, so)
    mod = importlib.util.module_from_spec(spec)
    spec.loader.exec_module(mod)
    with open(cfile, encoding="utf-8") as f:
        ctext = f.read()
    return mod, ctext, tmp


def reference(source):
    """The same source run by CPython: C type annotations of the arguments are stripped, nothing else."""
    py = re.sub(r"\b(?:unsigned |signed )?(?:int|long|short|char|double|float|bint|list|dict|str|Py_ssize_t) (\w+)(?=[,)=])", r"\1", source)
    ns = {}
    exec(compile(py, "<cpython reference>", "exec"), ns)
    return ns


def outcome(fn, *args):
    try:
        r = fn(*args)
        return "%s %r" % (type(r).__name__, r)
    except BaseException as e:  # only the exception TYPE is compared
        return "raises " + type(e).__name__

EXTRA_CFLAGS.append("-DNDEBUG")  # like a normal extension build; CPython's own assert()s would abort on the bytes object

SOURCE = r'''
def plain():      return f"{b'abc'}"
def conv_s():     return f"{b'abc'!s}"
def pct():        return '%s' % (b'abc',)
def two(x):       return f"{x}{b'abc'}"
def three(x, y):  return f"{x}{b'abc'}{y}"
# controls
def ctl_r():      return f"{b'abc'!r}"
def ctl_var(x, y):
    b = b'abc'
    return f"{x}{b}{y}"
'''

CRASH_SOURCE = r'''
def adj(): return f"-{b'abc'}-"
'''

CHILD = r'''
import importlib.util, sys
spec = importlib.util.spec_from_file_location("probe_p3_3", sys.argv[1])
m = importlib.util.module_from_spec(spec); spec.loader.exec_module(m)
for fn, args in ((m.two, ("x",)), (m.three, ("x", "y"))):
    try:
        r = fn(*args)
        print("returned %s %r" % (type(r).__name__, r), flush=True)
    except BaseException as e:
        print("raises " + type(e).__name__, flush=True)
'''


def main():
    import warnings
    warnings.simplefilter("ignore", BytesWarning)
    mod, ctext, tmp = build("probe_p3_3", SOURCE)
    try:
        ref = reference(SOURCE)
        diffs = 0
        for name, args in [('plain', ()), ('conv_s', ()), ('pct', ()), ('ctl_r', ()), ('ctl_var', ('x', 'y'))]:
            exp, act = outcome(ref[name], *args), outcome(getattr(mod, name), *args)
            if exp != act:
                diffs += 1
                print("DIFF %-7s CPython: %-22s compiled: %s" % (name, exp, act))

        # f"{x}{b'abc'}" and f"{x}{b'abc'}{y}" run in a child process since they are memory-unsafe
        cfile = os.path.join(tmp, "probe_p3_3.c")
        inc = sysconfig.get_paths()["include"]
        so = os.path.join(tmp, "probe_p3_3.so")
        child = os.path.join(tmp, "child.py")
        with open(child, "w") as f:
            f.write(CHILD)
        r = subprocess.run([sys.executable, child, so], capture_output=True, text=True)
        acts = r.stdout.splitlines()
        acts += ["process died, return code %d" % r.returncode] * (2 - len(acts))
        exps = ["returned str %r" % ref['two']("x"), "returned str %r" % ref['three']("x", "y")]
        for name, exp, act in zip(("two", "three"), exps, acts):
            if act != exp:
                diffs += 1
                print("DIFF %-7s CPython: %-22s compiled: %s" % (name, exp, act))

        # optional: the same call under ASan/UBSan
        clang = shutil.which("clang")
        if clang:
            rt = subprocess.run([clang, "-print-file-name=libclang_rt.asan-x86_64.so"], capture_output=True, text=True).stdout.strip()
            if os.path.isfile(rt):
                so2 = os.path.join(tmp, "san", "probe_p3_3.so")
                os.makedirs(os.path.dirname(so2))
                b = subprocess.run([clang, "-O1", "-g", "-DNDEBUG", "-fsanitize=address,undefined", "-w", "-shared", "-fPIC",
                                    "-I", inc, cfile, "-o", so2], capture_output=True, text=True)
                if b.returncode == 0:
                    r = subprocess.run([sys.executable, child, so2], capture_output=True, text=True,
                                       env=dict(os.environ, LD_PRELOAD=rt, ASAN_OPTIONS="detect_leaks=0"))
                    for line in r.stderr.splitlines():
                        if "runtime error" in line or "ERROR: AddressSanitizer" in line or "__Pyx_PyUnicode_Join" in line:
                            print("  sanitizer: " + line.strip()[:200])

        # f"-{b'abc'}-": compiler crash
        pyx = os.path.join(tmp, "probe_p3_3_crash.pyx")
        with open(pyx, "w") as f:
            f.write(CRASH_SOURCE)
        r = subprocess.run([sys.executable, "-m", "cython", "-3", pyx], cwd=ROOT, env=dict(os.environ, PYTHONPATH=ROOT),
                           capture_output=True, text=True)
        if r.returncode != 0:
            diffs += 1
            last = [l for l in (r.stdout + r.stderr).splitlines() if l.strip()][-1]
            print("DIFF adj     CPython: str %r   compiler fails: %s" % ("-b'abc'-", last))
        print("%d differing cases" % diffs)
        return 1 if diffs else 0
    finally:
        shutil.rmtree(tmp, ignore_errors=True)


if __name__ == "__main__":
    sys.exit(main())
