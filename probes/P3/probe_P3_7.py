"""probe_P3_7: C-integer format-spec parser (PyrexTypes.CIntLike._parse_format) accepts two spec shapes
whose meaning it gets wrong:

  * '>05d' / '>08x' / '>05'  (explicit '>' alignment + '0' fill): CPython pads with the fill character on the
    LEFT OF THE SIGN (format(-5, '>05d') == '000-5'); the parser drops the '>' and emits sign-aware zero
    padding, so a negative C integer gives '-0005'.
  * '-5c' / '-c'  (sign option with the character format): CPython raises
    ValueError("Sign not allowed with integer format specifier 'c'"); the parser drops the '-' and
    the compiled code returns the character.

Run:  /venv/bin/python probe_P3_7.py   (from the worktree root).  Exit 1 = defect present.
"""
import os, re, shutil, subprocess, sys, sysconfig, tempfile, importlib.util

ROOT = os.path.dirname(os.path.abspath(__file__))
EXTRA_CFLAGS = []   # a probe may add e.g. -DNDEBUG (what setuptools builds use)


def build(name, source):
    """Compile `source` (.pyx text) with the worktree's Cython + gcc; return (module, C text, tmpdir)."""
    tmp = tempfile.mkdtemp(prefix="probe_P3_")
    pyx, cfile = os.path.join(tmp, name + ".pyx"), os.path.join(tmp, name + ".c")
    so = os.path.join(tmp, name + ".so")
    with open(pyx, "w", encoding="utf-8") as f:
        f.write(source)
    env = dict(os.environ, PYTHONPATH=ROOT)
    subprocess.run([sys.executable, "-m", "cython", "-3", pyx, "-o", cfile],
                   cwd=ROOT, env=env, check=True, stdout=subprocess.DEVNULL, stderr=subprocess.DEVNULL)
    cc = shutil.which("gcc") or shutil.which("clang") or "cc"
    subprocess.run([cc, "-O1", "-w"] + EXTRA_CFLAGS + ["-shared", "-fPIC", "-I", sysconfig.get_paths()["include"], cfile, "-o", so],
                   check=True)
    spec = importlib.util.spec_from_file_location(name, so)
    mod = importlib.util.module_from_spec(spec)
    spec.loader.exec_module(mod)
    with open(cfile, encoding="utf-8") as f:
        ctext = f.read()
    return mod, ctext, tmp


def reference(source):
    """The same source run by CPython: C type annotations of the arguments are stripped, nothing else."""
    py = re.sub(r"\b(?:unsigned |signed )?(?:int|long|short|char|double|float|bint|list|dict|str|Py_ssize_t) (\w+)(?=[,)=])", r"\1", source)
    ns = {}
    exec(compile(py, "<cpython reference>", "exec"), ns)
    return ns


def outcome(fn, *args):
    try:
        r = fn(*args)
        return "%s %r" % (type(r).__name__, r)
    except BaseException as e:  # only the exception TYPE is compared
        return "raises " + type(e).__name__

SOURCE = r'''
def gt05d(int x):        return f"{x:>05d}"
def gt05(long x):        return f"{x:>05}"
def gt08x(int x):        return f"{x:>08x}"
def gt06o(signed char x): return f"{x:>06o}"
def neg5c(int x):        return f"{x:-5c}"
def negc(int x):         return f"{x:-c}"
# controls
def ctl_05d(int x):      return f"{x:05d}"
def ctl_gt5d(int x):     return f"{x:>5d}"
def ctl_neg05d(int x):   return f"{x:-05d}"
def ctl_5c(int x):       return f"{x:5c}"
'''

CASES = {
    'gt05d': [(-5,), (-1234,), (-12345,), (5,), (0,), (-2**31,)],
    'gt05': [(-5,), (5,)],
    'gt08x': [(-255,), (255,)],
    'gt06o': [(-128,), (-1,), (127,)],
    'neg5c': [(65,), (0x20ac,)],
    'negc': [(65,)],
    'ctl_05d': [(-5,), (5,)],
    'ctl_gt5d': [(-5,), (5,)],
    'ctl_neg05d': [(-5,), (5,)],
    'ctl_5c': [(65,)],
}


def main():
    mod, ctext, tmp = build("probe_p3_7", SOURCE)
    try:
        ref = reference(SOURCE)
        print("generated C formats with __Pyx_PyUnicode_From_int(x, 5, '0', 'd'): %s" % (
            bool(re.search(r"__Pyx_PyUnicode_From_int\(__pyx_v_x, 5, '0', 'd'\)", ctext))))
        diffs = 0
        for name, argsets in CASES.items():
            for args in argsets:
                exp, act = outcome(ref[name], *args), outcome(getattr(mod, name), *args)
                if exp != act:
                    diffs += 1
                    print("DIFF %-7s args=%-15r CPython: %-22s compiled: %s" % (name, args, exp, act))
        print("%d differing cases" % diffs)
        return 1 if diffs else 0
    finally:
        shutil.rmtree(tmp, ignore_errors=True)


if __name__ == "__main__":
    sys.exit(main())
