"""probe_P3_2: an f-string that joins >= 3 parts and contains a C integer formatted with a
WIDTH + 'c' spec (f"a{x:3c}b", f"{s}{x:1c}{s}", f"<{x:05c}>") produces wrong characters for every
code point > 0x7F that is wider than the other parts of the string:

  * x = 0x100 .. 0x10FFFF : the character is truncated to its low 8 (or 16) bits
                            (U+20AC -> U+00AC, U+1F600 -> U+0000 / U+F600)
  * x = 0x80 .. 0xFF      : the text compares equal, but the str object is corrupt: it is flagged
                            ASCII (isascii() is True) and .encode() returns invalid UTF-8 (b'a  \xe9b')

Cause: ExprNodes.JoinedStrNode.generate_evaluation_code() leaves formatted C numbers out of the
"max character kind" computation unless `node.c_format_spec == 'c'`; the specs '3c', '03c', '1c'
are also character formats but do not compare equal to 'c'.  __Pyx_PyUnicode_Join
(Cython/Utility/StringTools.c) then allocates PyUnicode_New(len, 127) and narrows the wide part into it.

Run:  /venv/bin/python probe_P3_2.py   (from the worktree root).  Exit 1 = defect present.
"""
import os, re, shutil, subprocess, sys, sysconfig, tempfile, importlib.util

ROOT = os.path.dirname(os.path.abspath(__file__))
EXTRA_CFLAGS = []   # a probe may add e.g. -DNDEBUG (what setuptools builds use)


def build(name, source):
    """Compile `source` (.pyx text) with the worktree's Cython + gcc; return (module, C text, tmpdir)."""
    tmp = tempfile.mkdtemp(prefix="probe_P3_")
    pyx, cfile = os.path.join(tmp, name + ".pyx"), os.path.join(tmp, name + ".c")
    so = os.path.join(tmp, name + ".so")
    with open(pyx, "w", encoding="utf-8") as f:
        f.write(source)
    env = dict(os.environ, PYTHONPATH=ROOT)
    subprocess.run([sys.executable, "-m", "cython", "-3", pyx, "-o", cfile],
                   cwd=ROOT, env=env, check=True, stdout=subprocess.DEVNULL, stderr=subprocess.DEVNULL)
    cc = shutil.which("gcc") or shutil.which("clang") or "cc"
    subprocess.run([cc, "-O1", "-w"] + EXTRA_CFLAGS + ["-shared", "-fPIC", "-I", sysconfig.get_paths()["include"], cfile, "-o", so],
                   check=True)
    spec = importlib.util.spec_from_file_location(name, so)
    mod = importlib.util.module_from_spec(spec)
    spec.loader.exec_module(mod)
    with open(cfile, encoding="utf-8") as f:
        ctext = f.read()
    return mod, ctext, tmp


def reference(source):
    """The same source run by CPython: C type annotations of the arguments are stripped, nothing else."""
    py = re.sub(r"\b(?:unsigned |signed )?(?:int|long|short|char|double|float|bint|list|dict|str|Py_ssize_t) (\w+)(?=[,)=])", r"\1", source)
    ns = {}
    exec(compile(py, "<cpython reference>", "exec"), ns)
    return ns


def outcome(fn, *args):
    try:
        r = fn(*args)
        return "%s %r" % (type(r).__name__, r)
    except BaseException as e:  # only the exception TYPE is compared
        return "raises " + type(e).__name__

SOURCE = r'''
def pad3(int x):        return f"a{x:3c}b"
def pad03(int x):       return f"<{x:03c}>"
def pad1(int x, str s): return f"{s}{x:1c}{s}"
def wide(int x):        return f"€{x:3c}b"
def ushort3(unsigned short x): return f"[{x:3c}]"
# controls: plain 'c' (handled), and the padded form on its own (no join)
def ctl_c(int x):       return f"a{x:c}b"
def ctl_alone(int x):   return f"{x:3c}"
'''

VALUES = [0x41, 0x7f, 0x80, 0xe9, 0xff, 0x100, 0x3b1, 0x20ac, 0xd7ff, 0xffff, 0x10000, 0x1f600, 0x10ffff]


def describe(s):
    if not isinstance(s, str):
        return s
    try:
        enc = s.encode("utf-8", "surrogatepass")
    except Exception as e:
        enc = type(e).__name__
    return "%r isascii=%s utf8=%r" % (s, s.isascii(), enc)


def main():
    mod, ctext, tmp = build("probe_p3_2", SOURCE)
    try:
        ref = reference(SOURCE)
        print("generated C uses __Pyx_PyUnicode_Join: %s, __Pyx_PyUnicode_From_int(..., 'c'): %s" % (
            "__Pyx_PyUnicode_Join(" in ctext, bool(re.search(r"__Pyx_PyUnicode_From_int\([^;]*'c'\)", ctext))))
        diffs = 0
        for name in ['pad3', 'pad03', 'pad1', 'wide', 'ushort3', 'ctl_c', 'ctl_alone']:
            for v in VALUES:
                if name == 'ushort3' and v > 0xffff:
                    continue
                args = (v, 'xy') if name == 'pad1' else (v,)
                try:
                    exp = describe(ref[name](*args))
                except BaseException as e:
                    exp = "raises " + type(e).__name__
                try:
                    act = describe(getattr(mod, name)(*args))
                except BaseException as e:
                    act = "raises " + type(e).__name__
                if exp != act:
                    diffs += 1
                    print("DIFF %-9s x=%#08x\n     CPython : %s\n     compiled: %s" % (name, v, exp, act))
        print("%d differing cases" % diffs)
        return 1 if diffs else 0
    finally:
        shutil.rmtree(tmp, ignore_errors=True)


if __name__ == "__main__":
    sys.exit(main())
