"""probe_P3_5: '%x' / '%o' / '%X' / '%f' / '%d' with a literal template and a tuple literal are rewritten
into format(value, 'x') etc. (Optimize.ConstantFolding._build_fstring).  format() dispatches to
type(value).__format__, whereas '%' coerces the operand first (__index__ for x/o/X, __float__ for f,
__int__/__index__ for d).  So for every operand that is not an exact int / float:

  '%x' % (3.0,)   / ('ab',)        CPython: TypeError          compiled: ValueError
  '%x' % (obj with __index__,)     CPython: 'a'                compiled: TypeError
  '%f' % ('ab',)                   CPython: TypeError          compiled: ValueError
  '%f' % (Decimal('1.015'),)       CPython: '1.015000'         compiled: '1.015'
  '%.2f' % (Decimal('1.015'),)     CPython: '1.01'             compiled: '1.02'
  '%f' % (obj with __float__,)     CPython: '1.500000'         compiled: TypeError
  '%f' % (1+2j,)                   CPython: TypeError          compiled: '1.000000+2.000000j'
  '%d' % (obj with __index__,)     CPython: '10'               compiled: TypeError  (__Pyx_PyNumber_Long only tries nb_int)
  '%x' % (c_double,)               CPython: TypeError          compiled: ValueError  (typed C operand)

Run:  /venv/bin/python probe_P3_5.py   (from the worktree root).  Exit 1 = defect present.
"""
import os, re, shutil, subprocess, sys, sysconfig, tempfile, importlib.util

ROOT = os.path.dirname(os.path.abspath(__file__))
EXTRA_CFLAGS = []   # a probe may add e.g. -DNDEBUG (what setuptools builds use)


def build(name, source):
    """Compile `source` (.pyx text) with the worktree's Cython + gcc; return (module, C text, tmpdir)."""
    tmp = tempfile.mkdtemp(prefix="probe_P3_")
    pyx, cfile = os.path.join(tmp, name + ".pyx"), os.path.join(tmp, name + ".c")
    so = os.path.join(tmp, name + ".so")
    with open(pyx, "w", encoding="utf-8") as f:
        f.write(source)
    env = dict(os.environ, PYTHONPATH=ROOT)
    subprocess.run([sys.executable, "-m", "cython", "-3", pyx, "-o", cfile],
                   cwd=ROOT, env=env, check=True, stdout=subprocess.DEVNULL, stderr=subprocess.DEVNULL)
    cc = shutil.which("gcc") or shutil.which("clang") or "cc"
    subprocess.run([cc, "-O1", "-w"] + EXTRA_CFLAGS + ["-shared", "-fPIC", "-I", sysconfig.get_paths()["include"], cfile, "-o", so],
                   check=True)
    spec = importlib.util.spec_from_file_location(name, so)
    mod = importlib.util.module_from_spec(spec)
    spec.loader.exec_module(mod)
    with open(cfile, encoding="utf-8") as f:
        ctext = f.read()
    return mod, ctext, tmp


def reference(source):
    """The same source run by CPython: C type annotations of the arguments are stripped, nothing else."""
    py = re.sub(r"\b(?:unsigned |signed )?(?:int|long|short|char|double|float|bint|list|dict|str|Py_ssize_t) (\w+)(?=[,)=])", r"\1", source)
    ns = {}
    exec(compile(py, "<cpython reference>", "exec"), ns)
    return ns


def outcome(fn, *args):
    try:
        r = fn(*args)
        return "%s %r" % (type(r).__name__, r)
    except BaseException as e:  # only the exception TYPE is compared
        return "raises " + type(e).__name__

SOURCE = r'''
def px(v):   return '%x' % (v,)
def pX5(v):  return '%5X' % (v,)
def po(v):   return '%o' % (v,)
def pf(v):   return '%f' % (v,)
def pf2(v):  return '%.2f' % (v,)
def pd(v):   return '%d' % (v,)
def px_cdouble(double v): return '%x' % (v,)
def msg(name, v): return 'value of %s is 0x%x' % (name, v)
# controls: non-tuple right operand => PyUnicode_Format, must agree
def ctl_x(v): return '%x' % v
def ctl_f(v): return '%f' % v
'''


class Idx:
    def __index__(self): return 10
    def __repr__(self): return 'Idx()'


class Flt:
    def __float__(self): return 1.5
    def __repr__(self): return 'Flt()'


def main():
    import decimal, fractions
    vals = [255, -255, True, 3.0, -0.0, float('nan'), 'ab', '', None, decimal.Decimal('1.015'),
            fractions.Fraction(1, 3), Idx(), Flt(), 1 + 2j, b'x']
    mod, ctext, tmp = build("probe_p3_5", SOURCE)
    try:
        ref = reference(SOURCE)
        diffs = 0
        for name in ['px', 'pX5', 'po', 'pf', 'pf2', 'pd', 'ctl_x', 'ctl_f']:
            for v in vals:
                exp, act = outcome(ref[name], v), outcome(getattr(mod, name), v)
                if exp != act:
                    diffs += 1
                    print("DIFF %-5s v=%-18r CPython: %-22s compiled: %s" % (name, v, exp, act))
        for v in [3.0, -0.0, float('inf')]:
            exp, act = outcome(ref['px_cdouble'], v), outcome(mod.px_cdouble, v)
            if exp != act:
                diffs += 1
                print("DIFF %-5s v=%-18r CPython: %-22s compiled: %s" % ('px_cdouble', v, exp, act))
        for args in [('n', 3.5), ('n', Idx())]:
            exp, act = outcome(ref['msg'], *args), outcome(mod.msg, *args)
            if exp != act:
                diffs += 1
                print("DIFF %-5s args=%-15r CPython: %-22s compiled: %s" % ('msg', args, exp, act))
        print("%d differing cases" % diffs)
        return 1 if diffs else 0
    finally:
        shutil.rmtree(tmp, ignore_errors=True)


if __name__ == "__main__":
    sys.exit(main())
