"""probe_P3_4: in an f-string, a conversion (!r / !s / !a) combined with a literal format spec is
silently DROPPED when the value is a C integer / C double / bint and the spec happens to be one
the C-level formatter understands (width, 0-padding, d/x/o/X/c, .Nf/e/g):

    cdef int x = 3;       f"{x!r:5}"    CPython: '3    '  (format(repr(3), '5'), a str is left-aligned)
                                        compiled: '    3' (formatted as a number)
    f"{x!r:05}"   '30000'  vs '00003'
    f"{x!s:x}"    ValueError (format code 'x' for str) vs 'ff'
    f"{x!r:c}"    ValueError vs 'A'
    cdef double d;  f"{d!r:.2f}"  ValueError vs '1.50'
    cdef bint b;    f"{b!s:5}"    'True ' vs '    1'

Cause: ExprNodes.FormattedValueNode.analyse_types() sets self.c_format_spec from the value type and the
format spec alone, without looking at self.conversion_char; generate_result_code() then takes the
`c_format_spec is not None and not value.type.is_pyobject` branch, which never applies the conversion.

Run:  /venv/bin/python probe_P3_4.py   (from the worktree root).  Exit 1 = defect present.
"""
import os, re, shutil, subprocess, sys, sysconfig, tempfile, importlib.util

ROOT = os.path.dirname(os.path.abspath(__file__))
EXTRA_CFLAGS = []   # a probe may add e.g. -DNDEBUG (what setuptools builds use)


def build(name, source):
    """Compile `source` (.pyx text) with the worktree's Cython + gcc; return (module, C text, tmpdir)."""
    tmp = tempfile.mkdtemp(prefix="probe_P3_")
    pyx, cfile = os.path.join(tmp, name + ".pyx"), os.path.join(tmp, name + ".c")
    so = os.path.join(tmp, name + ".so")
    with open(pyx, "w", encoding="utf-8") as f:
        f.write(source)
    env = dict(os.environ, PYTHONPATH=ROOT)
    subprocess.run([sys.executable, "-m", "cython", "-3", pyx, "-o", cfile],
                   cwd=ROOT, env=env, check=True, stdout=subprocess.DEVNULL, stderr=subprocess.DEVNULL)
    cc = shutil.which("gcc") or shutil.which("clang") or "cc"
    subprocess.run([cc, "-O1", "-w"] + EXTRA_CFLAGS + ["-shared", "-fPIC", "-I", sysconfig.get_paths()["include"], cfile, "-o", so],
                   check=True)
    spec = importlib.util.spec_from_file_location(name, so)
    mod = importlib.util.module_from_spec(spec)
    spec.loader.exec_module(mod)
    with open(cfile, encoding="utf-8") as f:
        ctext = f.read()
    return mod, ctext, tmp


def reference(source):
    """The same source run by CPython: C type annotations of the arguments are stripped, nothing else."""
    py = re.sub(r"\b(?:unsigned |signed )?(?:int|long|short|char|double|float|bint|list|dict|str|Py_ssize_t) (\w+)(?=[,)=])", r"\1", source)
    ns = {}
    exec(compile(py, "<cpython reference>", "exec"), ns)
    return ns


def outcome(fn, *args):
    try:
        r = fn(*args)
        return "%s %r" % (type(r).__name__, r)
    except BaseException as e:  # only the exception TYPE is compared
        return "raises " + type(e).__name__

SOURCE = r'''
def r5(int x):       return f"{x!r:5}"
def s5(long x):      return f"{x!s:5}"
def a05(int x):      return f"{x!a:05}"
def r_gt5(int x):    return f"{x!r:>5}"       # control: explicit '>' means the same for str and int
def s_x(int x):      return f"{x!s:x}"
def r_c(int x):      return f"{x!r:c}"
def r_08x(unsigned char x): return f"{x!r:08X}"
def d_r2f(double d): return f"{d!r:.2f}"
def d_se(double d):  return f"{d!s:e}"
def b_s5(bint b):    return f"{b!s:5}"
def b_rd(bint b):    return f"{b!r:d}"
def joined(int x, double d): return f"[{x!r:4}|{d!s:.1f}]"
# controls without a conversion / without a spec
def ctl_5(int x):    return f"{x:5}"
def ctl_r(int x):    return f"{x!r}"
def ctl_2f(double d): return f"{d:.2f}"
'''

CASES = {
    'r5': [(3,), (-5,), (0,), (123456,)],
    's5': [(3,), (-5,)],
    'a05': [(3,), (-5,)],
    'r_gt5': [(3,), (-5,)],
    's_x': [(255,), (-1,)],
    'r_c': [(65,), (0x1f600,)],
    'r_08x': [(255,), (0,)],
    'd_r2f': [(1.5,), (float('nan'),), (-0.0,)],
    'd_se': [(1.5,)],
    'b_s5': [(True,), (False,)],
    'b_rd': [(True,)],
    'joined': [(3, 1.25), (-7, 2.0)],
    'ctl_5': [(3,), (-5,)],
    'ctl_r': [(3,)],
    'ctl_2f': [(1.5,)],
}


def main():
    mod, ctext, tmp = build("probe_p3_4", SOURCE)
    try:
        ref = reference(SOURCE)
        print("generated C uses the C-level formatters: __Pyx_PyUnicode_From_int=%s  __Pyx_PyUnicode_FromDouble=%s" % (
            "__Pyx_PyUnicode_From_int(" in ctext, "__Pyx_PyUnicode_FromDouble(" in ctext))
        diffs = 0
        for name, argsets in CASES.items():
            for args in argsets:
                exp, act = outcome(ref[name], *args), outcome(getattr(mod, name), *args)
                if exp != act:
                    diffs += 1
                    print("DIFF %-7s args=%-12r CPython: %-22s compiled: %s" % (name, args, exp, act))
        print("%d differing cases" % diffs)
        return 1 if diffs else 0
    finally:
        shutil.rmtree(tmp, ignore_errors=True)


if __name__ == "__main__":
    sys.exit(main())
