"""probe_P3_1: '%'-formatting with a literal template and a tuple literal is rewritten into an
f-string (Optimize.ConstantFolding._build_fstring).  The rewrite mistranslates printf-style
width / flag semantics into format()-spec semantics:

  * '%5s' / '%5r' / '%7a' / '%5.2s'  -> '{!s:5}'   : format() LEFT-aligns strings, '%' RIGHT-aligns
  * '%-05d' / '%-08.2f' / '%-05s'    -> '{:<05d}'  : '-' must override '0'; instead '0' becomes the
                                                     fill char and pads with zeros on the right
  * '% s'                            -> '{!s: }'   : ValueError (CPython ignores the blank flag for %s)

Run:  /venv/bin/python probe_P3_1.py   (from the worktree root).  Exit 1 = defect present.
"""
import os, re, shutil, subprocess, sys, sysconfig, tempfile, importlib.util

ROOT = os.path.dirname(os.path.abspath(__file__))
EXTRA_CFLAGS = []   # a probe may add e.g. -DNDEBUG (what setuptools builds use)


def build(name, source):
    """Compile `source` (.pyx text) with the worktree's Cython + gcc; return (module, C text, tmpdir)."""
    tmp = tempfile.mkdtemp(prefix="probe_P3_")
    pyx, cfile = os.path.join(tmp, name + ".pyx"), os.path.join(tmp, name + ".c")
    so = os.path.join(tmp, name + ".so")
    with open(pyx, "w", encoding="utf-8") as f:
        f.write(source)
    env = dict(os.environ, PYTHONPATH=ROOT)
    subprocess.run([sys.executable, "-m", "cython", "-3", pyx, "-o", cfile],
                   cwd=ROOT, env=env, check=True, stdout=subprocess.DEVNULL, stderr=subprocess.DEVNULL)
    cc = shutil.which("gcc") or shutil.which("clang") or "cc"
    subprocess.run([cc, "-O1", "-w"] + EXTRA_CFLAGS + ["-shared", "-fPIC", "-I", sysconfig.get_paths()["include"], cfile, "-o", so],
                   check=True)
    spec = importlib.util.spec_from_file_location(name, so)
    mod = importlib.util.module_from_spec(spec)
    spec.loader.exec_module(mod)
    with open(cfile, encoding="utf-8") as f:
        ctext = f.read()
    return mod, ctext, tmp


def reference(source):
    """The same source run by CPython: C type annotations of the arguments are stripped, nothing else."""
    py = re.sub(r"\b(?:unsigned |signed )?(?:int|long|short|char|double|float|bint|list|dict|str|Py_ssize_t) (\w+)(?=[,)=])", r"\1", source)
    ns = {}
    exec(compile(py, "<cpython reference>", "exec"), ns)
    return ns


def outcome(fn, *args):
    try:
        r = fn(*args)
        return "%s %r" % (type(r).__name__, r)
    except BaseException as e:  # only the exception TYPE is compared
        return "raises " + type(e).__name__

SOURCE = r'''
def s5(x):        return '%5s' % (x,)
def r5(x):        return '%5r' % (x,)
def a7(x):        return '%7a' % (x,)
def s5_2(x):      return '%5.2s' % (x,)
def row(k, v):    return '%-8s|%8s|' % (k, v)
def neg05d(x):    return '%-05d' % (x,)
def neg08_2f(x):  return '%-08.2f' % (x,)
def neg05s(x):    return '%-05s' % (x,)
def neg05x(x):    return '%-05x' % (x,)
def neg05d_c(int x):    return '%-05d' % (x,)
def neg08f_c(double x): return '%-08.2f' % (x,)
def space_s(x):   return '% s' % (x,)
# controls: the same templates with a non-tuple right operand are not rewritten and must agree
def ctl_s5(x):    return '%5s' % x
def ctl_neg05d(x): return '%-05d' % x
'''

CASES = {
    's5': [('ab',), (3,), (-5,), (None,), (1.5,), ('',), ('\xe9',)],
    'r5': [('ab',), (3,), (None,)],
    'a7': [('\xe9',), (12,)],
    's5_2': [('abcdef',), (123,)],
    'row': [('key', 'val'), ('n', 42)],
    'neg05d': [(3,), (-5,), (0,), (12345,), (123456,), (True,), (3.7,)],
    'neg08_2f': [(1.5,), (-1.5,), (3,), (float('nan'),), (12345.678,)],
    'neg05s': [('ab',), (3,), ('abcdef',)],
    'neg05x': [(255,), (-255,)],
    'neg05d_c': [(3,), (-5,), (0,), (12345,)],
    'neg08f_c': [(1.5,), (-1.5,)],
    'space_s': [('ab',), (3,)],
    'ctl_s5': [('ab',), (3,)],
    'ctl_neg05d': [(3,), (-5,)],
}


def main():
    mod, ctext, tmp = build("probe_p3_1", SOURCE)
    try:
        ref = reference(SOURCE)
        # the templates really were rewritten into f-string nodes: formatting goes through PyObject_Format
        print("generated C uses __Pyx_PyObject_Format*AndDecref: %s" % ("__Pyx_PyObject_FormatAndDecref(" in ctext))
        diffs = 0
        for name, argsets in CASES.items():
            for args in argsets:
                exp, act = outcome(ref[name], *args), outcome(getattr(mod, name), *args)
                if exp != act:
                    diffs += 1
                    print("DIFF %-10s args=%-18r CPython: %-22s compiled: %s" % (name, args, exp, act))
        print("%d differing cases" % diffs)
        return 1 if diffs else 0
    finally:
        shutil.rmtree(tmp, ignore_errors=True)


if __name__ == "__main__":
    sys.exit(main())
