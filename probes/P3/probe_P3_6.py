"""probe_P3_6: an f-string that mentions the same simple local name twice formats it only ONCE and
re-uses the text, even when an expression in between changes the value / mutates the container:

    l = []            ; f"{l}-{l.append(1)}-{l}"      CPython '[]-None-[1]'     compiled '[]-None-[]'
    def f(dict d)     ; f"{d}|{d.update(a=1)}|{d}"    CPython "{}|None|{'a': 1}" compiled '{}|None|{}'
    def f(int x)      ; f"{x}-{(x := x + 1)}-{x}"     CPython '1-2-2'           compiled '1-2-1'
    def f(double d)   ; f"{d}-{(d := d * 2)}-{d}"     CPython '1.5-3.0-3.0'     compiled '1.5-3.0-1.5'
    l = [Counter()]   ; f"{l} {l}"                    __repr__ of the item runs once instead of twice

Cause: Optimize.FinalOptimizePhase.visit_JoinedStrNode() replaces later FormattedValueNodes with a
CloneNode of the first one, keyed on (name, c_format_spec, format_spec, conversion) only.  It applies to
C-typed names and to names of any builtin Python type (list, dict, set, ...), and does not stop at
intervening sub-expressions that can rebind or mutate the name.

Run:  /venv/bin/python probe_P3_6.py   (from the worktree root).  Exit 1 = defect present.
"""
import os, re, shutil, subprocess, sys, sysconfig, tempfile, importlib.util

ROOT = os.path.dirname(os.path.abspath(__file__))
EXTRA_CFLAGS = []   # a probe may add e.g. -DNDEBUG (what setuptools builds use)


def build(name, source):
    """Compile `source` (.pyx text) with the worktree's Cython + gcc; return (module, C text, tmpdir)."""
    tmp = tempfile.mkdtemp(prefix="probe_P3_")
    pyx, cfile = os.path.join(tmp, name + ".pyx"), os.path.join(tmp, name + ".c")
    so = os.path.join(tmp, name + ".so")
    with open(pyx, "w", encoding="utf-8") as f:
        f.write(source)
    env = dict(os.environ, PYTHONPATH=ROOT)
    subprocess.run([sys.executable, "-m", "cython", "-3", pyx, "-o", cfile],
                   cwd=ROOT, env=env, check=True, stdout=subprocess.DEVNULL, stderr=subprocess.DEVNULL)
    cc = shutil.which("gcc") or shutil.which("clang") or "cc"
    subprocess.run([cc, "-O1", "-w"] + EXTRA_CFLAGS + ["-shared", "-fPIC", "-I", sysconfig.get_paths()["include"], cfile, "-o", so],
                   check=True)
    spec = importlib.util.spec_from_file_location(name, so)
    mod = importlib.util.module_from_spec(spec)
    spec.loader.exec_module(mod)
    with open(cfile, encoding="utf-8") as f:
        ctext = f.read()
    return mod, ctext, tmp


def reference(source):
    """The same source run by CPython: C type annotations of the arguments are stripped, nothing else."""
    py = re.sub(r"\b(?:unsigned |signed )?(?:int|long|short|char|double|float|bint|list|dict|str|Py_ssize_t) (\w+)(?=[,)=])", r"\1", source)
    ns = {}
    exec(compile(py, "<cpython reference>", "exec"), ns)
    return ns


def outcome(fn, *args):
    try:
        r = fn(*args)
        return "%s %r" % (type(r).__name__, r)
    except BaseException as e:  # only the exception TYPE is compared
        return "raises " + type(e).__name__

SOURCE = r'''
def local_list():
    l = []
    return f"{l}-{l.append(1)}-{l}"
def arg_list(list l):     return f"{l} -> popped {l.pop()} -> {l}"
def arg_dict(dict d):     return f"{d}|{d.update(a=1)}|{d}"
def local_set():
    s = {1}
    return f"{s}{s.clear()}{s}"
def walrus_int(int x):    return f"{x}-{(x := x + 1)}-{x}"
def walrus_dbl(double d): return f"{d}-{(d := d * 2)}-{d}"
def walrus_hex(int x):    return f"{x:04x} {(x := x * 16):04x} {x:04x}"
def repr_twice(item):
    l = [item]
    return f"{l} {l}"
# control: untyped object name is not deduplicated
def ctl_obj(x):           return f"{x}-{(x := x + 1)}-{x}"
'''


class Counting:
    def __init__(self): self.n = 0
    def __repr__(self):
        self.n += 1
        return "call%d" % self.n


def main():
    mod, ctext, tmp = build("probe_p3_6", SOURCE)
    try:
        ref = reference(SOURCE)
        cases = [('local_list', lambda: ()), ('arg_list', lambda: ([1, 2, 3],)), ('arg_dict', lambda: ({},)),
                 ('local_set', lambda: ()), ('walrus_int', lambda: (1,)), ('walrus_dbl', lambda: (1.5,)),
                 ('walrus_hex', lambda: (10,)), ('repr_twice', lambda: (Counting(),)), ('ctl_obj', lambda: (1,))]
        diffs = 0
        for name, mk in cases:
            exp, act = outcome(ref[name], *mk()), outcome(getattr(mod, name), *mk())
            if exp != act:
                diffs += 1
                print("DIFF %-11s CPython: %-32s compiled: %s" % (name, exp, act))
        print("%d differing cases" % diffs)
        return 1 if diffs else 0
    finally:
        shutil.rmtree(tmp, ignore_errors=True)


if __name__ == "__main__":
    sys.exit(main())
