# Probe P9 / defect 2 (property C02):
#   <float constant> % x   with x = +-inf of the same sign as the constant gives nan, CPython gives the constant.
# Helper: Cython/Utility/Optimize.c "PyFloatBinop" (__Pyx_PyFloat_RemainderCObj), selected by
# Optimize.py OptimizeBuiltinCalls._handle_simple_method_float___mod__ -> _optimise_num_binop.
# (Same formula, same result in Cython/Utility/CMath.c "ModFloat" when type inference turns the operand
#  into a C double:  y = x; y %= 1e999.)
#
# Run:  /venv/bin/python probe_P9_2.py      (from the worktree root)
# Exit: 1 if the defect is present, 0 otherwise.
import os, sys, shutil, tempfile, subprocess, sysconfig, importlib.util

ROOT = os.path.dirname(os.path.abspath(__file__))
sys.path.insert(0, ROOT)

SRC = '''
def c_mod_x(x):        return 1.5 % x
def negc_mod_x(x):     return -2.5 % x
def big_mod_x(x):      return 1e300 % x
def tiny_mod_x(x):     return 5e-324 % x
def c_mod_x_bool(x):
    if 1.5 % x == 1.5:
        return "same"
    return "other"
# sibling: Python int object, in-place % by an infinite float constant (C double path, CMath.c ModFloat)
def int_imod_inf(x: int):
    y = x
    y %= 1e999
    return y
'''

INF = float('inf')
CASES = [
    ('c_mod_x', (INF,)), ('negc_mod_x', (-INF,)), ('big_mod_x', (INF,)), ('tiny_mod_x', (INF,)),
    ('c_mod_x_bool', (INF,)),
    ('int_imod_inf', (1,)), ('int_imod_inf', (2**62,)),
    # controls that must agree
    ('c_mod_x', (-INF,)), ('negc_mod_x', (INF,)), ('c_mod_x', (2.0,)), ('c_mod_x', (-2.0,)), ('c_mod_x', (0.0,)),
    ('c_mod_x', (0,)), ('c_mod_x', (float('nan'),)), ('c_mod_x', (2**2000,)), ('c_mod_x', (7,)), ('negc_mod_x', (7,)),
]

def build(name, src, workdir):
    from Cython.Compiler.Main import compile as cy_compile, CompilationOptions, default_options
    pyx = os.path.join(workdir, name + '.pyx')
    with open(pyx, 'w') as f:
        f.write(src)
    res = cy_compile(pyx, CompilationOptions(default_options, language_level=3))
    assert res.num_errors == 0
    so = os.path.join(workdir, name + sysconfig.get_config_var('EXT_SUFFIX'))
    subprocess.check_call(['gcc', '-shared', '-fPIC', '-O1', '-fno-strict-overflow', '-w',
                           '-I', sysconfig.get_paths()['include'],
                           os.path.join(workdir, name + '.c'), '-o', so])
    spec = importlib.util.spec_from_file_location(name, so)
    mod = importlib.util.module_from_spec(spec)
    spec.loader.exec_module(mod)
    return mod


def outcome(f, args):
    try:
        r = f(*args)
    except BaseException as e:
        return 'raises ' + type(e).__name__
    return '%s %r' % (type(r).__name__, r)


def main():
    tmp = tempfile.mkdtemp(prefix='probe_P9_2_')
    try:
        mod = build('probe_p9_2_mod', SRC, tmp)
        with open(os.path.join(tmp, 'probe_p9_2_mod.c')) as f:
            csrc = f.read()
        for helper in ('__Pyx_PyFloat_RemainderCObj(', '__Pyx_mod_double('):
            print('helper used in generated C: %-45s %s' % (helper, helper in csrc))
        ns = {}
        exec(SRC, ns)
        bad = 0
        for name, args in CASES:
            cy, py = outcome(getattr(mod, name), args), outcome(ns[name], args)
            if cy != py:
                bad += 1
                print('DIFF %-14s args=%-28r CPython: %-14s compiled: %s' % (name, args, py, cy))
        print('%d differing case(s) out of %d' % (bad, len(CASES)))
        return 1 if bad else 0
    finally:
        shutil.rmtree(tmp, ignore_errors=True)


if __name__ == '__main__':
    sys.exit(main())
