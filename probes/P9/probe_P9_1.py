# Probe P9 / defect 1 (property C02):
# sign of zero is lost in  float * int  and  float + int(0)  handled by the
# "PyNumberBinop" helper (Cython/Utility/Optimize.c, __Pyx_PyNumber_Multiply_xfloat_*,
# __Pyx_PyNumber_Add_xfloat_* / __Pyx_PyNumber_Add_xint_*).
#
# Run:  /venv/bin/python probe_P9_1.py      (from the worktree root)
# Exit: 1 if the defect is present, 0 otherwise.
import os, sys, shutil, tempfile, subprocess, sysconfig, importlib.util

ROOT = os.path.dirname(os.path.abspath(__file__))
sys.path.insert(0, ROOT)

SRC = '''
from typing import Optional

# float CONSTANT (*) object            -> __Pyx_PyNumber_Multiply_float_object
def zero_times(x):            return 0.0 * x
def negzero_times(x):         return -0.0 * x
# object (*) int CONSTANT > 2**30      -> __Pyx_PyNumber_Multiply_object_int
def times_negbig(x):          return x * -1099511627776
def itimes_negbig(x):
    x *= -1099511627776
    return x
def times_negbig2(x):         return x * (-9223372036854775808)
# Python-float typed operand, small int constant -> __Pyx_PyNumber_{Multiply,Add}_float_int / _int_float
def f_times_neg3(x: Optional[float]):  return x * -3
def f_plus_0(x: Optional[float]):      return x + 0
def zero_plus_f(x: Optional[float]):   return 0 + x
def f_iplus_0(x: Optional[float]):
    y = x
    y += 0
    return y
# not a constant operand, but the same helper (__Pyx_PyNumber_Multiply_object_object / Add):
def generic_mul(x, y):        return x * y
def generic_add(x, y):        return x + y
'''

CASES = [
    ('zero_times', (-5,)), ('zero_times', (-1,)), ('zero_times', (-2**40,)), ('zero_times', (-2**100,)),
    ('negzero_times', (-5,)), ('negzero_times', (-2**64,)),
    ('times_negbig', (0.0,)), ('times_negbig', (-0.0,)),
    ('itimes_negbig', (0.0,)), ('itimes_negbig', (-0.0,)),
    ('times_negbig2', (0.0,)), ('times_negbig2', (-0.0,)),
    ('f_times_neg3', (0.0,)), ('f_times_neg3', (-0.0,)),
    ('f_plus_0', (-0.0,)), ('zero_plus_f', (-0.0,)), ('f_iplus_0', (-0.0,)),
    ('generic_mul', (0.0, -5)), ('generic_mul', (-0.0, -5)), ('generic_add', (-0.0, 0)), ('generic_add', (0, -0.0)),
    # controls that must agree
    ('zero_times', (5,)), ('zero_times', (-5.0,)), ('times_negbig', (1.5,)), ('f_plus_0', (0.0,)),
]


def build(name, src, workdir):
    from Cython.Compiler.Main import compile as cy_compile, CompilationOptions, default_options
    pyx = os.path.join(workdir, name + '.pyx')
    with open(pyx, 'w') as f:
        f.write(src)
    res = cy_compile(pyx, CompilationOptions(default_options, language_level=3))
    assert res.num_errors == 0
    so = os.path.join(workdir, name + sysconfig.get_config_var('EXT_SUFFIX'))
    subprocess.check_call(['gcc', '-shared', '-fPIC', '-O1', '-fno-strict-overflow', '-w',
                           '-I', sysconfig.get_paths()['include'],
                           os.path.join(workdir, name + '.c'), '-o', so])
    spec = importlib.util.spec_from_file_location(name, so)
    mod = importlib.util.module_from_spec(spec)
    spec.loader.exec_module(mod)
    return mod


def outcome(f, args):
    try:
        r = f(*args)
    except BaseException as e:
        return 'raises ' + type(e).__name__
    return '%s %r' % (type(r).__name__, r)


def main():
    tmp = tempfile.mkdtemp(prefix='probe_P9_1_')
    try:
        mod = build('probe_p9_1_mod', SRC, tmp)
        with open(os.path.join(tmp, 'probe_p9_1_mod.c')) as f:
            csrc = f.read()
        for helper in ('__Pyx_PyNumber_Multiply_float_object(', '__Pyx_PyNumber_Multiply_object_int(',
                       '__Pyx_PyNumber_Multiply_float_int(', '__Pyx_PyNumber_Add_float_int(',
                       '__Pyx_PyNumber_Add_int_float('):
            print('helper used in generated C: %-45s %s' % (helper, helper in csrc))
        ns = {}
        exec(SRC, ns)
        bad = 0
        for name, args in CASES:
            cy, py = outcome(getattr(mod, name), args), outcome(ns[name], args)
            if cy != py:
                bad += 1
                print('DIFF %-14s args=%-28r CPython: %-14s compiled: %s' % (name, args, py, cy))
        print('%d differing case(s) out of %d' % (bad, len(CASES)))
        return 1 if bad else 0
    finally:
        shutil.rmtree(tmp, ignore_errors=True)


if __name__ == '__main__':
    sys.exit(main())
