# Probe P9 / defect 3 (property C02):
#   <constant> op x   where x is an instance of an int / float SUBCLASS whose reflected method
#   (__radd__, __rmul__, ...) returns NotImplemented: CPython falls back to int.__add__ / float.__mul__ ...
#   and returns the number, compiled code raises TypeError.
# Helper: Cython/Utility/Optimize.c "PyNumberBinop" (__Pyx_PyNumber_<Op>_xint_object / _xfloat_object),
# used by ExprNodes.NumBinopNode.py_operation_function for + - * & | ^ when the constant is not handled
# by PyLongBinop / PyFloatBinop (int constant with abs > 2**30, float constant with '*').
#
# Run:  /venv/bin/python probe_P9_3.py      (from the worktree root)
# Exit: 1 if the defect is present, 0 otherwise.
import os, sys, shutil, tempfile, subprocess, sysconfig, importlib.util

ROOT = os.path.dirname(os.path.abspath(__file__))
sys.path.insert(0, ROOT)

SRC = '''
def big_add(x):    return 1099511627776 + x
def big_sub(x):    return 1099511627776 - x
def big_mul(x):    return 1099511627776 * x
def big_and(x):    return 1099511627776 & x
def big_or(x):     return 1099511627776 | x
def big_xor(x):    return 1099511627776 ^ x
def flt_mul(x):    return 2.5 * x
def flt_mul_i(x):  return 2.5 * x          # called with the int subclass: handled by float.__mul__ in CPython
# control: small constants go through PyLongBinop / PyFloatBinop, which fall back to PyNumber_Add
def small_add(x):  return 1 + x
def flt_add(x):    return 2.5 + x

'''

class Units(int):
    """an int subclass that only combines with its own kind in reflected operations"""
    def _r(self, other):
        if isinstance(other, Units):
            return Units(int(other) + int(self))
        return NotImplemented
    __radd__ = __rsub__ = __rmul__ = __rand__ = __ror__ = __rxor__ = _r

class Metres(float):
    def __rmul__(self, other):
        if isinstance(other, Metres):
            return Metres(float(other) * float(self))
        return NotImplemented
    __radd__ = __rmul__


CASES = [
    ('big_add', 'Units(5)'), ('big_sub', 'Units(5)'), ('big_mul', 'Units(5)'), ('big_and', 'Units(2**40+1)'),
    ('big_or', 'Units(5)'), ('big_xor', 'Units(5)'), ('big_add', 'Units(2**70)'),
    ('flt_mul', 'Metres(2.0)'), ('flt_mul_i', 'Units(4)'),
    # controls that must agree
    ('small_add', 'Units(5)'), ('flt_add', 'Metres(2.0)'), ('big_add', '5'), ('flt_mul', '2.0'),
]

def build(name, src, workdir):
    from Cython.Compiler.Main import compile as cy_compile, CompilationOptions, default_options
    pyx = os.path.join(workdir, name + '.pyx')
    with open(pyx, 'w') as f:
        f.write(src)
    res = cy_compile(pyx, CompilationOptions(default_options, language_level=3))
    assert res.num_errors == 0
    so = os.path.join(workdir, name + sysconfig.get_config_var('EXT_SUFFIX'))
    subprocess.check_call(['gcc', '-shared', '-fPIC', '-O1', '-fno-strict-overflow', '-w',
                           '-I', sysconfig.get_paths()['include'],
                           os.path.join(workdir, name + '.c'), '-o', so])
    spec = importlib.util.spec_from_file_location(name, so)
    mod = importlib.util.module_from_spec(spec)
    spec.loader.exec_module(mod)
    return mod


def outcome(f, args):
    try:
        r = f(*args)
    except BaseException as e:
        return 'raises ' + type(e).__name__
    return '%s %r' % (type(r).__name__, r)


def main():
    tmp = tempfile.mkdtemp(prefix='probe_P9_3_')
    try:
        mod = build('probe_p9_3_mod', SRC, tmp)
        with open(os.path.join(tmp, 'probe_p9_3_mod.c')) as f:
            csrc = f.read()
        for helper in ('__Pyx_PyNumber_Add_int_object(', '__Pyx_PyNumber_Multiply_float_object(', '__Pyx_PyNumber_And_int_object('):
            print('helper used in generated C: %-45s %s' % (helper, helper in csrc))
        ns = {}
        exec(SRC, ns)
        bad = 0
        for name, args in CASES:
            cy, py = outcome(getattr(mod, name), (eval(args),)), outcome(ns[name], (eval(args),))
            if cy != py:
                bad += 1
                print('DIFF %-14s x=%-18s CPython: %-14s compiled: %s' % (name, args, py, cy))
        print('%d differing case(s) out of %d' % (bad, len(CASES)))
        return 1 if bad else 0
    finally:
        shutil.rmtree(tmp, ignore_errors=True)


if __name__ == '__main__':
    sys.exit(main())
