# Probe P9 / defect 4 (property C02, transform OptimizeBuiltinCalls._optimise_num_binop):
#   an EXPLICIT special-method call  x.__add__(1.5), x.__eq__(1), x.__mod__(2.5) ...  with a numeric constant
#   argument is rewritten into the operator helper (__Pyx_PyFloat_AddObjC, __Pyx_PyLong_EqObjC ...), i.e. it
#   gets the semantics of  x + 1.5 / x == 1  (type coercion, reflected operations, TypeError) instead of those
#   of the method call (NotImplemented result, AttributeError when the method does not exist).
# Responsible: Cython/Compiler/Visitor.py MethodDispatcherTransform._dispatch_to_handler (attribute call)
#   -> Optimize.py OptimizeBuiltinCalls._handle_simple_method_object___add__ ... -> _optimise_num_binop,
#   which does not distinguish the operator (function is None) from the method call.
#
# Run:  /venv/bin/python probe_P9_4.py      (from the worktree root)
# Exit: 1 if the defect is present, 0 otherwise.
import os, sys, shutil, tempfile, subprocess, sysconfig, importlib.util

ROOT = os.path.dirname(os.path.abspath(__file__))
sys.path.insert(0, ROOT)

SRC = '''
def m_add_f(x):   return x.__add__(1.5)
def m_mod_f(x):   return x.__mod__(2.5)
def m_eq_i(x):    return x.__eq__(1)
def m_ne_i(x):    return x.__ne__(1)
def m_eq_f(x):    return x.__eq__(1.5)
def m_sub_i(x):   return x.__sub__(1)
def m_and_i(x):   return x.__and__(3)
def m_lshift(x):  return x.__lshift__(3)
def m_add_i(x):   return x.__add__(1)

'''

class OnlyReflected:
    def __radd__(self, other): return "radd"
    def __rsub__(self, other): return "rsub"


CASES = [
    ('m_add_f', '5'), ('m_add_f', 'True'), ('m_add_f', '2**70'), ('m_mod_f', '7'),
    ('m_eq_i', '"abc"'), ('m_eq_i', 'None'), ('m_ne_i', '(1,)'), ('m_eq_f', '1'), ('m_eq_f', '2**70'),
    ('m_sub_i', '"abc"'), ('m_and_i', '1.5'), ('m_lshift', '1.5'), ('m_add_i', 'None'), ('m_add_i', 'OnlyReflected()'),
    # controls that must agree
    ('m_add_f', '1.5'), ('m_add_i', '5'), ('m_eq_i', '1'), ('m_eq_i', '1.0'), ('m_and_i', '7'), ('m_add_i', '"abc"'),
]

def build(name, src, workdir):
    from Cython.Compiler.Main import compile as cy_compile, CompilationOptions, default_options
    pyx = os.path.join(workdir, name + '.pyx')
    with open(pyx, 'w') as f:
        f.write(src)
    res = cy_compile(pyx, CompilationOptions(default_options, language_level=3))
    assert res.num_errors == 0
    so = os.path.join(workdir, name + sysconfig.get_config_var('EXT_SUFFIX'))
    subprocess.check_call(['gcc', '-shared', '-fPIC', '-O1', '-fno-strict-overflow', '-w',
                           '-I', sysconfig.get_paths()['include'],
                           os.path.join(workdir, name + '.c'), '-o', so])
    spec = importlib.util.spec_from_file_location(name, so)
    mod = importlib.util.module_from_spec(spec)
    spec.loader.exec_module(mod)
    return mod


def outcome(f, args):
    try:
        r = f(*args)
    except BaseException as e:
        return 'raises ' + type(e).__name__
    return '%s %r' % (type(r).__name__, r)


def main():
    tmp = tempfile.mkdtemp(prefix='probe_P9_4_')
    try:
        mod = build('probe_p9_4_mod', SRC, tmp)
        with open(os.path.join(tmp, 'probe_p9_4_mod.c')) as f:
            csrc = f.read()
        for helper in ('__Pyx_PyFloat_AddObjC(', '__Pyx_PyLong_EqObjC(', '__Pyx_PyFloat_RemainderObjC('):
            print('helper used in generated C: %-45s %s' % (helper, helper in csrc))
        ns = {}
        exec(SRC, ns)
        bad = 0
        for name, args in CASES:
            cy, py = outcome(getattr(mod, name), (eval(args),)), outcome(ns[name], (eval(args),))
            if cy != py:
                bad += 1
                print('DIFF %-14s x=%-18s CPython: %-14s compiled: %s' % (name, args, py, cy))
        print('%d differing case(s) out of %d' % (bad, len(CASES)))
        return 1 if bad else 0
    finally:
        shutil.rmtree(tmp, ignore_errors=True)


if __name__ == '__main__':
    sys.exit(main())
