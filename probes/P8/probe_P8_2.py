#!/usr/bin/env python
"""
probe_P8_2 - property C09 (compile-time constants keep their exact Python values)

Defect: when a for-loop / comprehension iterates directly over a literal tuple, list or set of
constants, the constants change their type (and sometimes their value) on the way to the loop variable:

  * single-character bytes constants become ints:   [c for c in (b'a', b'b')]  ->  [97, 98]
    (and  for c in {b'a'}  raises TypeError at run time)
  * an int next to a float becomes a float:          [x for x in (0.0, 5)]      ->  [0.0, 5.0]
  * a bool next to an int/float becomes int/float:   [x for x in (True, 5)]     ->  [1, 5]

Responsible code: Cython/Compiler/ExprNodes.py, infer_sequence_item_type()
  - it reduces the item types of a constant sequence with PyrexTypes.reduce_spanning_types(), i.e. it
    picks ONE C type that "spans" all constants (double for {double, long}, long/int for {bint, long}),
  - and it maps sequences of single character bytes literals to ``unsigned char``
    ("Infer special case of single character sequences as single character type"), although an
    ``unsigned char`` converts back to a Python *int*, not to a bytes object.
The result is used by Optimize.IterationTransform._try_optimise_array_iteration() (C array iteration)
and by the type inference of the loop target.

Run from the worktree root:  /venv/bin/python probe_P8_2.py
Exit status 1 if the defect is present, 0 otherwise.
"""
import os, sys, shutil, subprocess, sysconfig, tempfile, importlib.util

ROOT = os.path.dirname(os.path.abspath(__file__))
sys.path.insert(0, ROOT)

EXPRS = [
    # bytes constants of length 1 -> int
    "[c for c in (b'a', b'b')]",
    "[c for c in [b'a', b'b']]",
    "[c for c in (b'a',)]",
    "[c for c in (b'\\xff', b'\\x00')]",
    "tuple(c for c in (b'a', b'b'))",
    "[c for c in {b'a'}]",
    "sorted(c for c in {b'a', b'b'})",
    # int constant next to a float constant -> float
    "[x for x in (0.0, 5)]",
    "[x for x in [2.5, 2**31 - 1]]",
    "[x for x in (1.5, 9007199254740993)]",   # also loses the value: 2**53+1 is not a double
    "sorted((x for x in {0.5, 5}), key=repr)",
    # bool constant next to int / float constants -> int / float
    "[x for x in (True, 5)]",
    "[x for x in (False, 2, 3)]",
    "[x for x in (0.5, True)]",
    # controls
    "[c for c in ('a', 'b')]",
    "[c for c in (b'a', b'bc')]",
    "[x for x in (0.0, 'a', 5)]",
    "[x for x in (True, False)]",
    "list((b'a', b'b'))",
    "list((0.0, 5))",
]


def describe(v):
    if isinstance(v, (list, tuple)):
        return '%s(%s)' % (type(v).__name__, ', '.join(describe(x) for x in v))
    return '%s:%r' % (type(v).__name__, v)


def build(src, workdir, name):
    from Cython.Compiler.Main import compile as cy_compile, CompilationOptions
    pyx = os.path.join(workdir, name + '.pyx')
    with open(pyx, 'w') as f:
        f.write(src)
    res = cy_compile(pyx, CompilationOptions(language_level=3))
    if res.num_errors:
        raise RuntimeError("Cython compilation failed")
    so = os.path.join(workdir, name + sysconfig.get_config_var('EXT_SUFFIX'))
    cc = os.environ.get('CC', 'gcc')
    subprocess.check_call([cc, '-shared', '-fPIC', '-O1', '-w', '-fno-strict-overflow',
                           '-I', sysconfig.get_paths()['include'],
                           os.path.join(workdir, name + '.c'), '-o', so])
    spec = importlib.util.spec_from_file_location(name, so)
    mod = importlib.util.module_from_spec(spec)
    spec.loader.exec_module(mod)
    return mod



def main():
    workdir = tempfile.mkdtemp(prefix='probe_P8_2_')
    try:
        src = ''.join('def f_%d():\n    return %s\n' % (i, e) for i, e in enumerate(EXPRS))
        mod = build(src, workdir, 'probe_p8_2_mod')
        bad = 0
        for i, e in enumerate(EXPRS):
            expected = describe(eval(e))
            try:
                got = describe(getattr(mod, 'f_%d' % i)())
            except Exception as exc:
                got = 'raised %s' % type(exc).__name__
            if got != expected:
                bad += 1
                print("DIFF  %-42s CPython: %s\n      %-42s Cython:  %s" % (e, expected, '', got))
            else:
                print("same  %-42s %s" % (e, got))
        print("%d differing case(s)" % bad)
        return 1 if bad else 0
    finally:
        shutil.rmtree(workdir, ignore_errors=True)


if __name__ == '__main__':
    sys.exit(main())
