#!/usr/bin/env python
"""
probe_P8_4 - property C09 (constant expressions the compiler evaluates at compile time must behave
like CPython: same value, same exception type, same evaluation count)

Defect: constant folding of  <tuple/list display> * <factor>  is wrong in three ways:

  (a) a factor that merely compares equal to 1 is dropped without a type check:
          (1, 2) * 1.0       CPython: TypeError      Cython: (1, 2)
          [a, b] * 1.0       CPython: TypeError      Cython: [a, b]
  (b) an empty display ignores the factor completely - it is not even evaluated:
          () * 2.5, [] * 'a', [] * None               CPython: TypeError   Cython: () / []
          [] * f(3)          CPython calls f(3)       Cython never calls f
  (c) a constant factor <= 0 deletes the items together with their side effects:
          [f(1)] * 0         CPython calls f(1)       Cython never calls f
          (f(1), f(2)) * -1  CPython calls f twice    Cython never calls f

Responsible code: Cython/Compiler/Optimize.py, ConstantFolding._calculate_constant_seq()
(called from ConstantFolding.visit_MulNode()):

    if factor.constant_result != 1 and sequence_node.args:      # 1.0 == 1, True == 1; empty args -> skip all
        if isinstance(factor.constant_result, int) and factor.constant_result <= 0:
            del sequence_node.args[:]                           # drops arbitrary (non-constant) item expressions
            sequence_node.mult_factor = None
        ...
    return sequence_node                                        # the MulNode (and its factor operand) is gone

Run from the worktree root:  /venv/bin/python probe_P8_4.py
Exit status 1 if the defect is present, 0 otherwise.
"""
import os, sys, shutil, subprocess, sysconfig, tempfile, importlib.util

ROOT = os.path.dirname(os.path.abspath(__file__))
sys.path.insert(0, ROOT)

# the same source text is executed by CPython (exec) and compiled by Cython
SOURCE = '''
calls = []
def f(v):
    calls.append(v)
    return v

def a1(): return (1, 2) * 1.0
def a2(): return [1, 2] * 1.0
def a3(): return (1, 2) * 2 * 1.0
def a4(): return len((1, 2) * 1.0)
def a5(a=1, b=2): return [a, b] * 1.0
def b1(): return () * 2.5
def b2(): return [] * 'a'
def b3(): return () * None
def b4(): return [] * []
def b5(z='abc'): return [] * z
def b6():
    del calls[:]
    r = [] * f(3)
    return r, list(calls)
def c1():
    del calls[:]
    r = [f(1)] * 0
    return r, list(calls)
def c2():
    del calls[:]
    r = (f(1), f(2)) * -1
    return r, list(calls)
def c3():
    del calls[:]
    r = [f(1)] * False
    return r, list(calls)
# controls
def k1(): return (1, 2) * 2
def k2(): return (1, 2) * True
def k3(): return [1, 2] * 2.0
def k4():
    del calls[:]
    r = [f(1)] * 2
    return r, list(calls)
'''
NAMES = ['a1', 'a2', 'a3', 'a4', 'a5', 'b1', 'b2', 'b3', 'b4', 'b5', 'b6', 'c1', 'c2', 'c3', 'k1', 'k2', 'k3', 'k4']


def build(src, workdir, name):
    from Cython.Compiler.Main import compile as cy_compile, CompilationOptions
    pyx = os.path.join(workdir, name + '.pyx')
    with open(pyx, 'w') as f:
        f.write(src)
    res = cy_compile(pyx, CompilationOptions(language_level=3))
    if res.num_errors:
        raise RuntimeError("Cython compilation failed")
    so = os.path.join(workdir, name + sysconfig.get_config_var('EXT_SUFFIX'))
    cc = os.environ.get('CC', 'gcc')
    subprocess.check_call([cc, '-shared', '-fPIC', '-O1', '-w', '-fno-strict-overflow',
                           '-I', sysconfig.get_paths()['include'],
                           os.path.join(workdir, name + '.c'), '-o', so])
    spec = importlib.util.spec_from_file_location(name, so)
    mod = importlib.util.module_from_spec(spec)
    spec.loader.exec_module(mod)
    return mod




def outcome(fn):
    try:
        return 'returned %r' % (fn(),)
    except Exception as exc:
        return 'raised %s' % type(exc).__name__


def main():
    workdir = tempfile.mkdtemp(prefix='probe_P8_4_')
    try:
        py_ns = {}
        exec(compile(SOURCE, '<cpython>', 'exec'), py_ns)
        mod = build(SOURCE, workdir, 'probe_p8_4_mod')
        bad = 0
        for name in NAMES:
            expected = outcome(py_ns[name])
            got = outcome(getattr(mod, name))
            tag = 'same' if got == expected else 'DIFF'
            bad += tag == 'DIFF'
            print("%s  %-4s CPython: %-34s Cython: %s" % (tag, name, expected, got))
        print("%d differing case(s)   (see SOURCE in this file for the function bodies)" % bad)
        return 1 if bad else 0
    finally:
        shutil.rmtree(workdir, ignore_errors=True)


if __name__ == '__main__':
    sys.exit(main())
