#!/usr/bin/env python
"""
probe_P8_5 - property C09 (typing of bool constants in constant / C arithmetic)

Defect: a bitwise operation  <C integer of rank <= int>  |, ^, &  <bool constant>  is typed ``bint``.
The bool constant True/False therefore does not behave as the integer 1/0 that Python defines it to be,
and the whole result collapses to a truth value:

    def f(int x): return x | True        f(6)  -> CPython 7     Cython True
    def f(int x): return x ^ True        f(7)  -> CPython 6     Cython True
    def f(int x): return x | False       f(6)  -> CPython 6     Cython True
    def f(int x): return x & True        f(7)  -> CPython 1     Cython True   (type only)

(``True | x`` and ``long x`` are computed correctly, which shows that this is not an intended C semantic.)

Responsible code: Cython/Compiler/ExprNodes.py, NumBinopNode.compute_c_result_type():

    widest_type = PyrexTypes.widest_numeric_type(type1, type2)
    if widest_type is PyrexTypes.c_bint_type:
        if self.operator not in '|^&':
            widest_type = PyrexTypes.c_int_type      # "False + False == 0 # not False!"

together with PyrexTypes.widest_numeric_type(), which for two types of equal rank and signedness returns
``type2`` - i.e. ``bint`` for (int, bint), (short, bint), (unsigned char, bint) - so that the '|^&' exception
meant for bint-op-bint is applied to int-op-bint as well.

Run from the worktree root:  /venv/bin/python probe_P8_5.py
Exit status 1 if the defect is present, 0 otherwise.
"""
import os, sys, shutil, subprocess, sysconfig, tempfile, importlib.util

ROOT = os.path.dirname(os.path.abspath(__file__))
sys.path.insert(0, ROOT)

# (name, C type of x, expression)
FUNCS = [
    ("or_true",    "int",            "x | True"),
    ("xor_true",   "int",            "x ^ True"),
    ("and_true",   "int",            "x & True"),
    ("or_false",   "int",            "x | False"),
    ("xor_false",  "int",            "x ^ False"),
    ("short_or",   "short",          "x | True"),
    ("uchar_xor",  "unsigned char",  "x ^ True"),
    ("or_cmp",     "int",            "x | (1 == 1)"),
    # controls
    ("true_or",    "int",            "True | x"),
    ("long_or",    "long",           "x | True"),
    ("add_true",   "int",            "x + True"),
    ("or_one",     "int",            "x | 1"),
]
VALUES = [0, 1, 6, 7, 100, 255]


def build(src, workdir, name):
    from Cython.Compiler.Main import compile as cy_compile, CompilationOptions
    pyx = os.path.join(workdir, name + '.pyx')
    with open(pyx, 'w') as f:
        f.write(src)
    res = cy_compile(pyx, CompilationOptions(language_level=3))
    if res.num_errors:
        raise RuntimeError("Cython compilation failed")
    so = os.path.join(workdir, name + sysconfig.get_config_var('EXT_SUFFIX'))
    cc = os.environ.get('CC', 'gcc')
    subprocess.check_call([cc, '-shared', '-fPIC', '-O1', '-w', '-fno-strict-overflow',
                           '-I', sysconfig.get_paths()['include'],
                           os.path.join(workdir, name + '.c'), '-o', so])
    spec = importlib.util.spec_from_file_location(name, so)
    mod = importlib.util.module_from_spec(spec)
    spec.loader.exec_module(mod)
    return mod




def main():
    workdir = tempfile.mkdtemp(prefix='probe_P8_5_')
    try:
        src = ''.join('def %s(%s x):\n    return %s\n' % f for f in FUNCS)
        mod = build(src, workdir, 'probe_p8_5_mod')
        bad = 0
        for name, ctype, expr in FUNCS:
            diffs = []
            for x in VALUES:
                expected = eval(expr, {'x': x})
                got = getattr(mod, name)(x)
                if (type(got), got) != (type(expected), expected):
                    diffs.append("x=%d: CPython %r, Cython %r" % (x, expected, got))
            if diffs:
                bad += len(diffs)
                print("DIFF  def f(%s x): return %-14s %s" % (ctype, expr, '; '.join(diffs)))
            else:
                print("same  def f(%s x): return %s" % (ctype, expr))
        print("%d differing case(s)" % bad)
        return 1 if bad else 0
    finally:
        shutil.rmtree(workdir, ignore_errors=True)


if __name__ == '__main__':
    sys.exit(main())
