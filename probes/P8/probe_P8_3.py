#!/usr/bin/env python
"""
probe_P8_3 - property C09 (compile-time constants keep their exact Python values; float signed zeros)

Defect: constant expressions that multiply / add a float zero constant and an integer constant which
Cython keeps as a Python object (|value| >= 2**31, or any Python int at run time) get the wrong sign
of zero:

    0.0 * (-2**31)            CPython -0.0    Cython  0.0
    -0.0 * (-2**31)           CPython  0.0    Cython -0.0
    -0.0 + (2**31 - 2**31)    CPython  0.0    Cython -0.0

Responsible code: Cython/Utility/Optimize.c, utility "PyNumberBinop", function
__Pyx_PyNumber_{Multiply,Add}_xfloat_{object,int}() (called from __Pyx_PyNumber_Multiply_float_object()
etc., which ExprNodes emits for "<float-typed operand> op <object>"):

    {{if c_op == '*'}}
    if (float_op1 == 0.) return __Pyx_NewRef(op1);      // ignores the sign of op2:  0.0 * -5 == -0.0
    {{endif}}
  and
    {{if c_op in '+-'}}
    if (compact_op2 == 0) return __Pyx_NewRef(op1);     // wrong for '+':  -0.0 + 0 == 0.0
    {{endif}}

Run from the worktree root:  /venv/bin/python probe_P8_3.py
Exit status 1 if the defect is present, 0 otherwise.
"""
import os, sys, shutil, subprocess, sysconfig, tempfile, importlib.util

ROOT = os.path.dirname(os.path.abspath(__file__))
sys.path.insert(0, ROOT)

# pure constant expressions
EXPRS = [
    "0.0 * (-2**31)",
    "0.0 * -(2**40)",
    "0.0 * (-10**30)",
    "-0.0 * (-2**31)",
    "-0.0 * (-2**63)",
    "-0.0 + (2**31 - 2**31)",
    "-0.0 + 0 * 2**31",
    "(0.0 * (-2**31), 1)",
    # controls
    "0.0 * (2**31)",
    "0.0 * -7",
    "0.0 * -2147483648",       # fits a C long: computed in C
    "(-2**31) * 0.0",
    "-0.0 - (2**31 - 2**31)",
    "-0.0 + 0",
]

# the same helper with a float constant and a run-time Python int
EXTRA_SRC = '''
def mul_const_zero(z):
    return 0.0 * z
def mul_const_negzero(z):
    return -0.0 * z
def add_const_negzero(z):
    return -0.0 + z
'''
EXTRA = [
    ("mul_const_zero", -5, 0.0 * -5),
    ("mul_const_zero", -2**70, 0.0 * -2**70),
    ("mul_const_negzero", -5, -0.0 * -5),
    ("mul_const_zero", 5, 0.0 * 5),          # control
    ("add_const_negzero", 0, -0.0 + 0),      # control
]


def build(src, workdir, name):
    from Cython.Compiler.Main import compile as cy_compile, CompilationOptions
    pyx = os.path.join(workdir, name + '.pyx')
    with open(pyx, 'w') as f:
        f.write(src)
    res = cy_compile(pyx, CompilationOptions(language_level=3))
    if res.num_errors:
        raise RuntimeError("Cython compilation failed")
    so = os.path.join(workdir, name + sysconfig.get_config_var('EXT_SUFFIX'))
    cc = os.environ.get('CC', 'gcc')
    subprocess.check_call([cc, '-shared', '-fPIC', '-O1', '-w', '-fno-strict-overflow',
                           '-I', sysconfig.get_paths()['include'],
                           os.path.join(workdir, name + '.c'), '-o', so])
    spec = importlib.util.spec_from_file_location(name, so)
    mod = importlib.util.module_from_spec(spec)
    spec.loader.exec_module(mod)
    return mod




def main():
    workdir = tempfile.mkdtemp(prefix='probe_P8_3_')
    try:
        src = ''.join('def f_%d():\n    return %s\n' % (i, e) for i, e in enumerate(EXPRS)) + EXTRA_SRC
        mod = build(src, workdir, 'probe_p8_3_mod')
        bad = 0
        for i, e in enumerate(EXPRS):
            expected = eval(e)
            got = getattr(mod, 'f_%d' % i)()
            if repr(got) != repr(expected):
                bad += 1
                print("DIFF  %-28s CPython: %-12r Cython: %r" % (e, expected, got))
            else:
                print("same  %-28s %r" % (e, got))
        for name, arg, expected in EXTRA:
            got = getattr(mod, name)(arg)
            tag = "same" if repr(got) == repr(expected) else "DIFF"
            bad += tag == "DIFF"
            print("%s  %s(%r): CPython %r  Cython %r" % (tag, name, arg, expected, got))
        print("%d differing case(s)" % bad)
        return 1 if bad else 0
    finally:
        shutil.rmtree(workdir, ignore_errors=True)


if __name__ == '__main__':
    sys.exit(main())
