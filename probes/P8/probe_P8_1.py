#!/usr/bin/env python
"""
probe_P8_1 - property C09 (compile-time constants keep their exact Python values)

Defect: iterating directly over a constant sequence that carries a repeat factor,
e.g. ``for x in (1.5, 2.5) * 3``, loses the repeat factor: the loop body runs
len(args) times instead of len(args) * factor times.

Responsible code: Cython/Compiler/Optimize.py, IterationTransform._try_optimise_array_iteration()
(the "Convert iteration over homogeneous sequences of C types into array iteration" branch builds
``ExprNodes.ListNode(iterable.pos, args=iterable.args)`` and drops ``iterable.mult_factor``, which
ConstantFolding._calculate_constant_seq() had stored on the TupleNode/ListNode).

Run from the worktree root:  /venv/bin/python probe_P8_1.py
Exit status 1 if the defect is present, 0 otherwise.
"""
import os, sys, shutil, subprocess, sysconfig, tempfile, importlib.util

ROOT = os.path.dirname(os.path.abspath(__file__))
sys.path.insert(0, ROOT)

EXPRS = [
    "[x for x in (1.5, 2.5) * 3]",
    "[x for x in [1.5, 2.5] * 3]",
    "[x for x in 3 * (1.5, 2.5)]",
    "[x for x in (True, False) * 2]",
    "[x for x in ('a', 'b') * 2]",
    "[x for x in (0.5,) * 4]",
    "[x for x in (1.5, 2.5) * 2 * 2]",
    "sum(1 for x in (1.5, 2.5) * 1000)",
    # controls (not affected: Python int items are not turned into a C array)
    "[x for x in (1, 2) * 3]",
    "[x for x in (1.5, 'a') * 3]",
    "list((1.5, 2.5) * 3)",
]

LOOP_SRC = '''
def loop_count():
    n = 0
    for x in (1.5, 2.5) * 3:
        n += 1
    return n

def loop_n(int k):
    return [x for x in (1.5, 2.5) * k]
'''


def build(src, workdir, name):
    from Cython.Compiler.Main import compile as cy_compile, CompilationOptions
    pyx = os.path.join(workdir, name + '.pyx')
    with open(pyx, 'w') as f:
        f.write(src)
    res = cy_compile(pyx, CompilationOptions(language_level=3))
    if res.num_errors:
        raise RuntimeError("Cython compilation failed")
    so = os.path.join(workdir, name + sysconfig.get_config_var('EXT_SUFFIX'))
    cc = os.environ.get('CC', 'gcc')
    subprocess.check_call([cc, '-shared', '-fPIC', '-O1', '-w', '-fno-strict-overflow',
                           '-I', sysconfig.get_paths()['include'],
                           os.path.join(workdir, name + '.c'), '-o', so])
    spec = importlib.util.spec_from_file_location(name, so)
    mod = importlib.util.module_from_spec(spec)
    spec.loader.exec_module(mod)
    return mod


def main():
    workdir = tempfile.mkdtemp(prefix='probe_P8_1_')
    try:
        src = ''.join('def f_%d():\n    return %s\n' % (i, e) for i, e in enumerate(EXPRS)) + LOOP_SRC
        mod = build(src, workdir, 'probe_p8_1_mod')
        bad = 0
        for i, e in enumerate(EXPRS):
            expected = eval(e)
            got = getattr(mod, 'f_%d' % i)()
            if repr(got) != repr(expected):
                bad += 1
                print("DIFF  %-40s CPython: %r   Cython: %r" % (e, expected, got))
            else:
                print("same  %-40s %r" % (e, got))
        n = mod.loop_count()
        if n != 6:
            bad += 1
            print("DIFF  'for x in (1.5, 2.5) * 3' ran its body %d times, CPython: 6 times" % n)
        got = mod.loop_n(3)
        if got != [1.5, 2.5] * 3:
            bad += 1
            print("DIFF  '[x for x in (1.5, 2.5) * k]' with C int k=3: CPython %r   Cython: %r" % ([1.5, 2.5] * 3, got))
        print("%d differing case(s)" % bad)
        return 1 if bad else 0
    finally:
        shutil.rmtree(workdir, ignore_errors=True)


if __name__ == '__main__':
    sys.exit(main())
