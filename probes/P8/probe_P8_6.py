#!/usr/bin/env python
"""
probe_P8_6 - property C09: valid Python constant expressions that this checkout cannot compile at all
(compiler crash with a Python traceback, or C code that the C compiler rejects).  CPython evaluates
every one of them to an ordinary value.

  source                       CPython value           this checkout
  ---------------------------  ----------------------  ---------------------------------------------
  (-1) ** 0.5                  (6.1e-17+1j)            compiler crash: ValueError in FloatNode.get_constant_c_result_code
  (-8) ** 0.5, (-2) ** 2.5     complex                 same
  2 ** 1e400                   inf                     compiler crash: OverflowError in PowNode.compute_c_result_type
  0 ** 1e400, 1 ** -1e400      0.0, 1.0                same
  1e400j                       infj                    generated C does not compile: "inf" undeclared (ImagNode)
  -1e400j                      (-0-infj)               same
  True * (1, 2)                (1, 2)                  generated C does not compile: "True" undeclared (PyTuple_New(2 * True))
  for x in (1j, 2j): ...       iterates 1j, 2j         compiler crash: AttributeError in ImagNode.analyse_types
                                                       (via IterationTransform._try_optimise_array_iteration)
  for x in (1j, 0.5): ...      iterates 1j, 0.5        same
  b'a' == 'a', b'a' != 'b'     False, True             compiler crash: TypeError: ord() expected string of length 1, but int found

Responsible code:
  * Optimize.py ConstantFolding.visit_BinopNode(): only ``isinstance(node.constant_result, float)`` results are
    left alone; a *complex* constant_result of two literal operands (int ** float) is packed into
    ``FloatNode(value=str(complex))``, which later dies in FloatNode.get_constant_c_result_code() -> float(strval).
  * ExprNodes.py PowNode.compute_c_result_type(): ``int(self.operand2.constant_result) == ...`` with an infinite
    float constant raises OverflowError (only ValueError-like cases are expected).
  * ExprNodes.py ImagNode.calculate_result_code()/generate_result_code(): emits ``%r % float(self.value)`` -> "inf"/"nan"
    instead of Py_HUGE_VAL as FloatNode does.
  * ExprNodes.py SequenceNode.generate_sequence_packing_code(): ``size_factor = ' * %s' % mult_factor.constant_result``
    formats the bool constant_result True (an int instance, so the isinstance(.., int) guard passes) as "True".
  * ExprNodes.py ImagNode.coerce_to()/analyse_types(): after coercion to a Python object ``self.type`` is the builtin
    complex type, which has no create_declaration_utility_code(); re-analysing the node (as the array iteration
    transform does through ListNode.analyse_types) crashes.

  * ExprNodes.py PrimaryCmpNode.find_special_bool_compare_function(): ``if type1.is_pystr_type or type2.is_pystr_type:
    if operand1.is_string_literal and operand1.can_coerce_to_char_literal(): character = ord(operand1.value[0])`` - when
    operand1 is a one-byte BYTES literal (and operand2 the str), ``operand1.value[0]`` already is an int.

Run from the worktree root:  /venv/bin/python probe_P8_6.py
Exit status 1 if the defect is present, 0 otherwise.
"""
import os, sys, io, shutil, subprocess, sysconfig, tempfile, importlib.util, contextlib, traceback

ROOT = os.path.dirname(os.path.abspath(__file__))
sys.path.insert(0, ROOT)

CASES = [
    # (name, function body returning the value, expression evaluated by CPython)
    ("neg_int_pow_half",   "return (-1) ** 0.5",            "(-1) ** 0.5"),
    ("neg_int_pow_half_2", "return (-8) ** 0.5",            "(-8) ** 0.5"),
    ("neg_int_pow_2_5",    "return (-2) ** 2.5",            "(-2) ** 2.5"),
    ("pow_inf",            "return 2 ** 1e400",             "2 ** 1e400"),
    ("zero_pow_inf",       "return 0 ** 1e400",             "0 ** 1e400"),
    ("one_pow_neg_inf",    "return 1 ** -1e400",            "1 ** -1e400"),
    ("imag_inf",           "return 1e400j",                 "1e400j"),
    ("neg_imag_inf",       "return -1e400j",                "-1e400j"),
    ("bool_times_tuple",   "return True * (1, 2)",          "True * (1, 2)"),
    ("loop_imag_tuple",    "return [x for x in (1j, 2j)]",  "[x for x in (1j, 2j)]"),
    ("loop_imag_float",    "return [x for x in (1j, 0.5)]", "[x for x in (1j, 0.5)]"),
    ("bytes_eq_str",       "return b'a' == 'a'",            "b'a' == 'a'"),
    ("bytes_ne_str",       "return b'a' != 'b'",            "b'a' != 'b'"),
    # controls
    ("control_str_eq_bytes", "return 'a' == b'a'",          "'a' == b'a'"),
    ("control_pow",        "return (-1.5) ** 2",            "(-1.5) ** 2"),
    ("control_imag",       "return 1e308j",                 "1e308j"),
    ("control_inf",        "return 1e400",                  "1e400"),
    ("control_tuple_bool", "return (1, 2) * True",          "(1, 2) * True"),
]


def build(src, workdir, name):
    """returns (module, None) or (None, reason)"""
    from Cython.Compiler.Main import compile as cy_compile, CompilationOptions
    from Cython.Compiler import Errors
    pyx = os.path.join(workdir, name + '.pyx')
    with open(pyx, 'w') as f:
        f.write(src)
    err = io.StringIO()
    try:
        with contextlib.redirect_stderr(err), contextlib.redirect_stdout(err):
            res = cy_compile(pyx, CompilationOptions(language_level=3))
    except Exception as exc:   # crash escaping the compiler
        tb = traceback.extract_tb(exc.__traceback__)[-1]
        return None, "compiler crash: %s: %s  [%s:%d %s]" % (
            type(exc).__name__, str(exc)[:70], os.path.basename(tb.filename), tb.lineno, tb.name)
    if res.num_errors:
        lines = [l for l in err.getvalue().splitlines() if l.strip()]
        crash = [l for l in lines if 'Compiler crash' in l]
        last = lines[-1] if lines else ''
        return None, "compile error: %s | %s" % (crash[0].split(': ', 1)[-1] if crash else '', last.strip()[:90])
    so = os.path.join(workdir, name + sysconfig.get_config_var('EXT_SUFFIX'))
    cc = os.environ.get('CC', 'gcc')
    p = subprocess.run([cc, '-shared', '-fPIC', '-O1', '-w', '-fno-strict-overflow',
                        '-I', sysconfig.get_paths()['include'],
                        os.path.join(workdir, name + '.c'), '-o', so], capture_output=True, text=True)
    if p.returncode:
        errs = [l for l in p.stderr.splitlines() if 'error' in l]
        return None, "C compiler rejects generated code: %s" % (errs[0].split('error:')[-1].strip() if errs else '?')
    spec = importlib.util.spec_from_file_location(name, so)
    mod = importlib.util.module_from_spec(spec)
    spec.loader.exec_module(mod)
    return mod, None


def main():
    workdir = tempfile.mkdtemp(prefix='probe_P8_6_')
    try:
        bad = 0
        for i, (name, body, pyexpr) in enumerate(CASES):
            expected = eval(pyexpr)
            mod, reason = build("def f():\n    %s\n" % body, workdir, 'probe_p8_6_%s' % name)
            if mod is None:
                bad += 1
                print("DIFF  %-30s CPython: %-28r Cython: %s" % (body[7:], expected, reason))
                continue
            got = mod.f()
            if repr(got) != repr(expected):
                bad += 1
                print("DIFF  %-30s CPython: %-28r Cython: %r" % (body[7:], expected, got))
            else:
                print("same  %-30s %r" % (body[7:], got))
        print("%d differing case(s)" % bad)
        return 1 if bad else 0
    finally:
        shutil.rmtree(workdir, ignore_errors=True)


if __name__ == '__main__':
    sys.exit(main())
