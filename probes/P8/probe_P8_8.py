#!/usr/bin/env python
"""
probe_P8_8 - property C09 (constant string expressions / constants inside string formatting)

Defect: ConstantFolding rewrites  '<format>' % (<tuple display>)  into an f-string at compile time, and the
result is not what CPython computes for the same constant expression:

  (i)  '%5s' % ('ab',)      CPython '   ab'    Cython 'ab   '        (also %Nr, %Na, %N.Ms; any non-C-typed value)
       Optimize.py ConstantFolding._build_fstring(): '%Ns' becomes FormattedValueNode(conversion 's', format_spec 'N').
       format(str(v), 'N') left-aligns strings, whereas '%Ns' right-aligns.  Only the '%0Ns' spelling gets the
       required '>' prefix ("if format_spec.startswith('0'): format_spec = '>' + format_spec[1:]").
  (ii) '%5s' % (True,)      CPython ' True'    Cython '    1'
       f'{True!s:5}'        CPython 'True '    Cython '    1'
       f'{5!s:4}'           CPython '5   '     Cython '   5'
       ExprNodes.py FormattedValueNode.analyse_types(): when the value has a C type whose
       can_coerce_to_pystring(format_spec) is true (C integers and - for a non-empty spec - bint), ``c_format_spec`` is
       set and generate_result_code() formats the C value numerically; the ``conversion_char`` ('s', 'r', 'a') is
       silently ignored, so the bool constant True is printed as the integer 1.

Run from the worktree root:  /venv/bin/python probe_P8_8.py
Exit status 1 if the defect is present, 0 otherwise.
"""
import os, sys, shutil, subprocess, sysconfig, tempfile, importlib.util

ROOT = os.path.dirname(os.path.abspath(__file__))
sys.path.insert(0, ROOT)

EXPRS = [
    "'%5s|' % ('ab',)",
    "'%5r|' % ('ab',)",
    "'%5s|' % (1.5,)",
    "'%5s|' % (-0.0,)",
    "'%6s|' % (None,)",
    "'%25s|' % (2**70,)",
    "'%5.2s|' % ('abcdef',)",
    "'[%3s][%3s]' % ('x', 'y')",
    "'%5s|' % (True,)",
    "'%6s|' % (False,)",
    "'%5s|' % (1 < 2,)",
    "f'{True!s:5}|'",
    "f'{False!r:>6}|'",
    "f'{5!s:4}|'",
    # controls
    "'%5s|' % 'ab'",
    "'%-5s|' % ('ab',)",
    "'%05s|' % ('ab',)",
    "'%5s|' % (12,)",
    "'%s|' % (True,)",
    "f'{True:5}|'",
    "f'{True!s}|'",
    "'%5d|' % (12,)",
]


def build(src, workdir, name):
    from Cython.Compiler.Main import compile as cy_compile, CompilationOptions
    pyx = os.path.join(workdir, name + '.pyx')
    with open(pyx, 'w') as f:
        f.write(src)
    res = cy_compile(pyx, CompilationOptions(language_level=3))
    if res.num_errors:
        raise RuntimeError("Cython compilation failed")
    so = os.path.join(workdir, name + sysconfig.get_config_var('EXT_SUFFIX'))
    cc = os.environ.get('CC', 'gcc')
    subprocess.check_call([cc, '-shared', '-fPIC', '-O1', '-w', '-fno-strict-overflow',
                           '-I', sysconfig.get_paths()['include'],
                           os.path.join(workdir, name + '.c'), '-o', so])
    spec = importlib.util.spec_from_file_location(name, so)
    mod = importlib.util.module_from_spec(spec)
    spec.loader.exec_module(mod)
    return mod




def main():
    workdir = tempfile.mkdtemp(prefix='probe_P8_8_')
    try:
        src = ''.join('def f_%d():\n    return %s\n' % (i, e) for i, e in enumerate(EXPRS))
        src += "def g(v):\n    return '%5s|' % (v,)\n"
        mod = build(src, workdir, 'probe_p8_8_mod')
        bad = 0
        for i, e in enumerate(EXPRS):
            expected = eval(e)
            got = getattr(mod, 'f_%d' % i)()
            if got != expected:
                bad += 1
                print("DIFF  %-30s CPython: %-30r Cython: %r" % (e, expected, got))
            else:
                print("same  %-30s %r" % (e, got))
        for v in ('ab', 1.5, None):
            expected = '%5s|' % (v,)
            got = mod.g(v)
            if got != expected:
                bad += 1
                print("DIFF  g(%r) with g(v) = '%%5s|' %% (v,): CPython %r  Cython %r" % (v, expected, got))
        print("%d differing case(s)" % bad)
        return 1 if bad else 0
    finally:
        shutil.rmtree(workdir, ignore_errors=True)


if __name__ == '__main__':
    sys.exit(main())
