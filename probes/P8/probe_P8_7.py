#!/usr/bin/env python
"""
probe_P8_7 - property C09: further places where a constant does not keep its Python type / value
(collected here; each has its own root cause, see FINDINGS)

  (a) min()/max() over constants returns the selected constant converted to the "widest" C type:
          max(0.0, 5) -> 5.0 (CPython 5)     min(1, 2.5) -> 1.0 (CPython 1)    max(1, 1.0) -> 1.0 (CPython 1)
      Optimize.py OptimizeBuiltinCalls._optimise_min_max(): builds nested CondExprNodes whose C result type is the
      spanning type of all arguments (double for {long, double}).
  (b) a bool constant used as a subscript is passed to __getitem__ as the int 1 / 0:
          obj[True] -> obj.__getitem__(1)    (numpy/pandas distinguish a[True] from a[1])
      ExprNodes.py IndexNode.analyse_base_and_index_types(): ``self.index.type.is_int`` is true for the C type bint
      of BoolNode, so the index is coerced to Py_ssize_t and __Pyx_GetItemInt() re-creates it with PyLong_FromSsize_t().
  (c) complex ** complex on constants returns a float when the imaginary part of the result is zero:
          1j ** 1j -> 0.2078795763507619 (CPython (0.20787957635076193+0j)),  (-1) ** 1j -> float
      ExprNodes.py PowNode.compute_c_result_type()/analyse_types(): the result of a power whose operands are C complex
      *literals* is typed ``soft complex`` (meant for double ** double with possibly negative base) and converted with
      __pyx_Py_FromSoftComplex(), which drops a zero imaginary part.
  (d) float constant modulo an infinite constant:   1 % 1e400 -> nan   (CPython 1.0)
      Utility/CMath.c, "ModFloat" (__Pyx_mod_double): ``r += ((r < 0) ^ (b < 0)) * b;`` computes
      0 * inf == nan for a finite positive a and b == +inf (likewise negative a and b == -inf).
  (e) DEF constants of complex type lose a negative zero real / imaginary part:
          DEF Z = -1j ; Z -> -1j  (CPython (-0-1j))
      Parsing.py wrap_compile_time_constant(): rebuilds a complex value as ``FloatNode(real) + ImagNode(imag)`` only
      ``if value.real`` (its own comment: "FIXME: should we care about -0.0 ?").

  (f) constant expressions whose compile-time evaluation raises are silently left to C arithmetic, which does not raise:
          1 << -1 -> 0 (CPython ValueError; C shift by a negative count is undefined behaviour)
          0 ** -1 -> inf (CPython ZeroDivisionError)        1e308 ** 2 -> inf (CPython OverflowError)
      Optimize.py ConstantFolding._calculate_const(): ``except (ValueError, TypeError, ..., ArithmeticError): pass`` keeps
      the node "not constant"; the operands stay C long / C double literals and ExprNodes emits plain C ``<<`` / pow().

Run from the worktree root:  /venv/bin/python probe_P8_7.py
Exit status 1 if the defect is present, 0 otherwise.
"""
import os, sys, shutil, subprocess, sysconfig, tempfile, importlib.util, io, contextlib

ROOT = os.path.dirname(os.path.abspath(__file__))
sys.path.insert(0, ROOT)

SOURCE = '''
class G:
    def __getitem__(self, key):
        return key

def a1(): return max(0.0, 5)
def a2(): return min(1, 2.5)
def a3(): return max(1, 1.0)
def a4(): return max(0, -0.0)
def a5(): return max(1, 2, 2.0)
def b1(): return G()[True]
def b2(): return G()[False]
def b3(): return {1: 'x'}[True], [10, 20][True]       # control: same result either way
def c1(): return 1j ** 1j
def c2(): return (-1) ** 1j
def c3(): return 1j ** 2                              # control
def d1(): return 1 % 1e400
def d2(): return 1.5 % 1e400
def d3(): return -1 % 1e400                           # control (inf)
def f1(): return 1 << -1
def f2(): return 0 ** -1
def f3(): return 1e308 ** 2
def f4(): return 1 // 0                               # control: ZeroDivisionError in both
'''
NAMES = ['a1', 'a2', 'a3', 'a4', 'a5', 'b1', 'b2', 'b3', 'c1', 'c2', 'c3', 'd1', 'd2', 'd3', 'f1', 'f2', 'f3', 'f4']

DEF_SOURCE = '''
DEF Z1 = -1j
DEF Z2 = complex(1, -0.0)
def e1(): return Z1
def e2(): return Z2
'''


def build(src, workdir, name):
    from Cython.Compiler.Main import compile as cy_compile, CompilationOptions
    pyx = os.path.join(workdir, name + '.pyx')
    with open(pyx, 'w') as f:
        f.write(src)
    res = cy_compile(pyx, CompilationOptions(language_level=3))
    if res.num_errors:
        raise RuntimeError("Cython compilation failed")
    so = os.path.join(workdir, name + sysconfig.get_config_var('EXT_SUFFIX'))
    cc = os.environ.get('CC', 'gcc')
    subprocess.check_call([cc, '-shared', '-fPIC', '-O1', '-w', '-fno-strict-overflow',
                           '-I', sysconfig.get_paths()['include'],
                           os.path.join(workdir, name + '.c'), '-o', so])
    spec = importlib.util.spec_from_file_location(name, so)
    mod = importlib.util.module_from_spec(spec)
    spec.loader.exec_module(mod)
    return mod




def show(v):
    return '%s:%r' % (type(v).__name__, v)


def call(fn):
    try:
        return show(fn())
    except Exception as exc:
        return 'raised %s' % type(exc).__name__


def main():
    workdir = tempfile.mkdtemp(prefix='probe_P8_7_')
    try:
        py_ns = {}
        exec(compile(SOURCE, '<cpython>', 'exec'), py_ns)
        with contextlib.redirect_stderr(io.StringIO()):    # DEF deprecation warnings
            mod = build(SOURCE + DEF_SOURCE, workdir, 'probe_p8_7_mod')
        bad = 0
        for name in NAMES:
            expected = call(py_ns[name])
            got = call(getattr(mod, name))
            tag = 'same' if got == expected else 'DIFF'
            bad += tag == 'DIFF'
            print("%s  %-3s CPython: %-42s Cython: %s" % (tag, name, expected, got))
        for name, expected in (('e1', -1j), ('e2', complex(1, -0.0))):
            got = show(getattr(mod, name)())
            tag = 'same' if got == show(expected) else 'DIFF'
            bad += tag == 'DIFF'
            print("%s  %-3s CPython: %-42s Cython: %s" % (tag, name, show(expected), got))
        print("%d differing case(s)   (see SOURCE in this file for the function bodies)" % bad)
        return 1 if bad else 0
    finally:
        shutil.rmtree(workdir, ignore_errors=True)


if __name__ == '__main__':
    sys.exit(main())
