#!/usr/bin/env python
"""
probe_P2_3: slice bounds outside the Py_ssize_t range on a typed builtin
sequence (str / bytes / bytearray / list / tuple).

(a) Python-object (or literal) bounds: CPython clamps any int to the
    Py_ssize_t range (`'abc'[:2**63] == 'abc'`, `[1,2][-2**64:] == [1,2]`).
    SliceIndexNode.analyse_types (Cython/Compiler/ExprNodes.py) coerces the
    bounds of a typed builtin base to Py_ssize_t with the ordinary
    object->Py_ssize_t conversion (__Pyx_PyIndex_AsSsize_t), which raises
    OverflowError.  Slice assignment / deletion on list and bytearray go
    through the same node and fail the same way.

(b) C-typed unsigned bounds (size_t, unsigned long, unsigned long long) with a
    value >= 2**63: the same `coerce_to(c_py_ssize_t_type)` is a plain C cast,
    so the bound becomes NEGATIVE and a wrong slice is returned silently (also
    for untyped `object` bases, where the C value is handed to
    __Pyx_PyObject_GetSlice as Py_ssize_t).  Integer INDEXING with the same
    types is handled correctly (__Pyx_fits_Py_ssize_t); slicing is not.

Run from the worktree root:   /venv/bin/python probe_P2_3.py
Exit status: 1 if the defect is present, 0 if not.
"""
import os, sys, subprocess, tempfile, shutil, sysconfig, importlib.util, copy

ROOT = os.path.dirname(os.path.abspath(__file__))
sys.path.insert(0, ROOT)

TYPES = ['str', 'bytes', 'bytearray', 'list', 'tuple', 'object']
MUTABLE = ('bytearray', 'list', 'object')

def gen():
    pyx, py = [], []
    def both(cy, p):
        pyx.append(cy); py.append(p)
    for t in TYPES:
        both("def o_sl_%s(%s c, a, b): return c[a:b]" % (t, t),
             "def o_sl_%s(c, a, b): return c[a:b]" % t)
        both("def k_sl_%s(%s c): return c[:9223372036854775808]" % (t, t),
             "def k_sl_%s(c): return c[:9223372036854775808]" % t)
        both("def u_sl_%s(%s c, size_t a, size_t b): return c[a:b]" % (t, t),
             "def u_sl_%s(c, a, b): return c[a:b]" % t)
        both("def u_sl1_%s(%s c, unsigned long long b): return c[:b]" % (t, t),
             "def u_sl1_%s(c, b): return c[:b]" % t)
        if t in MUTABLE:
            both("def o_set_%s(%s c, a, b, v):\n    c[a:b] = v\n    return c" % (t, t),
                 "def o_set_%s(c, a, b, v):\n    c[a:b] = v\n    return c" % t)
            both("def o_del_%s(%s c, a, b):\n    del c[a:b]\n    return c" % (t, t),
                 "def o_del_%s(c, a, b):\n    del c[a:b]\n    return c" % t)
            both("def u_del_%s(%s c, size_t a, size_t b):\n    del c[a:b]\n    return c" % (t, t),
                 "def u_del_%s(c, a, b):\n    del c[a:b]\n    return c" % t)
    return "\n".join(pyx), "\n".join(py)

def build(tmp, name, src):
    from Cython.Compiler.Main import compile as cycompile, CompilationOptions, default_options
    pyx = os.path.join(tmp, name + '.pyx')
    with open(pyx, 'w') as f:
        f.write(src)
    opts = CompilationOptions(default_options, compiler_directives={'language_level': 3})
    res = cycompile(pyx, opts)
    if res.num_errors:
        raise SystemExit('cython compile failed')
    c = os.path.join(tmp, name + '.c')
    so = os.path.join(tmp, name + sysconfig.get_config_var('EXT_SUFFIX'))
    subprocess.check_call(['gcc', '-shared', '-fPIC', '-O2', '-DNDEBUG', '-fno-strict-overflow', '-w',
                           '-I', sysconfig.get_paths()['include'], c, '-o', so])
    spec = importlib.util.spec_from_file_location(name, so)
    m = importlib.util.module_from_spec(spec)
    spec.loader.exec_module(m)
    return m, c

def run(f, *args):
    args = copy.deepcopy(args)
    try:
        r = f(*args)
        return ('ok', type(r).__name__, r)
    except BaseException as e:
        return ('exc', type(e).__name__)

SAMPLES = {
    'str': 'abc', 'bytes': b'abc', 'bytearray': bytearray(b'abc'), 'list': [1, 2, 3], 'tuple': (1, 2, 3),
}

def main():
    tmp = tempfile.mkdtemp(prefix='probe_P2_3_')
    try:
        pyx, py = gen()
        m, c_file = build(tmp, 'probe_p2_3_mod', pyx)
        csrc = open(c_file).read()
        for helper in ('__Pyx_PyUnicode_Substring(__pyx_v_c', '__Pyx_PyList_GetSlice(__pyx_v_c',
                       '__Pyx_PyTuple_GetSlice(__pyx_v_c', 'PySequence_GetSlice(__pyx_v_c',
                       '__Pyx_PyObject_GetSlice(__pyx_v_c'):
            assert helper in csrc, 'optimised helper %s not used' % helper
        ref = {}
        exec(py, ref)

        BIG = [2**63, 2**64, 10**30]
        cases = []
        for t in TYPES:
            samples = [SAMPLES[t]] if t != 'object' else [SAMPLES['str'], SAMPLES['list']]
            for s in samples:
                # (a) object bounds beyond Py_ssize_t (skip for untyped base: that path is fine)
                for big in BIG:
                    cases += [('o_sl_' + t, (s, 0, big)), ('o_sl_' + t, (s, -big, None)),
                              ('o_sl_' + t, (s, -big - 1, big)), ('o_sl_' + t, (s, big, None))]
                    if t in MUTABLE and isinstance(s, (list, bytearray)):
                        cases += [('o_set_' + t, (s, 1, big, b'xy')), ('o_del_' + t, (s, 1, big)),
                                  ('o_del_' + t, (s, -big, 1))]
                cases += [('k_sl_' + t, (s,))]
                # (b) unsigned C bounds >= 2**63
                for big in (2**63, 2**63 + 1, 2**64 - 1):
                    cases += [('u_sl_' + t, (s, 0, big)), ('u_sl_' + t, (s, big, 2)), ('u_sl_' + t, (s, 1, big)),
                              ('u_sl1_' + t, (s, big))]
                    if t in MUTABLE and isinstance(s, (list, bytearray)):
                        cases += [('u_del_' + t, (s, 1, big)), ('u_del_' + t, (s, big, 2))]
                # controls
                cases += [('o_sl_' + t, (s, 0, 2**63 - 1)), ('o_sl_' + t, (s, -2**63, None)),
                          ('u_sl_' + t, (s, 0, 2**63 - 1)), ('u_sl1_' + t, (s, 2**63 - 1))]
        ndiff = 0
        for fname, args in cases:
            got = run(getattr(m, fname), *args)
            exp = run(ref[fname], *args)
            if got != exp:
                ndiff += 1
                print('DIFF %-16s args=%r\n       cython : %r\n       cpython: %r' % (fname, args, got, exp))
        print('%d cases, %d differ' % (len(cases), ndiff))
        return 1 if ndiff else 0
    finally:
        shutil.rmtree(tmp, ignore_errors=True)

if __name__ == '__main__':
    sys.exit(main())
