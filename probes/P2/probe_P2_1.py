#!/usr/bin/env python
"""
probe_P2_1: list/tuple slicing with Py_ssize_t bounds - signed overflow of
`stop - start` in __Pyx_crop_slice (Cython/Utility/ObjectHandling.c,
section SliceTupleAndList) -> MemoryError or out-of-bounds read / crash where
CPython returns an empty list / tuple.

Run from the worktree root:   /venv/bin/python probe_P2_1.py
Exit status: 1 if the defect is present, 0 if not.
"""
import os, sys, subprocess, tempfile, shutil, sysconfig

ROOT = os.path.dirname(os.path.abspath(__file__))
sys.path.insert(0, ROOT)

PYX = r'''
# typed base + C-typed slice bounds  ->  __Pyx_PyList_GetSlice / __Pyx_PyTuple_GetSlice
def sl_list(list l, Py_ssize_t a, Py_ssize_t b):
    return l[a:b]
def sl_tuple(tuple t, Py_ssize_t a, Py_ssize_t b):
    return t[a:b]
# typed base + plain Python bounds: the bounds are coerced to Py_ssize_t, same helper
def sl_list_obj(list l, a, b):
    return l[a:b]
def sl_tuple_obj(tuple t, a, b):
    return t[a:b]
# literal bounds
def sl_list_const(list l):
    return l[9223372036854775807:-5]
'''

def build(tmp, name, src):
    from Cython.Compiler.Main import compile as cycompile, CompilationOptions, default_options
    pyx = os.path.join(tmp, name + '.pyx')
    with open(pyx, 'w') as f:
        f.write(src)
    opts = CompilationOptions(default_options, compiler_directives={'language_level': 3})
    res = cycompile(pyx, opts)
    if res.num_errors:
        raise SystemExit('cython compile failed')
    c = os.path.join(tmp, name + '.c')
    so = os.path.join(tmp, name + sysconfig.get_config_var('EXT_SUFFIX'))
    subprocess.check_call(['gcc', '-shared', '-fPIC', '-O2', '-DNDEBUG', '-fno-strict-overflow', '-w',
                           '-I', sysconfig.get_paths()['include'], c, '-o', so])
    return c

CHILD = r'''
import sys
sys.path.insert(0, sys.argv[1])
import probe_p2_1_mod as m
f = getattr(m, sys.argv[2])
args = eval(sys.argv[3])
try:
    r = f(*args)
    print('RESULT', ('ok', type(r).__name__, r))
except BaseException as e:
    print('RESULT', ('exc', type(e).__name__))
'''

def run_child(tmp, fname, args):
    p = subprocess.run([sys.executable, '-c', CHILD, tmp, fname, repr(args)],
                       stdout=subprocess.PIPE, stderr=subprocess.PIPE, text=True)
    for line in p.stdout.splitlines():
        if line.startswith('RESULT '):
            return line[len('RESULT '):]
    return "('crash', 'exit status %d')" % p.returncode

def reference(fname, args):
    try:
        if fname == 'sl_list_const':
            r = args[0][9223372036854775807:-5]
        else:
            r = args[0][args[1]:args[2]]
        return repr(('ok', type(r).__name__, r))
    except BaseException as e:
        return repr(('exc', type(e).__name__))

MAX, MIN = 2**63 - 1, -2**63

def main():
    tmp = tempfile.mkdtemp(prefix='probe_P2_1_')
    try:
        c_file = build(tmp, 'probe_p2_1_mod', PYX)
        csrc = open(c_file).read()
        for helper in ('__Pyx_PyList_GetSlice(__pyx_v_l', '__Pyx_PyTuple_GetSlice(__pyx_v_t'):
            assert helper in csrc, 'optimised helper %s not used' % helper

        cases = []
        for fname, mk in (('sl_list', list), ('sl_tuple', tuple), ('sl_list_obj', list), ('sl_tuple_obj', tuple)):
            for cont in ([], [1, 2, 3]):
                cont = mk(cont)
                cases += [
                    (fname, (cont, 1, MIN)),          # length = (MIN+len) - 1 wraps to a huge positive value
                    (fname, (cont, MAX, -5)),         # length = (len-5) - MAX wraps
                    (fname, (cont, 2**62, MIN + 7)),
                    (fname, (cont, MAX, MIN)),        # length wraps to len+1: reads ob_item[-1 .. len-1]
                    (fname, (cont, MAX - 2, MIN + 1)),  # length wraps to len+4: reads ob_item[-3 .. len]
                    # controls (no overflow)
                    (fname, (cont, 1, -1)),
                    (fname, (cont, MAX, MAX)),
                    (fname, (cont, MIN, MIN)),
                    (fname, (cont, MIN, MAX)),
                ]
        cases += [('sl_list_const', ([1, 2, 3],)), ('sl_list_const', ([],))]

        ndiff = 0
        for fname, args in cases:
            got = run_child(tmp, fname, args)
            exp = reference(fname, args)
            if got != exp:
                ndiff += 1
                print('DIFF %-13s args=%r\n       cython : %s\n       cpython: %s' % (fname, args, got, exp))
        print('%d cases, %d differ' % (len(cases), ndiff))
        return 1 if ndiff else 0
    finally:
        shutil.rmtree(tmp, ignore_errors=True)

if __name__ == '__main__':
    sys.exit(main())
