#!/usr/bin/env python
"""
probe_P2_4: integer indexing / index assignment of a `str`, `bytes` or
`bytearray` typed variable that holds None (typed arguments and cdef variables
accept None by default).

CPython: `None[0]` -> TypeError ('NoneType' object is not subscriptable).
Cython (default directives): IndexNode.analyse_as_pyobject
(Cython/Compiler/ExprNodes.py) inserts the None check unconditionally only for
list / tuple / dict bases; for str / bytes / bytearray it is left to
wrap_in_nonecheck_node(), i.e. only done under `nonecheck=True`.  The C helpers
__Pyx_GetItemInt_Unicode_Fast / __Pyx_GetItemInt_Bytes_Fast /
__Pyx_GetItemInt_ByteArray_Fast / __Pyx_SetItemInt_ByteArray_Fast
(Cython/Utility/StringTools.c) then read the length / data fields of the None
singleton (16 bytes large, the fields are at offsets >= 16: out-of-bounds read
of static memory; with assertions enabled the process aborts in
PyUnicode_GET_LENGTH) and raise IndexError - or index through a garbage
pointer if the word behind _Py_NoneStruct is not 0.

Slicing the same variables (`s[1:2]`) and indexing list / tuple DO raise
TypeError, so this is an inconsistency of the int-index fast path only.

Run from the worktree root:   /venv/bin/python probe_P2_4.py
Exit status: 1 if the defect is present, 0 if not.
"""
import os, sys, subprocess, tempfile, shutil, sysconfig

ROOT = os.path.dirname(os.path.abspath(__file__))
sys.path.insert(0, ROOT)

PYX = r'''
def str_get(str s, Py_ssize_t i): return s[i]
def str_get0(str s): return s[0]
def str_getm1(str s): return s[-1]
def bytes_get(bytes s, int i): return s[i]
def bytes_get0(bytes s): return s[0]
def bytearray_get(bytearray s, int i): return s[i]
def bytearray_get0(bytearray s): return s[0]
def bytearray_set(bytearray s, int i, v):
    s[i] = v
def bytearray_set0(bytearray s):
    s[0] = 65
def local_str():
    cdef str s = None
    return s[0]
def local_bytes(int i):
    cdef bytes b = None
    return b[i]
# controls: these are checked
def list_get(list s, int i): return s[i]
def tuple_get(tuple s, int i): return s[i]
def str_slice(str s, int i): return s[i:]
def bytes_slice(bytes s, int i): return s[i:]
def obj_get(object s, int i): return s[i]
'''

def build(tmp, name, src):
    from Cython.Compiler.Main import compile as cycompile, CompilationOptions, default_options
    pyx = os.path.join(tmp, name + '.pyx')
    with open(pyx, 'w') as f:
        f.write(src)
    opts = CompilationOptions(default_options, compiler_directives={'language_level': 3})
    res = cycompile(pyx, opts)
    if res.num_errors:
        raise SystemExit('cython compile failed')
    c = os.path.join(tmp, name + '.c')
    so = os.path.join(tmp, name + sysconfig.get_config_var('EXT_SUFFIX'))
    # -DNDEBUG as in every distutils/setuptools build; without it CPython's own
    # assert(PyUnicode_Check(op)) in PyUnicode_GET_LENGTH aborts the process.
    subprocess.check_call(['gcc', '-shared', '-fPIC', '-O2', '-DNDEBUG', '-fno-strict-overflow', '-w',
                           '-I', sysconfig.get_paths()['include'], c, '-o', so])
    return c

CHILD = r'''
import sys
sys.path.insert(0, sys.argv[1])
import probe_p2_4_mod as m
f = getattr(m, sys.argv[2])
args = eval(sys.argv[3])
try:
    r = f(*args)
    print('RESULT', ('ok', type(r).__name__, r))
except BaseException as e:
    print('RESULT', ('exc', type(e).__name__))
'''

def run_child(tmp, fname, args):
    p = subprocess.run([sys.executable, '-c', CHILD, tmp, fname, repr(args)],
                       stdout=subprocess.PIPE, stderr=subprocess.PIPE, text=True)
    for line in p.stdout.splitlines():
        if line.startswith('RESULT '):
            return line[len('RESULT '):]
    return "('crash', 'exit status %d')" % p.returncode

def main():
    tmp = tempfile.mkdtemp(prefix='probe_P2_4_')
    try:
        c_file = build(tmp, 'probe_p2_4_mod', PYX)
        csrc = open(c_file).read()
        for helper in ('__Pyx_GetItemInt_Unicode(__pyx_v_s', '__Pyx_GetItemInt_Bytes(__pyx_v_s',
                       '__Pyx_GetItemInt_ByteArray(__pyx_v_s', '__Pyx_SetItemInt_ByteArray(__pyx_v_s'):
            assert helper in csrc, 'optimised helper %s not used' % helper

        # In CPython every one of these is <None>[int] or <None>[int] = v  ->  TypeError
        expected = repr(('exc', 'TypeError'))
        cases = []
        for i in (0, 1, -1, 7):
            cases += [('str_get', (None, i)), ('bytes_get', (None, i)), ('bytearray_get', (None, i)),
                      ('bytearray_set', (None, i, 65)), ('local_bytes', (i,)),
                      ('list_get', (None, i)), ('tuple_get', (None, i)), ('str_slice', (None, i)),
                      ('bytes_slice', (None, i)), ('obj_get', (None, i))]
        cases += [('str_get0', (None,)), ('str_getm1', (None,)), ('bytes_get0', (None,)),
                  ('bytearray_get0', (None,)), ('bytearray_set0', (None,)), ('local_str', ())]
        ndiff = 0
        for fname, args in cases:
            got = run_child(tmp, fname, args)
            if got != expected:
                ndiff += 1
                print('DIFF %-15s args=%r\n       cython : %s\n       cpython: %s' % (fname, args, got, expected))
        print('%d cases, %d differ' % (len(cases), ndiff))
        return 1 if ndiff else 0
    finally:
        shutil.rmtree(tmp, ignore_errors=True)

if __name__ == '__main__':
    sys.exit(main())
