#!/usr/bin/env python
"""
probe_P2_2: `obj[i]`, `obj[i] = v`, `del obj[i]` with a C-integer (or literal
integer) NEGATIVE index on a list / tuple subclass (or any class carrying
Py_TPFLAGS_SEQUENCE, e.g. collections.abc.Sequence subclasses) that overrides
__getitem__/__setitem__/__delitem__.

CPython passes the index unchanged to __getitem__ (mp_subscript slot).
Cython's __Pyx_GetItemInt_Fast / __Pyx_SetItemInt_Fast / __Pyx_DelItemInt_Fast
(Cython/Utility/ObjectHandling.c) prefer the sq_item / sq_ass_item slot for
Py_TPFLAGS_SEQUENCE types and "wrap around" first: they call __len__ and pass
index+len.  Result: extra __len__ call, different index seen by the method,
and -len-1 .. -2*len silently wrap TWICE, returning an element where CPython
raises IndexError.

Run from the worktree root:   /venv/bin/python probe_P2_2.py
Exit status: 1 if the defect is present, 0 if not.
"""
import os, sys, subprocess, tempfile, shutil, sysconfig, importlib.util

ROOT = os.path.dirname(os.path.abspath(__file__))
sys.path.insert(0, ROOT)

PYX = r'''
def get(o, int i):
    return o[i]
def get_ssize(o, Py_ssize_t i):
    return o[i]
def set_(o, int i, v):
    o[i] = v
def del_(o, int i):
    del o[i]
def get_m1(o):
    return o[-1]
def get_m4(o):
    return o[-4]
def set_m4(o, v):
    o[-4] = v
def del_m4(o):
    del o[-4]
'''
PY = r'''
def get(o, i):
    return o[i]
def get_ssize(o, i):
    return o[i]
def set_(o, i, v):
    o[i] = v
def del_(o, i):
    del o[i]
def get_m1(o):
    return o[-1]
def get_m4(o):
    return o[-4]
def set_m4(o, v):
    o[-4] = v
def del_m4(o):
    del o[-4]
'''

def build(tmp, name, src):
    from Cython.Compiler.Main import compile as cycompile, CompilationOptions, default_options
    pyx = os.path.join(tmp, name + '.pyx')
    with open(pyx, 'w') as f:
        f.write(src)
    opts = CompilationOptions(default_options, compiler_directives={'language_level': 3})
    res = cycompile(pyx, opts)
    if res.num_errors:
        raise SystemExit('cython compile failed')
    c = os.path.join(tmp, name + '.c')
    so = os.path.join(tmp, name + sysconfig.get_config_var('EXT_SUFFIX'))
    subprocess.check_call(['gcc', '-shared', '-fPIC', '-O2', '-DNDEBUG', '-fno-strict-overflow', '-w',
                           '-I', sysconfig.get_paths()['include'], c, '-o', so])
    spec = importlib.util.spec_from_file_location(name, so)
    m = importlib.util.module_from_spec(spec)
    spec.loader.exec_module(m)
    return m, c

LOG = []

class LoggingList(list):
    """A list that only forwards to list, logging the calls."""
    def __getitem__(self, i):
        LOG.append(('getitem', i)); return list.__getitem__(self, i)
    def __setitem__(self, i, v):
        LOG.append(('setitem', i, v)); return list.__setitem__(self, i, v)
    def __delitem__(self, i):
        LOG.append(('delitem', i)); return list.__delitem__(self, i)
    def __len__(self):
        LOG.append(('len',)); return list.__len__(self)

class LoggingTuple(tuple):
    def __getitem__(self, i):
        LOG.append(('getitem', i)); return tuple.__getitem__(self, i)
    def __len__(self):
        LOG.append(('len',)); return tuple.__len__(self)

import collections.abc
class Seq(collections.abc.MutableSequence):
    def __init__(self, items): self.items = list(items)
    def __getitem__(self, i):
        LOG.append(('getitem', i)); return self.items[i]
    def __setitem__(self, i, v):
        LOG.append(('setitem', i, v)); self.items[i] = v
    def __delitem__(self, i):
        LOG.append(('delitem', i)); del self.items[i]
    def __len__(self):
        LOG.append(('len',)); return len(self.items)
    def insert(self, i, v): self.items.insert(i, v)
    def __eq__(self, other): return type(other) is Seq and self.items == other.items
    def __repr__(self): return 'Seq(%r)' % self.items

def run(f, mk, *args):
    del LOG[:]
    o = mk()
    try:
        r = ('ok', f(o, *args))
    except BaseException as e:
        r = ('exc', type(e).__name__)
    state = list(o.items) if isinstance(o, Seq) else list(list.__iter__(o) if isinstance(o, list) else tuple.__iter__(o))
    return r, list(LOG), state

def main():
    tmp = tempfile.mkdtemp(prefix='probe_P2_2_')
    try:
        m, c_file = build(tmp, 'probe_p2_2_mod', PYX)
        csrc = open(c_file).read()
        for helper in ('__Pyx_GetItemInt(__pyx_v_o', '__Pyx_SetItemInt(__pyx_v_o', '__Pyx_DelItemInt(__pyx_v_o'):
            assert helper in csrc, 'optimised helper %s not used' % helper
        ref = {}
        exec(PY, ref)

        makers = [
            ('LoggingList([10,20,30])', lambda: LoggingList([10, 20, 30]), True),
            ('LoggingTuple((10,20,30))', lambda: LoggingTuple((10, 20, 30)), False),
            ('Seq([10,20,30])', lambda: Seq([10, 20, 30]), True),
        ]
        ndiff = ncases = 0
        for label, mk, mutable in makers:
            cases = []
            for i in (-1, -3, -4, -6, -7, 0, 2, 3):
                cases.append(('get', (i,)))
                cases.append(('get_ssize', (i,)))
                if mutable:
                    cases.append(('set_', (i, 99)))
                    cases.append(('del_', (i,)))
            cases += [('get_m1', ()), ('get_m4', ())]
            if mutable:
                cases += [('set_m4', (99,)), ('del_m4', ())]
            for fname, args in cases:
                ncases += 1
                got = run(getattr(m, fname), mk, *args)
                exp = run(ref[fname], mk, *args)
                if got != exp:
                    ndiff += 1
                    print('DIFF %s: %s%r\n       cython : result=%r calls=%r container=%r\n'
                          '       cpython: result=%r calls=%r container=%r' % (
                              label, fname, args, got[0], got[1], got[2], exp[0], exp[1], exp[2]))
        print('%d cases, %d differ' % (ncases, ndiff))
        return 1 if ndiff else 0
    finally:
        shutil.rmtree(tmp, ignore_errors=True)

if __name__ == '__main__':
    sys.exit(main())
