#!/usr/bin/env python
"""
Probe P7/3 (property C16): indexing the memoryview object of a typed memoryview with an
index tuple that has MORE entries than the view has dimensions is not rejected.

  * View.MemoryView._unellipsify_index_tuple() never checks len(index_tuple) <= ndim.
    With an Ellipsis the surplus entries are written at NEGATIVE list positions
    (ellipsis_end = ndim - indices_from_ellipsis < 0) and silently wrap around,
    so  mv1d[..., 0, 0]  returns an element instead of raising.
  * View.MemoryView.memview_slice() then iterates over all entries and reads
    src.shape[dim] / writes dst.shape[new_ndim] for dim, new_ndim >= ndim (and >= the
    8 slots of __Pyx_memviewslice): mv1d[:, :] returns a 2-dim view, nine slices return
    a 9-dim view (shape[8] aliases strides[0]), 60 slices smash the stack (SIGSEGV).

NumPy raises IndexError ("too many indices"), CPython's memoryview raises TypeError.

Run as:  /venv/bin/python probe_P7_3.py      (from the worktree root)
Exit status 1 if the defect is present, 0 otherwise.
"""
import os, sys, shutil, subprocess, sysconfig, tempfile, importlib.util

ROOT = os.path.dirname(os.path.abspath(__file__))
sys.path.insert(0, ROOT)

PYX = r'''
# cython: language_level=3
def view1(int[:] a):
    return a
def view2(int[:, :] a):
    return a
def index_in_module(int[:] a, idx):
    return (<object> a)[idx]
'''

CRASH_CHILD = r'''
import sys, importlib.util, array
spec = importlib.util.spec_from_file_location("p7_3", sys.argv[1])
m = importlib.util.module_from_spec(spec); spec.loader.exec_module(m)
mv = m.view1(array.array('i', range(5)))
try:
    r = mv[(slice(None),) * 60]
    print("returned a view with ndim", r.ndim)
except (IndexError, TypeError) as exc:
    print("raised", type(exc).__name__)
    sys.exit(0)
sys.exit(3)
'''


def build(tmp):
    from Cython.Compiler.Main import compile as cy_compile, CompilationOptions, default_options
    pyx = os.path.join(tmp, "p7_3.pyx")
    with open(pyx, "w") as f:
        f.write(PYX)
    res = cy_compile(pyx, CompilationOptions(default_options, language_level=3))
    if res.num_errors:
        raise SystemExit("cython compilation failed")
    so = os.path.join(tmp, "p7_3" + sysconfig.get_config_var("EXT_SUFFIX"))
    subprocess.check_call(["gcc", "-O1", "-w", "-shared", "-fPIC", "-fno-strict-overflow",
                           "-I", sysconfig.get_paths()["include"],
                           os.path.join(tmp, "p7_3.c"), "-o", so])
    spec = importlib.util.spec_from_file_location("p7_3", so)
    mod = importlib.util.module_from_spec(spec)
    spec.loader.exec_module(mod)
    return mod, so


def describe(f):
    try:
        r = f()
    except Exception as exc:
        return ("exc", type(exc).__name__)
    import numpy as np
    if isinstance(r, np.generic):
        return ("value", r.item())
    if hasattr(r, "ndim") and hasattr(r, "shape"):
        try:
            content = np.asarray(r).tolist()
        except Exception as exc:
            content = "<%s on export>" % type(exc).__name__
        if r.ndim == 0:
            return ("value", content)   # 0-dim view: compare as the element it refers to
        return ("view", "ndim=%d" % r.ndim, "shape=%r" % (tuple(r.shape),), content)
    return ("value", r)


def main():
    import numpy as np
    tmp = tempfile.mkdtemp(prefix="probe_P7_3_")
    bad = 0
    try:
        m, so = build(tmp)
        a1 = np.arange(5, dtype=np.intc)
        a2 = np.arange(12, dtype=np.intc).reshape(3, 4)
        mv1, mv2 = m.view1(a1), m.view2(a2)
        E = Ellipsis
        S = slice(None)
        cases = [
            (mv1, a1, (S, S)),
            (mv1, a1, (slice(0, 2), slice(0, 1))),
            (mv1, a1, (S,) * 9),
            (mv1, a1, (E, 0, 0)),
            (mv1, a1, (0, 0, E)),
            (mv1, a1, (E, 2, 1)),
            (mv2, a2, (S, S, S)),
            (mv2, a2, (E, 0, 0, 0)),
            (mv2, a2, (0, E, 0, 0)),
            (mv2, a2, (E, 1, 2, 1)),
            (mv2, a2, (1, 2)),          # control
            (mv2, a2, (E, 1)),          # control
        ]
        for mv, arr, idx in cases:
            got = describe(lambda: mv[idx])
            exp_np = describe(lambda: arr[idx])
            exp_py = describe(lambda: memoryview(arr)[idx])
            ok = (got[0] == "exc" and exp_np[0] == "exc") or \
                 (got[0] == "value" and exp_np[0] == "value" and got[1] == exp_np[1]) or \
                 (got[0] == "view" and exp_np[0] == "view" and got == exp_np)
            if ok:
                print("ok   ndim=%d mv[%r] -> %r" % (arr.ndim, idx, got))
            else:
                bad += 1
                print("DIFF ndim=%d mv[%r]" % (arr.ndim, idx))
                print("     NumPy             :", exp_np)
                print("     CPython memoryview:", exp_py)
                print("     Cython memoryview :", got)
        got = describe(lambda: m.index_in_module(a1, (E, 0, 0)))
        if got[0] != "exc":
            bad += 1
            print("DIFF (<object> a)[..., 0, 0] inside the compiled module ->", got, "(expected IndexError)")

        # 60 slices: run in a child process, the stack of memview_slice() is overwritten
        child = os.path.join(tmp, "child.py")
        with open(child, "w") as f:
            f.write(CRASH_CHILD)
        env = dict(os.environ, PYTHONPATH=ROOT)
        p = subprocess.run([sys.executable, child, so], env=env, stdout=subprocess.PIPE,
                           stderr=subprocess.STDOUT, universal_newlines=True)
        if p.returncode != 0:
            bad += 1
            print("DIFF 1-dim mv[(slice(None),) * 60]: child exit status %d%s (expected IndexError/TypeError); output: %r"
                  % (p.returncode, " = killed by signal %d" % -p.returncode if p.returncode < 0 else "",
                     p.stdout.strip()[-200:]))
        else:
            print("ok   1-dim mv[(slice(None),) * 60] ->", p.stdout.strip())
    finally:
        shutil.rmtree(tmp, ignore_errors=True)
    print("%d differing case(s)" % bad)
    return 1 if bad else 0


if __name__ == "__main__":
    sys.exit(main())
