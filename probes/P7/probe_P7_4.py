#!/usr/bin/env python
"""
Probe P7/4 (property C16): an UNSIGNED C index / slice bound >= 2**63 is converted to
Py_ssize_t (MemoryViewIndexNode.analyse_types: index.coerce_to(c_py_ssize_t_type)) before
it reaches the slicing code (SliceIndex / ToughSlice templates,
__pyx_memoryview_slice_memviewslice).  It thereby becomes a small NEGATIVE number and is
"wrapped around":

    def row(int[:, :] a, size_t i):  return a[i]       # i = 2**64-1  -> last row
    def tail(int[:] a, size_t s):    return a[s:]      # s = 2**64-1  -> a[-1:]

CPython / NumPy: a[2**64-1] -> IndexError, a[2**64-1:] -> empty.  Full element indexing
(int[:] a; a[i] with size_t i) is handled correctly (unsigned compare against shape) and
is used as control.

Run as:  /venv/bin/python probe_P7_4.py      (from the worktree root)
Exit status 1 if the defect is present, 0 otherwise.
"""
import os, sys, shutil, subprocess, sysconfig, tempfile, importlib.util

ROOT = os.path.dirname(os.path.abspath(__file__))
sys.path.insert(0, ROOT)

PYX = r'''
# cython: language_level=3
def row(int[:, :] a, size_t i):
    return a[i]
def row_ull(int[:, :] a, unsigned long long i):
    return a[i]
def col(int[:, :] a, size_t j):
    return a[:, j]
def set_row(int[:, :] a, size_t i, int v):
    a[i] = v
def set_row_from(int[:, :] a, size_t i, int[:] src):
    a[i, :] = src
def tail(int[:] a, size_t s):
    return a[s:]
def head(int[:] a, size_t e):
    return a[:e]
def stepped(int[:] a, size_t st):
    return a[::st]
def elem(int[:] a, size_t i):          # control: full indexing is correct
    return a[i]
def elem2(int[:, :] a, size_t i, size_t j):   # control
    return a[i, j]
'''


def build(tmp):
    from Cython.Compiler.Main import compile as cy_compile, CompilationOptions, default_options
    pyx = os.path.join(tmp, "p7_4.pyx")
    with open(pyx, "w") as f:
        f.write(PYX)
    res = cy_compile(pyx, CompilationOptions(default_options, language_level=3))
    if res.num_errors:
        raise SystemExit("cython compilation failed")
    so = os.path.join(tmp, "p7_4" + sysconfig.get_config_var("EXT_SUFFIX"))
    subprocess.check_call(["gcc", "-O1", "-w", "-shared", "-fPIC", "-fno-strict-overflow",
                           "-I", sysconfig.get_paths()["include"],
                           os.path.join(tmp, "p7_4.c"), "-o", so])
    spec = importlib.util.spec_from_file_location("p7_4", so)
    mod = importlib.util.module_from_spec(spec)
    spec.loader.exec_module(mod)
    return mod


def main():
    import numpy as np
    tmp = tempfile.mkdtemp(prefix="probe_P7_4_")
    bad = 0

    def outcome(f, state=None):
        try:
            r = f()
            if r is not None:
                r = np.asarray(r)
                r = r.item() if r.ndim == 0 else r.tolist()
            res = ("ok", r)
        except Exception as exc:
            res = ("exc", type(exc).__name__)
        if state is not None:
            res += (state.tolist(),)
        return res

    try:
        m = build(tmp)
        U = 2 ** 64
        big = [U - 1, U - 2, U - 3, U - 4, 2 ** 63, 2 ** 63 + 1]

        def a1():
            return np.arange(10, 15, dtype=np.intc)

        def a2():
            return np.arange(12, dtype=np.intc).reshape(3, 4)

        checks = []
        for v in big:
            checks += [
                ("int[:, :] a; size_t i=%d;  a[i]" % v, lambda v=v: outcome(lambda: m.row(a2(), v)),
                 lambda v=v: outcome(lambda: a2()[v])),
                ("int[:, :] a; unsigned long long i=%d;  a[i]" % v, lambda v=v: outcome(lambda: m.row_ull(a2(), v)),
                 lambda v=v: outcome(lambda: a2()[v])),
                ("int[:, :] a; size_t j=%d;  a[:, j]" % v, lambda v=v: outcome(lambda: m.col(a2(), v)),
                 lambda v=v: outcome(lambda: a2()[:, v])),
                ("int[:] a; size_t s=%d;  a[s:]" % v, lambda v=v: outcome(lambda: m.tail(a1(), v)),
                 lambda v=v: outcome(lambda: a1()[v:])),
                ("int[:] a; size_t e=%d;  a[:e]" % v, lambda v=v: outcome(lambda: m.head(a1(), v)),
                 lambda v=v: outcome(lambda: a1()[:v])),
                ("int[:] a; size_t st=%d;  a[::st]" % v, lambda v=v: outcome(lambda: m.stepped(a1(), v)),
                 lambda v=v: outcome(lambda: a1()[::v])),
                ("(control) int[:] a; size_t i=%d;  a[i]" % v, lambda v=v: outcome(lambda: m.elem(a1(), v)),
                 lambda v=v: outcome(lambda: a1()[v])),
                ("(control) int[:, :] a; size_t i=%d;  a[i, 0]" % v, lambda v=v: outcome(lambda: m.elem2(a2(), v, 0)),
                 lambda v=v: outcome(lambda: a2()[v, 0])),
            ]

            def set_cy(v=v):
                x = a2()
                return outcome(lambda: m.set_row(x, v, 77), x)

            def set_np(v=v):
                x = a2()
                return outcome(lambda: x.__setitem__(v, 77), x)
            checks.append(("int[:, :] a; size_t i=%d;  a[i] = 77" % v, set_cy, set_np))

            def setf_cy(v=v):
                x = a2()
                return outcome(lambda: m.set_row_from(x, v, np.full(4, 55, dtype=np.intc)), x)

            def setf_np(v=v):
                x = a2()
                return outcome(lambda: x.__setitem__((v, slice(None)), np.full(4, 55, dtype=np.intc)), x)
            checks.append(("int[:, :] a; size_t i=%d;  a[i, :] = src" % v, setf_cy, setf_np))

        for name, cy, ref in checks:
            got, exp = cy(), ref()
            # NumPy reports an index that does not fit into a C long as OverflowError or
            # IndexError depending on the code path, CPython's memoryview/list always as
            # IndexError: accept either as "the index was rejected".
            if exp[0] == "exc" and got[0] == "exc" and got[1] in ("IndexError", exp[1]) and got[2:] == exp[2:]:
                continue
            if got != exp:
                bad += 1
                print("DIFF", name)
                print("     expected (NumPy/CPython):", exp)
                print("     actual (Cython)         :", got)
        print("%d checks run" % len(checks))
    finally:
        shutil.rmtree(tmp, ignore_errors=True)
    print("%d differing case(s)" % bad)
    return 1 if bad else 0


if __name__ == "__main__":
    sys.exit(main())
