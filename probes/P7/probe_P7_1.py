#!/usr/bin/env python
"""
Probe P7/1 (property C16): slicing a C-/Fortran-contiguous typed memoryview in a
non-leading (C) / non-trailing (F) dimension keeps the *contiguous* memoryview type
('int[:, ::1]' / 'int[::1, :]'), although the resulting view is not contiguous.
A later scalar assignment through that view ("r[...] = v", "r[:, :] = v") is compiled
to a flat loop over shape[0]*shape[1] consecutive items (MemoryView.ContigSliceIter)
and therefore writes to the WRONG ELEMENTS of the underlying buffer.

Run as:  /venv/bin/python probe_P7_1.py      (from the worktree root)
Exit status 1 if the defect is present, 0 otherwise.
"""
import os, sys, shutil, subprocess, sysconfig, tempfile, importlib.util

ROOT = os.path.dirname(os.path.abspath(__file__))
sys.path.insert(0, ROOT)

PYX = r'''
# cython: language_level=3
cimport cython

def fill_c_typed(int[:, ::1] a, int v):
    cdef int[:, ::1] r = a[:, 1:3]        # accepted: a[:, 1:3] has type int[:, ::1]
    r[...] = v

def fill_c_inferred(int[:, ::1] a, int v):
    r = a[:, 1:3]
    r[:, :] = v
    return cython.typeof(r)

def fill_f_inferred(int[::1, :] a, int v):
    r = a[1:3, :]
    r[:, :] = v
    return cython.typeof(r)

def fill_3d_index(int[:, :, ::1] a, int v):
    cdef int[:, ::1] r = a[:, 0, :]       # middle axis indexed away
    r[...] = v

def fill_3d_slice(int[:, :, ::1] a, int v):
    cdef int[:, :, ::1] r = a[:, :, 1:3]
    r[...] = v

def fill_c_arg(int[:, ::1] a, int v):
    _fill(a[:, 1:3], v)

cdef _fill(int[:, ::1] r, int v):
    r[...] = v

# control: direct slice assignment is compiled with force_strided and is correct
def fill_c_direct(int[:, ::1] a, int v):
    a[:, 1:3] = v
'''


def build(tmp):
    from Cython.Compiler.Main import compile as cy_compile, CompilationOptions, default_options
    pyx = os.path.join(tmp, "p7_1.pyx")
    with open(pyx, "w") as f:
        f.write(PYX)
    res = cy_compile(pyx, CompilationOptions(default_options, language_level=3))
    if res.num_errors:
        raise SystemExit("cython compilation failed")
    so = os.path.join(tmp, "p7_1" + sysconfig.get_config_var("EXT_SUFFIX"))
    subprocess.check_call(["gcc", "-O1", "-w", "-shared", "-fPIC", "-fno-strict-overflow",
                           "-I", sysconfig.get_paths()["include"],
                           os.path.join(tmp, "p7_1.c"), "-o", so])
    spec = importlib.util.spec_from_file_location("p7_1", so)
    mod = importlib.util.module_from_spec(spec)
    spec.loader.exec_module(mod)
    return mod


def main():
    import numpy as np
    tmp = tempfile.mkdtemp(prefix="probe_P7_1_")
    bad = 0
    try:
        m = build(tmp)

        def c2():
            return np.arange(12, dtype=np.intc).reshape(3, 4)

        def c3():
            return np.arange(24, dtype=np.intc).reshape(2, 3, 4)

        cases = [
            ("fill_c_typed    int[:, ::1]    r = a[:, 1:3]; r[...] = 77", m.fill_c_typed, c2,
             lambda x: x.__setitem__((slice(None), slice(1, 3)), 77)),
            ("fill_c_inferred int[:, ::1]    r = a[:, 1:3]; r[:, :] = 77", m.fill_c_inferred, c2,
             lambda x: x.__setitem__((slice(None), slice(1, 3)), 77)),
            ("fill_f_inferred int[::1, :]    r = a[1:3, :]; r[:, :] = 77", m.fill_f_inferred,
             lambda: np.asfortranarray(c2()),
             lambda x: x.__setitem__((slice(1, 3), slice(None)), 77)),
            ("fill_3d_index   int[:, :, ::1] r = a[:, 0, :]; r[...] = 77", m.fill_3d_index, c3,
             lambda x: x.__setitem__((slice(None), 0, slice(None)), 77)),
            ("fill_3d_slice   int[:, :, ::1] r = a[:, :, 1:3]; r[...] = 77", m.fill_3d_slice, c3,
             lambda x: x.__setitem__((Ellipsis, slice(1, 3)), 77)),
            ("fill_c_arg      pass a[:, 1:3] to cdef f(int[:, ::1] r): r[...] = 77", m.fill_c_arg, c2,
             lambda x: x.__setitem__((slice(None), slice(1, 3)), 77)),
            ("fill_c_direct   (control) a[:, 1:3] = 77", m.fill_c_direct, c2,
             lambda x: x.__setitem__((slice(None), slice(1, 3)), 77)),
        ]
        for name, cyf, mk, ref in cases:
            got = mk()
            exp = mk()
            info = cyf(got, 77)
            ref(exp)
            if not np.array_equal(got, exp):
                bad += 1
                print("DIFF", name)
                if info:
                    print("     static type of the sliced view:", info)
                print("     expected (NumPy):", exp.tolist())
                print("     actual (Cython) :", got.tolist())
            else:
                print("ok  ", name)
    finally:
        shutil.rmtree(tmp, ignore_errors=True)
    print("%d differing case(s)" % bad)
    return 1 if bad else 0


if __name__ == "__main__":
    sys.exit(main())
