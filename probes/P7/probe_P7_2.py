#!/usr/bin/env python
"""
Probe P7/2 (property C16): slice assignment through the memoryview object of a typed
memoryview ("mv[s:e] = other_buffer", memoryview-to-memoryview copy in
View.MemoryView.memoryview.__setitem__ -> setitem_slice_assignment ->
memoryview_copy_contents) never compares the item size / format of the source buffer
with the destination.  The copy is done with the SOURCE itemsize, so a source with a
larger itemsize writes beyond the target slice (out-of-bounds write; heap overflow when
the slice is at the end of the buffer), and a source of equal size but different format
is copied bit-for-bit.

CPython's memoryview raises ValueError for all these, NumPy converts the values.

Run as:  /venv/bin/python probe_P7_2.py      (from the worktree root)
Exit status 1 if the defect is present, 0 otherwise.
"""
import os, sys, shutil, subprocess, sysconfig, tempfile, importlib.util, array

ROOT = os.path.dirname(os.path.abspath(__file__))
sys.path.insert(0, ROOT)

PYX = r'''
# cython: language_level=3
def view(int[:] a):
    return a              # typed memoryview -> memoryview object

def assign(int[:] a, Py_ssize_t s, Py_ssize_t e, src):
    o = <object> a
    o[s:e] = src          # done inside the compiled module
'''


def build(tmp):
    from Cython.Compiler.Main import compile as cy_compile, CompilationOptions, default_options
    pyx = os.path.join(tmp, "p7_2.pyx")
    with open(pyx, "w") as f:
        f.write(PYX)
    res = cy_compile(pyx, CompilationOptions(default_options, language_level=3))
    if res.num_errors:
        raise SystemExit("cython compilation failed")
    so = os.path.join(tmp, "p7_2" + sysconfig.get_config_var("EXT_SUFFIX"))
    subprocess.check_call(["gcc", "-O1", "-w", "-shared", "-fPIC", "-fno-strict-overflow",
                           "-I", sysconfig.get_paths()["include"],
                           os.path.join(tmp, "p7_2.c"), "-o", so])
    spec = importlib.util.spec_from_file_location("p7_2", so)
    mod = importlib.util.module_from_spec(spec)
    spec.loader.exec_module(mod)
    return mod


def outcome(f, buf):
    try:
        f()
        return ("ok", list(buf))
    except Exception as exc:
        return ("exc", type(exc).__name__, list(buf))


def main():
    try:
        import numpy as np
    except ImportError:
        np = None
    tmp = tempfile.mkdtemp(prefix="probe_P7_2_")
    bad = 0
    try:
        m = build(tmp)
        sources = [
            ("array.array('q', [8, 9])   (itemsize 8 -> int view)", lambda: array.array('q', [8, 9])),
            ("array.array('d', [8., 9.]) (itemsize 8 -> int view)", lambda: array.array('d', [8.0, 9.0])),
            ("array.array('f', [8., 9.]) (same size, other format)", lambda: array.array('f', [8.0, 9.0])),
            ("array.array('h', [8, 9])   (itemsize 2 -> int view)", lambda: array.array('h', [8, 9])),
            ("bytearray(b'ab')           (itemsize 1 -> int view)", lambda: bytearray(b'ab')),
            ("array.array('i', [8, 9])   (control, same format)", lambda: array.array('i', [8, 9])),
        ]
        if np is not None:
            sources.insert(2, ("numpy.int64(7)             (0-dim, itemsize 8)", lambda: np.int64(7)))

        for via in ("python", "compiled"):
            for label, mk in sources:
                # only elements 0 and 1 are the target; 2..5 must never change
                a_cy = array.array('i', [0, 1, 2, 3, 4, 5])
                a_py = array.array('i', [0, 1, 2, 3, 4, 5])
                src = mk()
                if via == "python":
                    mv = m.view(a_cy)
                    got = outcome(lambda: mv.__setitem__(slice(0, 2), src), a_cy)
                    del mv
                else:
                    got = outcome(lambda: m.assign(a_cy, 0, 2, src), a_cy)
                pmv = memoryview(a_py)
                exp = outcome(lambda: pmv.__setitem__(slice(0, 2), src), a_py)
                pmv.release()
                npres = None
                if np is not None:
                    a_np = np.arange(6, dtype=np.intc)
                    npres = outcome(lambda: a_np.__setitem__(slice(0, 2), src), a_np.tolist())
                    npres = npres[:-1] + (a_np.tolist(),)
                same_as_py = got[:2] == exp[:2] and got[-1] == exp[-1]
                same_as_np = npres is not None and got[:2] == npres[:2] and got[-1] == npres[-1]
                if same_as_py or same_as_np:
                    print("ok   [%s] mv[0:2] = %s -> %r" % (via, label, got))
                else:
                    bad += 1
                    outside = got[-1][2:] != [2, 3, 4, 5]
                    print("DIFF [%s] mv[0:2] = %s" % (via, label))
                    print("     CPython memoryview:", exp)
                    print("     NumPy             :", npres)
                    print("     Cython memoryview :", got,
                          "<-- wrote OUTSIDE the target slice" if outside else "")
    finally:
        shutil.rmtree(tmp, ignore_errors=True)
    print("%d differing case(s)" % bad)
    return 1 if bad else 0


if __name__ == "__main__":
    sys.exit(main())
