#!/usr/bin/env python
"""
Probe P7/5 (property C16): slice bounds / steps outside the Py_ssize_t range are not
clamped but raise OverflowError, and an out-of-range integer index raises OverflowError
instead of IndexError.

  * memoryview object (View.MemoryView.memview_slice):  "start = index.start or 0" etc.
    assign the Python ints straight to "cdef Py_ssize_t start, stop, step".
  * compiled typed code with Python-object bounds ("a[s:e:st]" with untyped s, e, st):
    MemoryViewIndexNode.analyse_types coerces every bound with coerce_to(Py_ssize_t);
    for the same reason a bound that is None at run time raises TypeError.

CPython (PySlice_Unpack / _PyEval_SliceIndex) and NumPy clamp such bounds:
    a[0:2**63] == a[:],  a[-2**70:] == a[:],  a[::2**64] == a[:1],  a[2**63] -> IndexError.

Run as:  /venv/bin/python probe_P7_5.py      (from the worktree root)
Exit status 1 if the defect is present, 0 otherwise.
"""
import os, sys, shutil, subprocess, sysconfig, tempfile, importlib.util, array

ROOT = os.path.dirname(os.path.abspath(__file__))
sys.path.insert(0, ROOT)

PYX = r'''
# cython: language_level=3
def view(int[:] a):
    return a
def typed_slice(int[:] a, s, e, st):
    return a[s:e:st]
def typed_slice2(int[:] a, s, e):
    return a[s:e]
def typed_index(int[:] a, i):
    return a[i]
'''


def build(tmp):
    from Cython.Compiler.Main import compile as cy_compile, CompilationOptions, default_options
    pyx = os.path.join(tmp, "p7_5.pyx")
    with open(pyx, "w") as f:
        f.write(PYX)
    res = cy_compile(pyx, CompilationOptions(default_options, language_level=3))
    if res.num_errors:
        raise SystemExit("cython compilation failed")
    so = os.path.join(tmp, "p7_5" + sysconfig.get_config_var("EXT_SUFFIX"))
    subprocess.check_call(["gcc", "-O1", "-w", "-shared", "-fPIC", "-fno-strict-overflow",
                           "-I", sysconfig.get_paths()["include"],
                           os.path.join(tmp, "p7_5.c"), "-o", so])
    spec = importlib.util.spec_from_file_location("p7_5", so)
    mod = importlib.util.module_from_spec(spec)
    spec.loader.exec_module(mod)
    return mod


def outcome(f):
    try:
        r = f()
        if isinstance(r, int):
            return ("ok", r)
        return ("ok", list(memoryview(r)) if not isinstance(r, memoryview) else r.tolist())
    except Exception as exc:
        return ("exc", type(exc).__name__)


def main():
    tmp = tempfile.mkdtemp(prefix="probe_P7_5_")
    bad = 0
    shown = 0
    try:
        m = build(tmp)
        a = array.array('i', [10, 11, 12, 13, 14])
        pm = memoryview(a)
        mv = m.view(a)
        B = [None, 0, 2, -2, 2 ** 63 - 1, -2 ** 63, 2 ** 63, -2 ** 63 - 1, 2 ** 64, -2 ** 70]
        ST = [None, 1, -1, 2 ** 63 - 1, -2 ** 63, 2 ** 63, -2 ** 63 - 1, 2 ** 70]
        n = 0
        for s in B:
            for e in B:
                for st in ST:
                    sl = slice(s, e, st)
                    exp = outcome(lambda: pm[sl])
                    tests = [("memoryview object  mv[%r:%r:%r]" % (s, e, st), outcome(lambda: mv[sl]))]
                    if None not in (s, e, st):
                        tests.append(("typed  a[s:e:st] with s,e,st = %r,%r,%r" % (s, e, st),
                                      outcome(lambda: m.typed_slice(a, s, e, st))))
                    for name, got in tests:
                        n += 1
                        if got != exp:
                            bad += 1
                            if shown < 25:
                                shown += 1
                                print("DIFF %s\n     expected (CPython) %r   actual (Cython) %r" % (name, exp, got))
        # None passed at run time to compiled typed code
        for s, e in [(None, None), (1, None), (None, 3)]:
            n += 1
            exp = outcome(lambda: pm[s:e])
            got = outcome(lambda: m.typed_slice2(a, s, e))
            if got != exp:
                bad += 1
                print("DIFF typed  a[s:e] with s,e = %r,%r\n     expected (CPython) %r   actual (Cython) %r"
                      % (s, e, exp, got))
        # out-of-range integer index: IndexError expected
        for i in [2 ** 63 - 1, -2 ** 63, 2 ** 63, -2 ** 63 - 1, 2 ** 64, -2 ** 70]:
            exp = outcome(lambda: pm[i])
            for name, got in [("memoryview object  mv[%d]" % i, outcome(lambda: mv[i])),
                              ("typed  a[i] with object i = %d" % i, outcome(lambda: m.typed_index(a, i)))]:
                n += 1
                if got != exp:
                    bad += 1
                    print("DIFF %s\n     expected (CPython) %r   actual (Cython) %r" % (name, exp, got))
        print("%d checks run" % n)
        del mv
        pm.release()
    finally:
        shutil.rmtree(tmp, ignore_errors=True)
    print("%d differing case(s)%s" % (bad, " (first 25 slice cases shown)" if bad > 25 else ""))
    return 1 if bad else 0


if __name__ == "__main__":
    sys.exit(main())
