import sys, os, subprocess, sysconfig, tempfile, shutil, importlib.util, textwrap, warnings
warnings.simplefilter('ignore')
ROOT = os.path.dirname(os.path.abspath(__file__))
sys.path.insert(0, ROOT)


def build(name, src, workdir):
    """Compile `src` (Cython source) with the compiler in this worktree and import it."""
    from Cython.Compiler.Main import compile as cy_compile, CompilationOptions, default_options
    pyx = os.path.join(workdir, name + '.pyx')
    with open(pyx, 'w') as f:
        f.write(src)
    res = cy_compile(pyx, CompilationOptions(default_options, language_level=3))
    if res.num_errors:
        raise RuntimeError('Cython compilation failed')
    so = os.path.join(workdir, name + sysconfig.get_config_var('EXT_SUFFIX'))
    cc = os.environ.get('CC', 'gcc')
    subprocess.check_call([cc, '-O1', '-shared', '-fPIC', '-w', '-fno-strict-overflow',
                           '-I' + sysconfig.get_paths()['include'],
                           os.path.join(workdir, name + '.c'), '-o', so])
    spec = importlib.util.spec_from_file_location(name, so)
    mod = importlib.util.module_from_spec(spec)
    spec.loader.exec_module(mod)
    return mod


def outcome(f, *args):
    try:
        return ('ok', f(*args))
    except BaseException as e:
        return ('exc', type(e).__name__)

# Defect 6: 'f(x) in c_array' / 'f(x) in ptr[:n]' (membership test against a C array or sliced pointer).
# IterationTransform.visit_PrimaryCmpNode() expands the test into a C loop and re-uses the LEFT operand
# node inside the loop body, so the left operand is evaluated once PER ELEMENT visited (and not at all
# when the slice is empty) instead of exactly once as in 'f(x) in [5, 6, 7, 8]'.

SRC = '''
LOG = []
cdef int c_value(v) except? -1:
    LOG.append(v)
    return v
def py_value(v):
    LOG.append(v)
    return v

def in_array(v):
    cdef int arr[4]
    arr[0], arr[1], arr[2], arr[3] = 5, 6, 7, 8
    del LOG[:]
    r = c_value(v) in arr
    return r, list(LOG)

def obj_in_array(v):
    cdef int arr[4]
    arr[0], arr[1], arr[2], arr[3] = 5, 6, 7, 8
    del LOG[:]
    r = py_value(v) in arr
    return r, list(LOG)

def notin_array(v):
    cdef int arr[4]
    arr[0], arr[1], arr[2], arr[3] = 5, 6, 7, 8
    del LOG[:]
    r = c_value(v) not in arr
    return r, list(LOG)

def in_slice(v, int n):
    cdef int arr[4]
    cdef int* p = arr
    arr[0], arr[1], arr[2], arr[3] = 5, 6, 7, 8
    del LOG[:]
    r = py_value(v) in p[:n]
    return r, list(LOG)
'''

PY_LOG = []


def py_value(v):
    PY_LOG.append(v)
    return v


def py_ref(v, n=4, negate=False):
    del PY_LOG[:]
    r = py_value(v) in [5, 6, 7, 8][:n]
    return (not r if negate else r), list(PY_LOG)


def main():
    workdir = tempfile.mkdtemp(prefix='probe_P4_6_')
    try:
        m = build('p6', SRC, workdir)
    finally:
        shutil.rmtree(workdir, ignore_errors=True)
    bad = 0
    cases = [('in_array', (8,), py_ref(8)), ('in_array', (6,), py_ref(6)), ('in_array', (1,), py_ref(1)),
             ('obj_in_array', (8,), py_ref(8)), ('notin_array', (1,), py_ref(1, negate=True)),
             ('in_slice', (7, 4), py_ref(7, 4)), ('in_slice', (7, 0), py_ref(7, 0))]
    for name, args, expected in cases:
        got = getattr(m, name)(*args)
        if got != expected:
            bad += 1
            print('DIFF %-13s args=%-7r CPython (result, evaluations of left operand)=%r  Cython=%r' % (name, args, expected, got))
        else:
            print('ok   %-13s args=%-7r %r' % (name, args, got))
    print('defect present' if bad else 'defect not present', '(%d differing cases)' % bad)
    return 1 if bad else 0


if __name__ == '__main__':
    sys.exit(main())
