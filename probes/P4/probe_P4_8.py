import sys, os, subprocess, sysconfig, tempfile, shutil, importlib.util, textwrap, warnings
warnings.simplefilter('ignore')
ROOT = os.path.dirname(os.path.abspath(__file__))
sys.path.insert(0, ROOT)


def build(name, src, workdir):
    """Compile `src` (Cython source) with the compiler in this worktree and import it."""
    from Cython.Compiler.Main import compile as cy_compile, CompilationOptions, default_options
    pyx = os.path.join(workdir, name + '.pyx')
    with open(pyx, 'w') as f:
        f.write(src)
    res = cy_compile(pyx, CompilationOptions(default_options, language_level=3))
    if res.num_errors:
        raise RuntimeError('Cython compilation failed')
    so = os.path.join(workdir, name + sysconfig.get_config_var('EXT_SUFFIX'))
    cc = os.environ.get('CC', 'gcc')
    subprocess.check_call([cc, '-O1', '-shared', '-fPIC', '-w', '-fno-strict-overflow',
                           '-I' + sysconfig.get_paths()['include'],
                           os.path.join(workdir, name + '.c'), '-o', so])
    spec = importlib.util.spec_from_file_location(name, so)
    mod = importlib.util.module_from_spec(spec)
    spec.loader.exec_module(mod)
    return mod


def outcome(f, *args):
    try:
        return ('ok', f(*args))
    except BaseException as e:
        return ('exc', type(e).__name__)

# Observation 8 (C semantics, possibly by design): comparisons between two C integers of different
# signedness are emitted as a plain C comparison.  C's "usual arithmetic conversions" convert the signed
# operand to unsigned when the unsigned type has the same or a higher rank, so -1 < 1u is false and
# -1 == UINT_MAX is true.  CPython compares the mathematical values.  Mixed int/float comparisons lose
# precision the same way (2**53+1 == 2.0**53 is true for 'long' vs 'double').
import operator

TYPES = {'sc': 'signed char', 's': 'short', 'i': 'int', 'l': 'long', 'ui': 'unsigned int',
         'ul': 'unsigned long', 'sz': 'size_t', 'd': 'double'}
OPS = {'lt': '<', 'eq': '==', 'gt': '>'}
PAIRS = [('i', 'ui'), ('sc', 'ui'), ('s', 'ul'), ('l', 'ul'), ('l', 'sz'), ('i', 'sz'), ('ui', 'i'), ('l', 'd')]


def main():
    lines = []
    for t1, t2 in PAIRS:
        for on, o in OPS.items():
            lines.append('def f_%s_%s_%s(%s a, %s b): return a %s b' % (t1, t2, on, TYPES[t1], TYPES[t2], o))
    lines.append('def chain(int a, unsigned int b, int c): return a < b < c')
    workdir = tempfile.mkdtemp(prefix='probe_P4_8_')
    try:
        m = build('p8', '\n'.join(lines), workdir)
    finally:
        shutil.rmtree(workdir, ignore_errors=True)
    pyops = {'lt': operator.lt, 'eq': operator.eq, 'gt': operator.gt}
    values = {('i', 'ui'): [(-1, 1), (-1, 2**32 - 1)], ('sc', 'ui'): [(-1, 0)], ('s', 'ul'): [(-1, 2**64 - 1), (-5, 3)],
              ('l', 'ul'): [(-1, 1), (-1, 2**64 - 1)], ('l', 'sz'): [(-1, 0)], ('i', 'sz'): [(-1, 10)],
              ('ui', 'i'): [(1, -1)], ('l', 'd'): [(2**53 + 1, 2.0**53)]}
    bad = 0
    for (t1, t2), vals in values.items():
        for a, b in vals:
            for on, pf in pyops.items():
                e = pf(a, b)
                g = getattr(m, 'f_%s_%s_%s' % (t1, t2, on))(a, b)
                if e != g:
                    bad += 1
                    print('DIFF (%s) %r %s (%s) %r   CPython=%r  Cython=%r' % (TYPES[t1], a, OPS[on], TYPES[t2], b, e, g))
    e, g = (-1 < 0 < 5), m.chain(-1, 0, 5)
    if e != g:
        bad += 1
        print('DIFF chain (int)-1 < (unsigned int)0 < (int)5   CPython=%r  Cython=%r' % (e, g))
    print('divergence present' if bad else 'divergence not present', '(%d differing cases)' % bad)
    return 1 if bad else 0


if __name__ == '__main__':
    sys.exit(main())
