import sys, os, subprocess, sysconfig, tempfile, shutil, importlib.util, textwrap, warnings
warnings.simplefilter('ignore')
ROOT = os.path.dirname(os.path.abspath(__file__))
sys.path.insert(0, ROOT)


def build(name, src, workdir):
    """Compile `src` (Cython source) with the compiler in this worktree and import it."""
    from Cython.Compiler.Main import compile as cy_compile, CompilationOptions, default_options
    pyx = os.path.join(workdir, name + '.pyx')
    with open(pyx, 'w') as f:
        f.write(src)
    res = cy_compile(pyx, CompilationOptions(default_options, language_level=3))
    if res.num_errors:
        raise RuntimeError('Cython compilation failed')
    so = os.path.join(workdir, name + sysconfig.get_config_var('EXT_SUFFIX'))
    cc = os.environ.get('CC', 'gcc')
    subprocess.check_call([cc, '-O1', '-shared', '-fPIC', '-w', '-fno-strict-overflow',
                           '-I' + sysconfig.get_paths()['include'],
                           os.path.join(workdir, name + '.c'), '-o', so])
    spec = importlib.util.spec_from_file_location(name, so)
    mod = importlib.util.module_from_spec(spec)
    spec.loader.exec_module(mod)
    return mod


def outcome(f, *args):
    try:
        return ('ok', f(*args))
    except BaseException as e:
        return ('exc', type(e).__name__)

# Defect 5: a chained comparison whose value is used as an object ('r = a < b < c', 'return a < b < c')
# tests the truth of every intermediate result with  'if (__Pyx_PyObject_IsTrue(t)) {'  and ignores the
# error return (-1).  If bool(a < b) raises (numpy arrays, pandas objects, any __bool__ that raises),
# CPython propagates that exception and stops.  The Cython code treats -1 as "true", goes on to evaluate
# the NEXT link with the exception still set (an extra, observable comparison call) and finally fails with
# SystemError('... returned a result with an exception set') instead of the original exception.

SRC = '''
def chain3(a, b, c):        return a < b < c
def chain4(a, b, c, d):     return a < b <= c != d
def chain_eq(a, b, c):
    r = a == b == c
    return r
def chain_calls(f, a, b, c): return f(a) < f(b) < f(c)
'''

LOG = []


class Ambiguous:
    """Result object whose truth value is undefined, like a numpy array."""
    def __init__(self, name):
        self.name = name

    def __bool__(self):
        LOG.append('bool(%s)' % self.name)
        raise ValueError('truth value of %s is ambiguous' % self.name)


class V:
    def __init__(self, name):
        self.name = name

    def _cmp(self, op, other):
        LOG.append('%s %s %s' % (self.name, op, getattr(other, 'name', other)))
        return Ambiguous('(%s %s %s)' % (self.name, op, getattr(other, 'name', other)))

    def __lt__(self, o): return self._cmp('<', o)
    def __le__(self, o): return self._cmp('<=', o)
    def __eq__(self, o): return self._cmp('==', o)
    def __ne__(self, o): return self._cmp('!=', o)
    __hash__ = None


def ident(x):
    LOG.append('eval %s' % x.name)
    return x


def traced(f, *args):
    del LOG[:]
    try:
        r = ('ok', type(f(*args)).__name__)
    except BaseException as e:
        r = ('exc', type(e).__name__)
    return r, list(LOG)


def main():
    workdir = tempfile.mkdtemp(prefix='probe_P4_5_')
    try:
        m = build('p5', SRC, workdir)
    finally:
        shutil.rmtree(workdir, ignore_errors=True)
    ns = {}
    exec(compile(SRC, 'py', 'exec'), ns)
    a, b, c, d = V('a'), V('b'), V('c'), V('d')
    bad = 0
    for name, args in [('chain3', (a, b, c)), ('chain4', (a, b, c, d)), ('chain_eq', (a, b, c)),
                       ('chain_calls', (ident, a, b, c))]:
        e = traced(ns[name], *args)
        g = traced(getattr(m, name), *args)
        if e != g:
            bad += 1
            print('DIFF %s' % name)
            print('     CPython: %r  trace=%r' % e)
            print('     Cython : %r  trace=%r' % g)
        else:
            print('ok   %s' % name)
    print('defect present' if bad else 'defect not present', '(%d differing cases)' % bad)
    return 1 if bad else 0


if __name__ == '__main__':
    sys.exit(main())
