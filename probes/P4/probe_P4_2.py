import sys, os, subprocess, sysconfig, tempfile, shutil, importlib.util, textwrap, warnings
warnings.simplefilter('ignore')
ROOT = os.path.dirname(os.path.abspath(__file__))
sys.path.insert(0, ROOT)


def build(name, src, workdir):
    """Compile `src` (Cython source) with the compiler in this worktree and import it."""
    from Cython.Compiler.Main import compile as cy_compile, CompilationOptions, default_options
    pyx = os.path.join(workdir, name + '.pyx')
    with open(pyx, 'w') as f:
        f.write(src)
    res = cy_compile(pyx, CompilationOptions(default_options, language_level=3))
    if res.num_errors:
        raise RuntimeError('Cython compilation failed')
    so = os.path.join(workdir, name + sysconfig.get_config_var('EXT_SUFFIX'))
    cc = os.environ.get('CC', 'gcc')
    subprocess.check_call([cc, '-O1', '-shared', '-fPIC', '-w', '-fno-strict-overflow',
                           '-I' + sysconfig.get_paths()['include'],
                           os.path.join(workdir, name + '.c'), '-o', so])
    spec = importlib.util.spec_from_file_location(name, so)
    mod = importlib.util.module_from_spec(spec)
    spec.loader.exec_module(mod)
    return mod


def outcome(f, *args):
    try:
        return ('ok', f(*args))
    except BaseException as e:
        return ('exc', type(e).__name__)

# Defect 2: 'not (a is b is c)', 'not (a in b in c)', 'not (a is not None == b)' ...
# ConstantFolding._handle_NotNode() folds 'not (x in y)' into 'x not in y' (and 'is' -> 'is not')
# by flipping the operator of the PrimaryCmpNode, but it does not check that the comparison is a
# CHAIN.  For a chain only the first link is negated:  not (a is b is c)  becomes  a is not b is c.
import itertools

SRC = '''
def n_is_is(a, b, c):      return not (a is b is c)
def n_is_none(a, b):       return not (a is b is None)
def n_in_in(a, b, c):      return not (a in b in c)
def n_isnot_eq(a, b):      return not (a is not None == b)
def n_notin_eq(a, b, c):   return not (a not in b == c)
def n_is_lt(a, b, c):      return not (a is b < c)
def n_if(a, b, c):
    if not (a is b is c):
        return 'not all same'
    return 'all same'
def n_cond(a, b, c):       return 'y' if not (a in b in c) else 'n'
def n_while(a, b, c):
    n = 0
    while not (a is b is c) and n < 3:
        n += 1
    return n
'''


def main():
    workdir = tempfile.mkdtemp(prefix='probe_P4_2_')
    try:
        m = build('p2', SRC, workdir)
    finally:
        shutil.rmtree(workdir, ignore_errors=True)
    ns = {}
    exec(compile(SRC, 'py', 'exec'), ns)
    vals = [None, 1, 2, 'a', 'ab', (1, 2), [1, (1, 2)], [[1, (1, 2)]], True]
    total = bad = 0
    for name, nargs in [('n_is_is', 3), ('n_is_none', 2), ('n_in_in', 3), ('n_isnot_eq', 2), ('n_notin_eq', 3),
                        ('n_is_lt', 3), ('n_if', 3), ('n_cond', 3), ('n_while', 3)]:
        shown = 0
        nbad = 0
        for args in itertools.product(vals, repeat=nargs):
            total += 1
            e = outcome(ns[name], *args)
            g = outcome(getattr(m, name), *args)
            if repr(e) != repr(g):
                nbad += 1
                if shown < 3:
                    shown += 1
                    print('DIFF %-11s args=%-28r CPython=%r  Cython=%r' % (name, args, e, g))
        print('%-11s: %d differing argument tuples' % (name, nbad))
        bad += nbad
    print('defect present' if bad else 'defect not present', '(%d of %d cases differ)' % (bad, total))
    return 1 if bad else 0


if __name__ == '__main__':
    sys.exit(main())
