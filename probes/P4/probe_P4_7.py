import sys, os, subprocess, sysconfig, tempfile, shutil, importlib.util, textwrap, warnings
warnings.simplefilter('ignore')
ROOT = os.path.dirname(os.path.abspath(__file__))
sys.path.insert(0, ROOT)


def build(name, src, workdir):
    """Compile `src` (Cython source) with the compiler in this worktree and import it."""
    from Cython.Compiler.Main import compile as cy_compile, CompilationOptions, default_options
    pyx = os.path.join(workdir, name + '.pyx')
    with open(pyx, 'w') as f:
        f.write(src)
    res = cy_compile(pyx, CompilationOptions(default_options, language_level=3))
    if res.num_errors:
        raise RuntimeError('Cython compilation failed')
    so = os.path.join(workdir, name + sysconfig.get_config_var('EXT_SUFFIX'))
    cc = os.environ.get('CC', 'gcc')
    subprocess.check_call([cc, '-O1', '-shared', '-fPIC', '-w', '-fno-strict-overflow',
                           '-I' + sysconfig.get_paths()['include'],
                           os.path.join(workdir, name + '.c'), '-o', so])
    spec = importlib.util.spec_from_file_location(name, so)
    mod = importlib.util.module_from_spec(spec)
    spec.loader.exec_module(mod)
    return mod


def outcome(f, *args):
    try:
        return ('ok', f(*args))
    except BaseException as e:
        return ('exc', type(e).__name__)

# Defect 7: 'x in (a, b)', 'x in [a, b]', 'x in {a, b}' against a LITERAL container are rewritten by
# FlattenInListTransform into 'x == a or x == b' ('x != a and x != b' for 'not in').  That drops
#  (1) the identity shortcut of CPython's containment test  (nan in (nan,) is True in CPython),
#  (2) hashing for set literals  ([1] in {1, 2} must raise TypeError: unhashable type),
#  (3) the operand order of the equality call (CPython calls item == x, i.e. item.__eq__(x) first),
#  (4) for 'not in', CPython negates '==' and never calls __ne__.

SRC = '''
def in_tuple(x, a, b):      return x in (a, b)
def in_list(x, a, b):       return x in [a, b]
def in_set(x, a, b):        return x in {a, b}
def notin_tuple(x, a, b):   return x not in (a, b)
def in_tuple1(x, a):        return x in (a,)
def in_const_set(x):        return x in {1, 2.0, 'a', None}
def notin_const_set(x):     return x not in {1, 2.0, 'a', None}
def in_if(x, a, b):
    if x in (a, b):
        return 'found'
    return 'missing'
'''

LOG = []


class T:
    def __init__(self, name, eq, ne=None):
        self.name, self.eq, self.ne = name, eq, ne

    def __eq__(self, other):
        LOG.append('%s.__eq__' % self.name)
        return self.eq

    def __ne__(self, other):
        LOG.append('%s.__ne__' % self.name)
        return self.ne if self.ne is not None else not self.eq

    def __hash__(self):
        return 1

    def __repr__(self):
        return 'T(%s)' % self.name


def traced(f, *args):
    del LOG[:]
    try:
        r = ('ok', f(*args))
    except BaseException as e:
        r = ('exc', type(e).__name__)
    return r, list(LOG)


def main():
    workdir = tempfile.mkdtemp(prefix='probe_P4_7_')
    try:
        m = build('p7', SRC, workdir)
    finally:
        shutil.rmtree(workdir, ignore_errors=True)
    ns = {}
    exec(compile(SRC, 'py', 'exec'), ns)
    nan = float('nan')
    cases = [
        ('in_tuple', (nan, nan, 2)), ('in_list', (nan, nan, 2)), ('in_set', (nan, nan, 2)), ('in_tuple1', (nan, nan)),
        ('notin_tuple', (nan, nan, 2)), ('in_if', (nan, 1, nan)),
        ('in_const_set', ([1],)), ('notin_const_set', ([1],)), ('in_set', (2, [1], 2)), ('in_set', ([1], 1, 2)),
        ('in_tuple', (T('x', True), T('a', False), T('b', False))),
        ('in_tuple', (T('x', False), T('a', True), T('b', False))),
        ('notin_tuple', (T('x', False, ne=False), T('a', False, ne=False), T('b', False, ne=False))),
    ]
    bad = 0
    for name, args in cases:
        e = traced(ns[name], *args)
        g = traced(getattr(m, name), *args)
        if e != g:
            bad += 1
            print('DIFF %-15s args=%-28r CPython=%r  Cython=%r' % (name, args, e, g))
        else:
            print('ok   %-15s args=%-28r %r' % (name, args, g))
    print('defect present' if bad else 'defect not present', '(%d differing cases)' % bad)
    return 1 if bad else 0


if __name__ == '__main__':
    sys.exit(main())
