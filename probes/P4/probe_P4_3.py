import sys, os, subprocess, sysconfig, tempfile, shutil, importlib.util, textwrap, warnings
warnings.simplefilter('ignore')
ROOT = os.path.dirname(os.path.abspath(__file__))
sys.path.insert(0, ROOT)


def build(name, src, workdir):
    """Compile `src` (Cython source) with the compiler in this worktree and import it."""
    from Cython.Compiler.Main import compile as cy_compile, CompilationOptions, default_options
    pyx = os.path.join(workdir, name + '.pyx')
    with open(pyx, 'w') as f:
        f.write(src)
    res = cy_compile(pyx, CompilationOptions(default_options, language_level=3))
    if res.num_errors:
        raise RuntimeError('Cython compilation failed')
    so = os.path.join(workdir, name + sysconfig.get_config_var('EXT_SUFFIX'))
    cc = os.environ.get('CC', 'gcc')
    subprocess.check_call([cc, '-O1', '-shared', '-fPIC', '-w', '-fno-strict-overflow',
                           '-I' + sysconfig.get_paths()['include'],
                           os.path.join(workdir, name + '.c'), '-o', so])
    spec = importlib.util.spec_from_file_location(name, so)
    mod = importlib.util.module_from_spec(spec)
    spec.loader.exec_module(mod)
    return mod


def outcome(f, *args):
    try:
        return ('ok', f(*args))
    except BaseException as e:
        return ('exc', type(e).__name__)

# Defect 3: SwitchTransform turns  'x == 1 and x == 2'  (x a C integer) into the C switch for
# 'x in (1, 2)', i.e. an AND of equality tests is compiled as an OR.  Also hits mixed forms such as
# 'x == 1 and x in (2, 3)' and '(x == 1 or x == 2) and (x == 2 or x == 3)' nested inside larger conditions.

CY_SRC = '''
def and_eq(int x):            return x == 1 and x == 2
def and_eq_if(int x):
    if x == 1 and x == 2:
        return 'both'
    return 'no'
def and_eq_cond(long x):      return 'y' if (x == 1 and x == 2) else 'n'
def and_eq3(unsigned char x): return x == 1 and x == 2 and x == 3
def and_in(int x):            return x == 1 and x in (2, 3)
def and_in_in(int x):         return x in (1, 2) and x in (3, 4)
def or_and(int x):            return x == 0 or (x == 2 and x == 3)
def elif_and(int x):
    if x == 0:
        return 'zero'
    elif x == 4 and x == 5:
        return 'impossible'
    else:
        return 'other'
def ucs4_and(Py_UCS4 c):      return c in 'ab' and c in 'cd'
def rev_and(int x):           return 1 == x and x == 0
'''
import re
PY_SRC = re.sub(r'\((?:int|long|unsigned char|Py_UCS4) (\w)\)', r'(\1)', CY_SRC)


def main():
    workdir = tempfile.mkdtemp(prefix='probe_P4_3_')
    try:
        m = build('p3', CY_SRC, workdir)
        with open(os.path.join(workdir, 'p3.c')) as f:
            c_code = f.read()
    finally:
        shutil.rmtree(workdir, ignore_errors=True)
    ns = {}
    exec(compile(PY_SRC, 'py', 'exec'), ns)
    print('generated C contains %d switch statements on the tested variable' % c_code.count('switch (__pyx_v_'))
    bad = total = 0
    for name in ['and_eq', 'and_eq_if', 'and_eq_cond', 'and_eq3', 'and_in', 'and_in_in', 'or_and', 'elif_and', 'rev_and', 'ucs4_and']:
        domain = list('abcd') if name == 'ucs4_and' else range(0, 7)
        for x in domain:
            total += 1
            e = outcome(ns[name], x)
            g = outcome(getattr(m, name), x)
            if repr(e) != repr(g):
                bad += 1
                print('DIFF %-12s x=%-4r CPython=%r  Cython=%r' % (name, x, e, g))
    print('defect present' if bad else 'defect not present', '(%d of %d cases differ)' % (bad, total))
    return 1 if bad else 0


if __name__ == '__main__':
    sys.exit(main())
