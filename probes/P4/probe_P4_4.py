import sys, os, subprocess, sysconfig, tempfile, shutil, importlib.util, textwrap, warnings
warnings.simplefilter('ignore')
ROOT = os.path.dirname(os.path.abspath(__file__))
sys.path.insert(0, ROOT)


def build(name, src, workdir):
    """Compile `src` (Cython source) with the compiler in this worktree and import it."""
    from Cython.Compiler.Main import compile as cy_compile, CompilationOptions, default_options
    pyx = os.path.join(workdir, name + '.pyx')
    with open(pyx, 'w') as f:
        f.write(src)
    res = cy_compile(pyx, CompilationOptions(default_options, language_level=3))
    if res.num_errors:
        raise RuntimeError('Cython compilation failed')
    so = os.path.join(workdir, name + sysconfig.get_config_var('EXT_SUFFIX'))
    cc = os.environ.get('CC', 'gcc')
    subprocess.check_call([cc, '-O1', '-shared', '-fPIC', '-w', '-fno-strict-overflow',
                           '-I' + sysconfig.get_paths()['include'],
                           os.path.join(workdir, name + '.c'), '-o', so])
    spec = importlib.util.spec_from_file_location(name, so)
    mod = importlib.util.module_from_spec(spec)
    spec.loader.exec_module(mod)
    return mod


def outcome(f, *args):
    try:
        return ('ok', f(*args))
    except BaseException as e:
        return ('exc', type(e).__name__)

# Defect 4: 'c in b' with c a C integer (int / long / unsigned int ...) and b a bytes / bytearray /
# char* value.  CmpNode.find_special_bool_compare_function() coerces the integer to C 'char'
# (a truncating cast, no range check) and calls __Pyx_BytesContains / __Pyx_ByteArrayContains, so
# only the low 8 bits of c take part:  353 in b'a' is True (353 & 0xFF == 97), 256 in b'\0' is True,
# -159 in b'a' is True.  CPython raises ValueError("byte must be in range(0, 256)") for these.

CY_SRC = '''
def int_in_bytes(int c, bytes b):            return c in b
def long_in_bytes(long c, bytes b):          return c in b
def uint_in_bytes(unsigned int c, bytes b):  return c in b
def int_notin_bytes(int c, bytes b):         return c not in b
def int_in_bytearray(int c, bytearray b):    return c in b
def ssize_in_bytes(Py_ssize_t c, bytes b):
    if c in b:
        return 'found'
    return 'missing'
def int_in_cstring(int c, bytes b):
    cdef char* s = b
    return c in s
'''
PY_SRC = '''
def int_in_bytes(c, b):      return c in b
def long_in_bytes(c, b):     return c in b
def uint_in_bytes(c, b):     return c in b
def int_notin_bytes(c, b):   return c not in b
def int_in_bytearray(c, b):  return c in b
def ssize_in_bytes(c, b):
    if c in b:
        return 'found'
    return 'missing'
def int_in_cstring(c, b):    return c in b
'''


def main():
    workdir = tempfile.mkdtemp(prefix='probe_P4_4_')
    try:
        m = build('p4', CY_SRC, workdir)
        with open(os.path.join(workdir, 'p4.c')) as f:
            c_code = f.read()
    finally:
        shutil.rmtree(workdir, ignore_errors=True)
    print('helpers used:', sorted(set(h for h in ('__Pyx_BytesContains', '__Pyx_ByteArrayContains') if h + '(' in c_code)))
    ns = {}
    exec(compile(PY_SRC, 'py', 'exec'), ns)
    ints = [-2**31, -256, -159, -1, 0, 97, 255, 256, 353, 512, 609, 65633, 2**31 - 1]
    data = [b'a', b'a\x00', b'\xff', b'']
    bad = wrong_value = total = 0
    for name in ['int_in_bytes', 'long_in_bytes', 'uint_in_bytes', 'int_notin_bytes', 'int_in_bytearray',
                 'ssize_in_bytes', 'int_in_cstring']:
        for b in data:
            arg = bytearray(b) if 'bytearray' in name else b
            for c in ints:
                if c < 0 and name.startswith('uint'):
                    continue
                if name == 'int_in_cstring' and b'\0' in b:
                    continue
                total += 1
                e = outcome(ns[name], c, arg)
                g = outcome(getattr(m, name), c, arg)
                if repr(e) != repr(g):
                    bad += 1
                    # "found although it cannot be there" is the convincing subset
                    positive = g in (('ok', True), ('ok', 'found')) or (name == 'int_notin_bytes' and g == ('ok', False))
                    if positive:
                        wrong_value += 1
                        print('DIFF %-17s c=%-11d b=%-18r CPython=%r  Cython=%r' % (name, c, arg, e, g))
    print('%d of %d cases differ; in %d of them an out-of-range integer is reported as CONTAINED' % (bad, total, wrong_value))
    print('defect present' if wrong_value else 'defect not present')
    return 1 if wrong_value else 0


if __name__ == '__main__':
    sys.exit(main())
