import sys, os, subprocess, sysconfig, tempfile, shutil, importlib.util, textwrap, warnings
warnings.simplefilter('ignore')
ROOT = os.path.dirname(os.path.abspath(__file__))
sys.path.insert(0, ROOT)


def build(name, src, workdir):
    """Compile `src` (Cython source) with the compiler in this worktree and import it."""
    from Cython.Compiler.Main import compile as cy_compile, CompilationOptions, default_options
    pyx = os.path.join(workdir, name + '.pyx')
    with open(pyx, 'w') as f:
        f.write(src)
    res = cy_compile(pyx, CompilationOptions(default_options, language_level=3))
    if res.num_errors:
        raise RuntimeError('Cython compilation failed')
    so = os.path.join(workdir, name + sysconfig.get_config_var('EXT_SUFFIX'))
    cc = os.environ.get('CC', 'gcc')
    subprocess.check_call([cc, '-O1', '-shared', '-fPIC', '-w', '-fno-strict-overflow',
                           '-I' + sysconfig.get_paths()['include'],
                           os.path.join(workdir, name + '.c'), '-o', so])
    spec = importlib.util.spec_from_file_location(name, so)
    mod = importlib.util.module_from_spec(spec)
    spec.loader.exec_module(mod)
    return mod


def outcome(f, *args):
    try:
        return ('ok', f(*args))
    except BaseException as e:
        return ('exc', type(e).__name__)

# Defect 1: a comparison chain that STARTS with 'in' / 'not in' and continues with a
# comparison against a C-typed operand (integer literal, True/False, cdef int variable)
# passes the raw C integer to the Python comparison as if it were a PyObject*  ->  SIGSEGV.
#
#     x in seq == 1        # CPython: (x in seq) and (seq == 1)  ->  False for x=1, seq=[1]
#
# Each case is run in a child process because the compiled code crashes the interpreter.

CASES = [
    # (Cython source, Python source, call arguments)
    ("def f(x, a): return x in a == 1",                         "def f(x, a): return x in a == 1",     "(1, [1])"),
    ("def f(x, a): return x in a == True",                      "def f(x, a): return x in a == True",  "(1, [1])"),
    ("def f(x, a):\n    if x in a == 1: return 'y'\n    return 'n'",
     "def f(x, a):\n    if x in a == 1: return 'y'\n    return 'n'",                                    "(1, [1])"),
    ("def f(x, a, int n): return x in a != n",                  "def f(x, a, n): return x in a != n",  "(1, [1], 5)"),
    ("def f(x, a): return x not in a < 5",                      "def f(x, a): return x not in a < 5",  "(2, [1])"),
    ("def f(x, dict a): return x in a == 0",                    "def f(x, a): return x in a == 0",     "(1, {1: 2})"),
    ("def f(x, str a): return x in a != 0",                     "def f(x, a): return x in a != 0",     "('a', 'abc')"),
]


def child(idx, workdir):
    cy_src, py_src, args = CASES[idx]
    m = build('p1_%d' % idx, cy_src, workdir)
    print('CY', repr(eval('outcome(m.f, *%s)' % args)), flush=True)


def main():
    if len(sys.argv) > 1 and sys.argv[1] == '--child':
        child(int(sys.argv[2]), sys.argv[3])
        return 0
    workdir = tempfile.mkdtemp(prefix='probe_P4_1_')
    bad = 0
    try:
        for idx, (cy_src, py_src, args) in enumerate(CASES):
            ns = {}
            exec(compile(py_src, 'py', 'exec'), ns)
            expected = eval('outcome(ns["f"], *%s)' % args)
            r = subprocess.run([sys.executable, os.path.abspath(__file__), '--child', str(idx), workdir],
                               capture_output=True, text=True, cwd=ROOT,
                               env=dict(os.environ, PYTHONPATH=ROOT))
            got = [l[3:] for l in r.stdout.splitlines() if l.startswith('CY ')]
            if r.returncode < 0:
                actual = 'process killed by signal %d' % -r.returncode
            elif r.returncode != 0 or not got:
                err = [l for l in r.stderr.splitlines() if 'rror' in l][-1:]
                actual = 'build/run failed: %s' % (err[0] if err else 'rc=%d' % r.returncode)
            else:
                actual = got[0]
            ok = (actual == repr(expected))
            if not ok:
                bad += 1
            print('%-4s %-62r args=%-14s CPython=%r  Cython=%s' % (
                'ok' if ok else 'DIFF', cy_src, args, expected, actual))
    finally:
        shutil.rmtree(workdir, ignore_errors=True)
    print('defect present' if bad else 'defect not present', '(%d differing cases)' % bad)
    return 1 if bad else 0


if __name__ == '__main__':
    sys.exit(main())
