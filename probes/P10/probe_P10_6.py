#!/usr/bin/env python
"""
probe_P10_6: valid literals (valid Python 3.12 source, or documented Cython forms)
for which no module can be built at all: the compiler rejects them, crashes with an
internal exception, or emits C code that does not compile.

Run from the worktree root:  /venv/bin/python probe_P10_6.py
Exit status 1 if a defect is present, 0 otherwise.
"""
import os, sys, subprocess, sysconfig, tempfile, shutil, importlib.util, io, contextlib, warnings

ROOT = os.path.dirname(os.path.abspath(__file__))
sys.path.insert(0, ROOT)
os.chdir(ROOT)

# (label, module source, is it also valid CPython source?)
CASES = [
    ("\\N{...} name containing digits (1)", 'value = "\\N{CJK UNIFIED IDEOGRAPH-4E00}"\n', True),
    ("\\N{...} name containing digits (2)", 'value = "x\\N{BRAILLE PATTERN DOTS-1}\\N{VARIATION SELECTOR-17}"\n', True),
    ("\\N{...} name with digits in f-string", 'value = f"\\N{BRAILLE PATTERN DOTS-1}{1}"\n', True),
    ("single-quoted raw f-string, backslash-newline", 'x = 5\nvalue = rf"a\\\nb{x}"\n', True),
    ("control: same as plain raw string", 'value = r"a\\\nb"\n', True),
    ("bytes literal .decode() without arguments", 'value = b"abc".decode()\n', True),
    ("lone-surrogate str + bytes literal of its escaped form",
     'value = ("\\ud800", b"\\\\ud800")\n', True),
    ("control: the two literals in the other order", 'value = (b"\\\\ud800", "\\ud800")\n', True),
    ("module whose only bytes constant is b''", 'value = b""\n', True),
    ("control: b'' plus another bytes constant", 'value = b""\nother = b"x"\n', True),
    ("unicode literal assigned to Py_UNICODE*", 'cdef const Py_UNICODE* w = "abc"\nvalue = w[1]\n', False),
]


def build(name, src, workdir):
    from Cython.Compiler.Main import compile as cycompile, CompilationOptions, default_options
    pyx = os.path.join(workdir, name + '.pyx')
    with open(pyx, 'w', encoding='utf-8') as f:
        f.write(src)
    opts = dict(default_options)
    opts['language_level'] = 3
    err = io.StringIO()
    try:
        with contextlib.redirect_stderr(err), contextlib.redirect_stdout(err):
            res = cycompile(pyx, CompilationOptions(**opts))
    except Exception as e:
        return ('COMPILER CRASH', '%s: %s' % (type(e).__name__, e))
    if res.num_errors:
        lines = [l for l in err.getvalue().splitlines() if (name + '.pyx:') in l or 'Error' in l.split(':')[0:1]]
        text = err.getvalue()
        kind = 'COMPILER CRASH' if 'Compiler crash' in text else 'COMPILE ERROR'
        msg = [l for l in text.splitlines() if l.strip() and not l.startswith(('-', '.', ' '))]
        return (kind, msg[-1] if msg else 'error')
    so = os.path.join(workdir, name + '.so')
    r = subprocess.run(['gcc', '-shared', '-fPIC', '-O0', '-w', '-I', sysconfig.get_paths()['include'],
                        os.path.join(workdir, name + '.c'), '-o', so], capture_output=True, text=True)
    if r.returncode:
        msg = [l for l in r.stderr.splitlines() if 'error' in l]
        return ('INVALID C', msg[0].split('error:', 1)[1].strip() if msg else 'gcc failed')
    spec = importlib.util.spec_from_file_location(name, so)
    m = importlib.util.module_from_spec(spec)
    spec.loader.exec_module(m)
    return ('ok', m.value)


def main():
    tmp = tempfile.mkdtemp(prefix='probe_P10_6_')
    bad = 0
    try:
        for i, (label, src, is_py) in enumerate(CASES):
            if is_py:
                ns = {}
                with warnings.catch_warnings():
                    warnings.simplefilter('ignore')
                    exec(compile(src, 'p', 'exec'), ns)
                want = ('ok', ns['value'])
            else:
                want = ('ok', 'b')   # Py_UNICODE* w = "abc"; w[1] -> 'b'
            got = build('p10_6_%d' % i, src, tmp)
            same = (want == got)
            if not same:
                bad += 1
            print('[%d] %s' % (i, label))
            print('     source : %r' % src)
            print('     expect : %s' % ascii(want))
            print('     Cython : %s%s' % (ascii(got), '' if same else '   <-- DIFF'))
        print('\n%d differing case(s)' % bad)
        return 1 if bad else 0
    finally:
        shutil.rmtree(tmp, ignore_errors=True)


if __name__ == '__main__':
    sys.exit(main())
