#!/usr/bin/env python
"""
probe_P10_2: the source-encoding detection accepts "coding[:=]name" anywhere
in the first two lines (not only in a comment-only line, and on line 2 even if
line 1 is code).  CPython (PEP 263) ignores those, reads the file as UTF-8 and
gives the str literals their UTF-8 value; the Cython-compiled module decodes the
whole file with the bogus encoding, so every non-ASCII str literal (and
docstring) gets a different value - or the file is rejected altogether.

Run from the worktree root:  /venv/bin/python probe_P10_2.py
Exit status 1 if the defect is present, 0 otherwise.
"""
import os, sys, subprocess, sysconfig, tempfile, shutil, importlib.util, io, contextlib

ROOT = os.path.dirname(os.path.abspath(__file__))
sys.path.insert(0, ROOT)
os.chdir(ROOT)

TAIL = "t = '''€ü'''\ndef f():\n    'döc'\n    return 'ß'\nresult = (s, t, f.__doc__, f())\n"

# (label, source text) - all files are written as UTF-8 without BOM
CASES = [
    ("trailing comment on a code line (line 1)",
     "s = 'é'   # coding: latin-1\n" + TAIL),
    ("cookie comment on line 2 after a CODE line 1",
     "import sys\n# -*- coding: latin-1 -*-\ns = 'é'\n" + TAIL),
    ("cookie comment on line 2 after a docstring line 1",
     "'''module doc'''\n# vim: set fileencoding=cp1252 :\ns = 'é'\n" + TAIL),
    ("'coding=' inside a string literal on line 1",
     "note = 'use coding=cp437 for DOS'\ns = 'é'\n" + TAIL),
    ("keyword argument 'encoding=...' on line 1",
     "def rd(p, enc=None, encoding=None): return p\ns = 'é'\n" + TAIL),
    ("dict(encoding=utf16) call on line 2",
     "utf16 = 1\ncfg = dict(encoding=utf16)\ns = 'é'\n" + TAIL),
    # control: a real PEP 263 cookie must be honoured by both
    ("CONTROL: real cookie on line 2 after a comment line",
     "#!/usr/bin/python\n# -*- coding: utf-8 -*-\ns = 'é'\n" + TAIL),
]


def cython_result(name, raw, workdir):
    from Cython.Compiler.Main import compile as cycompile, CompilationOptions, default_options
    pyx = os.path.join(workdir, name + '.pyx')
    with open(pyx, 'wb') as f:
        f.write(raw)
    opts = dict(default_options)
    opts['language_level'] = 3
    err = io.StringIO()
    try:
        with contextlib.redirect_stderr(err):
            res = cycompile(pyx, CompilationOptions(**opts))
    except Exception as e:
        return ('compile-exception', '%s: %s' % (type(e).__name__, e))
    if res.num_errors:
        msg = [l for l in err.getvalue().splitlines() if name + '.pyx:' in l]
        return ('compile-error', msg[0].split('.pyx:', 1)[1] if msg else 'error')
    so = os.path.join(workdir, name + '.so')
    subprocess.check_call(['gcc', '-shared', '-fPIC', '-O0', '-w', '-I', sysconfig.get_paths()['include'],
                           os.path.join(workdir, name + '.c'), '-o', so])
    spec = importlib.util.spec_from_file_location(name, so)
    m = importlib.util.module_from_spec(spec)
    spec.loader.exec_module(m)
    return ('ok', m.result)


def cpython_result(name, raw, workdir):
    # run the very same bytes as a real file through the CPython interpreter
    py = os.path.join(workdir, name + '_py.py')
    with open(py, 'wb') as f:
        f.write(raw + b"\nprint(ascii(result))\n")
    r = subprocess.run([sys.executable, py], capture_output=True, text=True)
    if r.returncode:
        return ('error', r.stderr.strip().splitlines()[-1])
    return ('ok', eval(r.stdout.strip()))


def main():
    tmp = tempfile.mkdtemp(prefix='probe_P10_2_')
    bad = 0
    try:
        for i, (label, text) in enumerate(CASES):
            raw = text.encode('utf-8')
            name = 'p10_2_%d' % i
            py = cpython_result(name, raw, tmp)
            cy = cython_result(name, raw, tmp)
            same = (py == cy)
            print('[%d] %s' % (i, label))
            print('     first lines : %r' % text.split('\n')[:2])
            print('     CPython     : %s' % ascii(py))
            print('     Cython      : %s%s' % (ascii(cy), '' if same else '   <-- DIFF'))
            if not same and not label.startswith('CONTROL'):
                bad += 1
            if label.startswith('CONTROL') and not same:
                print('     (control case differs - probe environment problem?)')
        print('\n%d differing case(s)' % bad)
        return 1 if bad else 0
    finally:
        shutil.rmtree(tmp, ignore_errors=True)


if __name__ == '__main__':
    sys.exit(main())
