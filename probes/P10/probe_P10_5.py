#!/usr/bin/env python
"""
probe_P10_5: (a) docstring literals containing NUL are truncated at the NUL,
empty docstring literals become None;  (b) a char literal c'\\xNN' with NN >= 0x80
has two different values in one module: 0xNN where the compiler folds constants,
0xNN-256 where the C compiler evaluates the emitted '\\xNN' (signed char).

Run from the worktree root:  /venv/bin/python probe_P10_5.py
Exit status 1 if a defect is present, 0 otherwise.
"""
import os, sys, subprocess, sysconfig, tempfile, shutil, importlib.util, io, contextlib

ROOT = os.path.dirname(os.path.abspath(__file__))
sys.path.insert(0, ROOT)
os.chdir(ROOT)


def doc_src(doc):
    q = '"""'
    return f'''{q}{doc}{q}
def func():
    {q}{doc}{q}
class Cls:
    {q}{doc}{q}
    def meth(self):
        {q}{doc}{q}
    @property
    def prop(self):
        {q}{doc}{q}
def gen():
    {q}{doc}{q}
    yield 1
def outer():
    def inner():
        {q}{doc}{q}
    return inner
docs = dict(module=__doc__, func=func.__doc__, cls=Cls.__doc__, meth=Cls.meth.__doc__,
            prop=Cls.prop.__doc__, gen=gen.__doc__, inner=outer().__doc__)
'''

CY_ONLY = '''
cdef class Ext:
    """%s"""
    def meth(self):
        """%s"""
    cpdef cp(self):
        """%s"""
docs.update(ext_cls=Ext.__doc__, ext_meth=Ext.meth.__doc__, ext_cpdef=getattr(Ext, 'cp').__doc__)
'''

CHAR_SRC = r'''
def char_values():
    cdef int as_int = c'\xff'            # evaluated by the C compiler
    cdef int folded = c'\xff' + 0        # folded by Cython
    cdef char ch = c'\xff'
    return dict(as_int=as_int, folded=folded,
                eq_const=(c'\xff' == -1),        # folded: 255 == -1
                eq_runtime=(ch == -1),           # C: '\xFF' == -1 (signed char)
                ch_eq_lit=(ch == c'\xff'),
                int_eq_folded=(as_int == c'\xff' + 0))
'''


def build(name, src, workdir):
    from Cython.Compiler.Main import compile as cycompile, CompilationOptions, default_options
    pyx = os.path.join(workdir, name + '.pyx')
    with open(pyx, 'w', encoding='utf-8') as f:
        f.write(src)
    opts = dict(default_options)
    opts['language_level'] = 3
    with contextlib.redirect_stderr(io.StringIO()):
        res = cycompile(pyx, CompilationOptions(**opts))
    if res.num_errors:
        raise RuntimeError('cython failed')
    so = os.path.join(workdir, name + '.so')
    subprocess.check_call(['gcc', '-shared', '-fPIC', '-O0', '-w', '-I', sysconfig.get_paths()['include'],
                           os.path.join(workdir, name + '.c'), '-o', so])
    spec = importlib.util.spec_from_file_location(name, so)
    m = importlib.util.module_from_spec(spec)
    spec.loader.exec_module(m)
    return m


def main():
    tmp = tempfile.mkdtemp(prefix='probe_P10_5_')
    bad = 0
    try:
        for i, doc in enumerate(['a\\0b', '\\0', 'caf\\xe9\\0tail', '', 'plain \\xe9 \\u20ac control']):
            src = doc_src(doc)
            ns = {'__name__': 'p'}
            exec(compile(src, 'p10_5_py', 'exec'), ns)
            want = ns['docs']['func']
            m = build('p10_5_doc%d' % i, src + CY_ONLY % (doc, doc, doc), tmp)
            print('docstring literal """%s"""   CPython value: %s' % (doc, ascii(want)))
            for k, v in m.docs.items():
                exp = ns['docs'].get(k, want)
                if v != exp:
                    bad += 1
                    print('    %-10s Cython=%-12s <-- DIFF' % (k, ascii(v)))
                else:
                    print('    %-10s Cython=%s' % (k, ascii(v)))
        m = build('p10_5_char', CHAR_SRC, tmp)
        vals = m.char_values()
        print("\nchar literal c'\\xff':", vals)
        if vals['as_int'] != vals['folded'] or vals['eq_const'] != vals['eq_runtime'] or not vals['int_eq_folded']:
            bad += 1
            print("    <-- DIFF: the same literal has value %d (C) and %d (constant folding)"
                  % (vals['as_int'], vals['folded']))
        print('\n%d differing case(s)' % bad)
        return 1 if bad else 0
    finally:
        shutil.rmtree(tmp, ignore_errors=True)


if __name__ == '__main__':
    sys.exit(main())
