#!/usr/bin/env python
"""
probe_P10_3: in an f-string replacement field, a conversion (!r / !s / !a)
followed by a literal format spec is ignored when the value is a C integer
(typed argument, cdef variable, or a local that type inference turned into a C
long / bint).  CPython formats the *string* repr(v)/str(v) with the spec
(left aligned, '0' fill appended on the right, bool -> 'True'); the compiled
code formats the *integer* with the spec (right aligned, zero-padded on the
left, bool -> 1).

Run from the worktree root:  /venv/bin/python probe_P10_3.py
Exit status 1 if the defect is present, 0 otherwise.
"""
import os, sys, subprocess, sysconfig, tempfile, shutil, importlib.util, io, contextlib

ROOT = os.path.dirname(os.path.abspath(__file__))
sys.path.insert(0, ROOT)
os.chdir(ROOT)

FIELDS = [
    "{x!r:4}|", "{x!s:4}|", "{x!a:4}|", "{x!r:04}|", "{x!s:05}|", "{x=!r:4}|",
    "{ll!r:4}|", "{uc!r:4}|", "{sz!r:4}|", "{b!r:6}|", "{b!s:6}|", "{b!a:6}|",
    # controls (agree): explicit alignment, no conversion, non-literal spec, double
    "{x!r:>4}|", "{x!r:<4}|", "{x:4}|", "{x!r:{w}}|", "{y!r:8}|", "{b:6}|",
]

BODY = "    w = 4\n    return [" + ", ".join("f'%s'" % f for f in FIELDS) + "]\n"

PY_SRC = "def typed(x, y, b, ll, uc, sz):\n" + BODY + '''
def inferred():
    x = 5          # never reassigned: Cython infers a C long
    flag = True    # inferred as bint
    return [f'{x!r:4}|', f'{x!s:04}|', f'{flag!s:6}|', f'{7!r:3}|', f'{True!s:6}|', f'{x=!r:4}|']
'''
EXC_FIELDS = ["{x!r:x}", "{x!s:d}", "{x!r:c}", "{x!a:o}", "{y!r:.2f}", "{y!s:e}"]
PY_SRC += "def typed_exc(x, y):\n    out = []\n" + "".join(
    "    try: out.append(f'%s')\n    except ValueError: out.append('ValueError')\n" % f for f in EXC_FIELDS
) + "    return out\n"

CY_SRC = PY_SRC.replace("def typed_exc(x, y):", "def typed_exc(int x, double y):").replace("def typed(x, y, b, ll, uc, sz):",
                        "def typed(int x, double y, bint b, long long ll, unsigned char uc, size_t sz):")


def build(name, src, workdir):
    from Cython.Compiler.Main import compile as cycompile, CompilationOptions, default_options
    pyx = os.path.join(workdir, name + '.pyx')
    with open(pyx, 'w', encoding='utf-8') as f:
        f.write(src)
    opts = dict(default_options)
    opts['language_level'] = 3
    with contextlib.redirect_stderr(io.StringIO()):
        res = cycompile(pyx, CompilationOptions(**opts))
    if res.num_errors:
        raise RuntimeError('cython failed')
    so = os.path.join(workdir, name + '.so')
    subprocess.check_call(['gcc', '-shared', '-fPIC', '-O0', '-w', '-I', sysconfig.get_paths()['include'],
                           os.path.join(workdir, name + '.c'), '-o', so])
    spec = importlib.util.spec_from_file_location(name, so)
    m = importlib.util.module_from_spec(spec)
    spec.loader.exec_module(m)
    return m


def main():
    tmp = tempfile.mkdtemp(prefix='probe_P10_3_')
    try:
        ns = {}
        exec(compile(PY_SRC, 'p10_3_py', 'exec'), ns)
        m = build('p10_3_cy', CY_SRC, tmp)
        bad = 0
        args = (5, 1.5, True, 7, 9, 11)
        want = ns['typed'](*args)
        got = m.typed(*args)
        print("typed(int x=5, double y=1.5, bint b=True, long long ll=7, unsigned char uc=9, size_t sz=11)")
        for f, a, b in zip(FIELDS, want, got):
            flag = '' if a == b else '   <-- DIFF'
            if a != b:
                bad += 1
            print("  f'%-12s  CPython=%-12r Cython=%r%s" % (f + "'", a, b, flag))
        print("typed_exc(int x=65, double y=1.5)   [conversion + type code: str rejects 'x', 'd', 'c', 'o', 'f', 'e']")
        for f, a, b in zip(EXC_FIELDS, ns['typed_exc'](65, 1.5), m.typed_exc(65, 1.5)):
            flag = '' if a == b else '   <-- DIFF'
            if a != b:
                bad += 1
            print("  f'%-12s  CPython=%-12r Cython=%r%s" % (f + "'", a, b, flag))
        print("inferred()  [x = 5; flag = True; literals 7 / True]")
        labels = ["{x!r:4}|", "{x!s:04}|", "{flag!s:6}|", "{7!r:3}|", "{True!s:6}|", "{x=!r:4}|"]
        for f, a, b in zip(labels, ns['inferred'](), m.inferred()):
            flag = '' if a == b else '   <-- DIFF'
            if a != b:
                bad += 1
            print("  f'%-12s  CPython=%-12r Cython=%r%s" % (f + "'", a, b, flag))
        print('\n%d differing case(s)' % bad)
        return 1 if bad else 0
    finally:
        shutil.rmtree(tmp, ignore_errors=True)


if __name__ == '__main__':
    sys.exit(main())
