#!/usr/bin/env python
"""
probe_P10_1: iterating over a *bytes literal* yields 1-byte `bytes` objects
(or even `str` / `float` items) instead of the `int` items that CPython yields.

Run from the worktree root:  /venv/bin/python probe_P10_1.py
Exit status 1 if the defect is present, 0 otherwise.
"""
import os, sys, subprocess, sysconfig, tempfile, shutil, importlib.util, io, contextlib

ROOT = os.path.dirname(os.path.abspath(__file__))
sys.path.insert(0, ROOT)
os.chdir(ROOT)

SRC = r'''
# --- module level loop (globals are Python objects)
mod_items = []
for c in b'a\0\xff':
    mod_items.append(c)

# --- class body loop
class K:
    items = []
    for c in b'a\0\xff':
        items.append(c)

def obj_target():
    l = []
    for c in b'a\0\xff':
        l.append(c)
    c = None            # 'c' is a plain Python object variable
    return l

def enum_target():
    return [(i, c) for i, c in enumerate(b'a\0\xff')]

def enum_loop():
    l = []
    for i, c in enumerate(b'a\0\xff'):
        l.append((i, c))
    return l

def reversed_loop():
    l = []
    for c in reversed(b'a\0\xff'):
        l.append(c)
    return l

def set_comp():
    return sorted({c for c in b'ab'}, key=repr)

def type_names():
    return [type(c).__name__ for c in b'ab']

def concat_literal():
    l = []
    for c in b'a' b'\xff':
        l.append(c)
    else:
        c = None
    return l

def closure_var():
    l = []
    for c in b'a\xff':
        l.append(c)
    def inner():
        return c
    return l

def then_str_loop():
    # same loop variable later used for a str loop
    l = []
    for c in b'ab':
        l.append(c)
    for c in 'xy':
        l.append(c)
    return l

def then_float_loop():
    l = []
    for c in b'ab':
        l.append(c)
    for c in [1.5]:
        l.append(c)
    return l

# simplest form; and a control that takes a different path (variable, not literal)
def plain_listcomp():
    return [c for c in b'a\0\xff']

def control_var():
    b = b'a\0\xff'
    l = []
    for c in b:
        l.append(c)
    c = None
    return l
'''

FUNCS = ['obj_target', 'enum_target', 'enum_loop', 'reversed_loop', 'set_comp', 'type_names',
         'concat_literal', 'closure_var', 'then_str_loop', 'then_float_loop',
         'plain_listcomp', 'control_var']


def build(name, src, workdir):
    from Cython.Compiler.Main import compile as cycompile, CompilationOptions, default_options
    pyx = os.path.join(workdir, name + '.pyx')
    with open(pyx, 'w', encoding='utf-8') as f:
        f.write(src)
    opts = dict(default_options)
    opts['language_level'] = 3
    with contextlib.redirect_stderr(io.StringIO()):
        res = cycompile(pyx, CompilationOptions(**opts))
    if res.num_errors:
        raise RuntimeError('cython failed')
    so = os.path.join(workdir, name + '.so')
    subprocess.check_call(['gcc', '-shared', '-fPIC', '-O0', '-w', '-I', sysconfig.get_paths()['include'],
                           os.path.join(workdir, name + '.c'), '-o', so])
    spec = importlib.util.spec_from_file_location(name, so)
    m = importlib.util.module_from_spec(spec)
    spec.loader.exec_module(m)
    return m


def main():
    tmp = tempfile.mkdtemp(prefix='probe_P10_1_')
    try:
        ns = {'__name__': 'p10_1_py'}
        exec(compile(SRC, 'p10_1_py', 'exec'), ns)
        m = build('p10_1_cy', SRC, tmp)
        bad = 0

        def cmp(label, want, got):
            nonlocal bad
            same = (want == got and [type(x) for x in want] == [type(x) for x in got])
            print('%-18s CPython=%-40r Cython=%r%s' % (label, want, got, '' if same else '   <-- DIFF'))
            if not same:
                bad += 1

        cmp('module level', ns['mod_items'], m.mod_items)
        cmp('class body', ns['K'].items, m.K.items)
        for fn in FUNCS:
            cmp(fn + '()', ns[fn](), getattr(m, fn)())
        print('\n%d differing case(s)' % bad)
        return 1 if bad else 0
    finally:
        shutil.rmtree(tmp, ignore_errors=True)


if __name__ == '__main__':
    sys.exit(main())
