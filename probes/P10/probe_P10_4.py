#!/usr/bin/env python
"""
probe_P10_4: two different bytes constants of one module can get the SAME
C name in the module string table, so a bytes literal evaluates to the content
of another constant.

The Python-object name of a bytes constant is built in
Code.py:StringConst.get_py_string_const() as

    __pyx_kp_b [_<encoding key>] _<name derived from the value>

without any separator that could not also occur in the value-derived part.
Every function's line table is an internal bytes constant with encoding key
'iso88591'; its value-derived name consists of the ASCII identifier characters
that happen to occur in the table (e.g. '1' or '2Rq'), or of '' plus a counter
('', '_2', '_3', ...), giving e.g. '__pyx_kp_b_iso88591_1'.  A user literal such
as  b'iso88591 1'  (UTF-8 source => no encoding key, value-derived name
'iso88591_1') gets exactly the same name; the generated C then has two
'#define __pyx_kp_b_iso88591_1 __pyx_string_tab[..]' lines (gcc only warns about
the redefinition), and the last one wins: the user literal evaluates to the line
table bytes.

The probe first compiles a module with two functions, reads the names of its
internal constants from the generated C, and then adds matching user literals.

Run from the worktree root:  /venv/bin/python probe_P10_4.py
Exit status 1 if the defect is present, 0 otherwise.
"""
import os, sys, re, subprocess, sysconfig, tempfile, shutil, importlib.util, io, contextlib

ROOT = os.path.dirname(os.path.abspath(__file__))
sys.path.insert(0, ROOT)
os.chdir(ROOT)

BASE = "def f():\n    return 1\n\ndef g(a, b):\n    x = a\n    return x + b\n\n"


def literal_for(cname_suffix):
    """Return the source text of a bytes literal whose value-derived constant name is
    'cname_suffix' (e.g. 'iso88591__2' or 'iso88591_1') and that is not an identifier
    (identifier-like values would get the interned prefix '__pyx_n_b_' instead)."""
    assert cname_suffix.startswith('iso88591_')
    rest = cname_suffix[len('iso88591_'):]
    if rest.startswith('_') or not rest:
        return "b'%s '" % cname_suffix          # trailing blank is stripped from the name
    return "b'iso88591 %s'" % rest              # blank becomes the '_' separator


def build(name, src, workdir):
    from Cython.Compiler.Main import compile as cycompile, CompilationOptions, default_options
    pyx = os.path.join(workdir, name + '.pyx')
    with open(pyx, 'w', encoding='utf-8') as f:
        f.write(src)
    opts = dict(default_options)
    opts['language_level'] = 3
    with contextlib.redirect_stderr(io.StringIO()):
        res = cycompile(pyx, CompilationOptions(**opts))
    if res.num_errors:
        raise RuntimeError('cython failed')
    cfile = os.path.join(workdir, name + '.c')
    so = os.path.join(workdir, name + '.so')
    r = subprocess.run(['gcc', '-shared', '-fPIC', '-O0', '-I', sysconfig.get_paths()['include'], cfile, '-o', so],
                       capture_output=True, text=True)
    if r.returncode:
        raise RuntimeError(r.stderr[:2000])
    redefs = sorted(set(re.findall(r'"(__pyx_kp_b_\w+)" redefined', r.stderr)))
    spec = importlib.util.spec_from_file_location(name, so)
    m = importlib.util.module_from_spec(spec)
    spec.loader.exec_module(m)
    return m, cfile, redefs


def main():
    tmp = tempfile.mkdtemp(prefix='probe_P10_4_')
    try:
        # phase 1: which names do the internal (line table) constants of f() and g() get?
        _, cfile, _ = build('p10_4_base', BASE, tmp)
        with open(cfile) as f:
            suffixes = re.findall(r'^#define __pyx_kp_b_(iso88591_\w*) ', f.read(), re.M)
        print("internal bytes constants of the base module:", ['__pyx_kp_b_' + s for s in suffixes])
        # phase 2: add user literals whose value-derived name is the same
        lits = [literal_for(s) for s in suffixes] + ["b'iso88591__%d '" % n for n in range(2, 6)]
        lits = list(dict.fromkeys(lits))
        src = BASE + "values = [\n" + "".join("    %s,\n" % l for l in lits) + "]\n"
        ns = {}
        exec(compile(src, 'p10_4_py', 'exec'), ns)
        m, cfile, redefs = build('p10_4_cy', src, tmp)
        bad = 0
        for lit, want, got in zip(lits, ns['values'], m.values):
            flag = '' if want == got else '   <-- DIFF'
            if want != got:
                bad += 1
            print("%-20s CPython=%-18r Cython=%r%s" % (lit, want, got, flag))
        print()
        print("gcc 'redefined' warnings for:", redefs)
        with open(cfile) as f:
            for line in f:
                if line.startswith('#define __pyx_kp_b_iso88591'):
                    print('   ', line.rstrip())
        print('\n%d differing case(s)' % bad)
        return 1 if bad else 0
    finally:
        shutil.rmtree(tmp, ignore_errors=True)


if __name__ == '__main__':
    sys.exit(main())
