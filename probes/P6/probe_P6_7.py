"""probe_P6_7: evaluation order of range()/enumerate() arguments, enumerate() start not index-checked (C14)."""
import os, sys, shutil, subprocess, sysconfig, tempfile, importlib.util, types

ROOT = os.path.dirname(os.path.abspath(__file__))
sys.path.insert(0, ROOT)


def build(src, name, workdir):
    """Compile `src` (Cython source text) with the compiler of this checkout, return the imported module."""
    from Cython.Compiler.Main import compile as cy_compile, CompilationOptions
    from Cython.Compiler import Options
    pyx = os.path.join(workdir, name + '.pyx')
    with open(pyx, 'w') as f:
        f.write(src)
    res = cy_compile(pyx, CompilationOptions(Options.default_options, language_level=3))
    if res.num_errors:
        raise RuntimeError('cython compilation failed')
    so = os.path.join(workdir, name + '.so')
    cc = os.environ.get('CC', 'gcc')
    subprocess.check_call([cc, '-shared', '-fPIC', '-O1', '-DNDEBUG', '-fwrapv', '-w',
                           '-I', sysconfig.get_paths()['include'],
                           os.path.join(workdir, name + '.c'), '-o', so])
    spec = importlib.util.spec_from_file_location(name, so)
    mod = importlib.util.module_from_spec(spec)
    spec.loader.exec_module(mod)
    return mod


def interpret(src, name):
    """Run the same source text in CPython."""
    mod = types.ModuleType(name)
    exec(compile(src, name + '.py', 'exec'), mod.__dict__)
    return mod


def call(f, *args):
    try:
        return ('returned', f(*args))
    except BaseException as e:
        return ('raised', type(e).__name__)

# ---------------------------------------------------------------------------
# Defect 7: argument evaluation of the optimised range() / enumerate() loops
#   (a) 'for i in range(f(), g())' with a C integer target calls g() BEFORE f()
#       (the stop bound is put into an outer temp, the start is evaluated inside).
#   (b) 'for i, x in enumerate(f(), g())' calls g() BEFORE f().
#   (c) enumerate(seq, start) with an object counter never applies __index__ to
#       'start': floats (and any other object that supports '+ 1') are accepted and
#       yielded, objects with __index__ are rejected or yielded as they are, and a
#       wrong 'start' goes unnoticed when the sequence is empty.
# Source is valid Python apart from the 'cdef int i' lines, which are removed
# for the CPython run.
# ---------------------------------------------------------------------------

SRC = r'''
def range_order(f, g):
    cdef int i
    log = []
    for i in range(f(log), g(log)):
        log.append(i)
    return log

def range_order_step(f, g):
    cdef int i
    log = []
    for i in range(f(log), g(log), 2):
        log.append(i)
    return log

def range_order_raise(f, g):
    cdef int i
    log = []
    try:
        for i in range(f(log), g(log)):
            log.append(i)
    except ZeroDivisionError:
        log.append('ZeroDivisionError')
    return log

def enumerate_order(f, g):
    log = []
    for i, x in enumerate(f(log), g(log)):
        log.append((i, x))
    return log

def enumerate_start(seq, start):
    out = []
    for i, x in enumerate(seq, start):
        out.append((i, x))
    return out

def enumerate_start_list(list seq, start):
    out = []
    for i, x in enumerate(seq, start):
        out.append((i, x))
    return out
'''

PY_SRC = SRC.replace('    cdef int i\n', '').replace('list seq', 'seq')


class Idx:
    def __index__(self):
        return 7

    def __repr__(self):
        return 'Idx()'


class AddOnly:
    def __init__(self, v=0):
        self.v = v

    def __add__(self, other):
        return AddOnly(self.v + other)

    def __repr__(self):
        return 'AddOnly(%d)' % self.v

    def __eq__(self, other):
        return isinstance(other, AddOnly) and other.v == self.v


def main():
    workdir = tempfile.mkdtemp(prefix='probe_P6_7_')
    bad = 0
    try:
        cm = build(SRC, 'p6_7', workdir)
        pm = interpret(PY_SRC, 'p6_7')

        def f(log): log.append('f'); return 1
        def g(log): log.append('g'); return 4
        def f_seq(log): log.append('f'); return 'ab'
        def f_bad(log): log.append('f'); return 1 // 0
        def g_bad(log): log.append('g'); return 1 // 0

        cases = [('range_order', (f, g)), ('range_order_step', (f, g)),
                 ('range_order_raise', (f_bad, g)), ('range_order_raise', (f, g_bad)),
                 ('enumerate_order', (f_seq, g))]
        for fname in ('enumerate_start', 'enumerate_start_list'):
            for seq in ([], [10, 20]):
                for start in (1.5, 'a', None, Idx(), AddOnly(), True, 2 ** 70, 3):
                    cases.append((fname, (seq, start)))
        for fname, args in cases:
            r1, r2 = call(getattr(cm, fname), *args), call(getattr(pm, fname), *args)
            if r1 != r2:
                bad += 1
                shown = tuple(getattr(a, '__name__', a) for a in args)
                print("DIFF %s%r: cython %s %r, cpython %s %r" % ((fname, shown) + r1 + r2))
    finally:
        shutil.rmtree(workdir, ignore_errors=True)
    print("%d differing cases" % bad)
    return 1 if bad else 0


if __name__ == '__main__':
    sys.exit(main())
