"""probe_P6_2: starred targets in optimised enumerate() / dict.items() loops (C14)."""
import os, sys, shutil, subprocess, sysconfig, tempfile, importlib.util, types

ROOT = os.path.dirname(os.path.abspath(__file__))
sys.path.insert(0, ROOT)


def build(src, name, workdir):
    """Compile `src` (Cython source text) with the compiler of this checkout, return the imported module."""
    from Cython.Compiler.Main import compile as cy_compile, CompilationOptions
    from Cython.Compiler import Options
    pyx = os.path.join(workdir, name + '.pyx')
    with open(pyx, 'w') as f:
        f.write(src)
    res = cy_compile(pyx, CompilationOptions(Options.default_options, language_level=3))
    if res.num_errors:
        raise RuntimeError('cython compilation failed')
    so = os.path.join(workdir, name + '.so')
    cc = os.environ.get('CC', 'gcc')
    subprocess.check_call([cc, '-shared', '-fPIC', '-O1', '-DNDEBUG', '-fwrapv', '-w',
                           '-I', sysconfig.get_paths()['include'],
                           os.path.join(workdir, name + '.c'), '-o', so])
    spec = importlib.util.spec_from_file_location(name, so)
    mod = importlib.util.module_from_spec(spec)
    spec.loader.exec_module(mod)
    return mod


def interpret(src, name):
    """Run the same source text in CPython."""
    mod = types.ModuleType(name)
    exec(compile(src, name + '.py', 'exec'), mod.__dict__)
    return mod


def call(f, *args):
    try:
        return ('returned', f(*args))
    except BaseException as e:
        return ('raised', type(e).__name__)

# ---------------------------------------------------------------------------
# Defect 2: a starred loop target in an optimised enumerate() / dict.items() loop
# is treated like a plain name: TypeError at run time or a wrong value.
# Plain Python source, run compiled and interpreted.
# ---------------------------------------------------------------------------

SRC = r'''
def enum_tail(seq):
    out = []
    for i, *rest in enumerate(seq):
        out.append((i, rest))
    return out

def enum_head(seq):
    out = []
    for *head, x in enumerate(seq):
        out.append((head, x))
    return out

def enum_head_start(seq, start):
    out = []
    for *head, x in enumerate(seq, start):
        out.append((head, x))
    return out

def items_tail(d):
    out = []
    for k, *rest in d.items():
        out.append((k, rest))
    return out

def items_head(d):
    out = []
    for *head, v in d.items():
        out.append((head, v))
    return out

def items_tail_typed(dict d):
    out = []
    for k, *rest in d.items():
        out.append((k, rest))
    return out

# the same loops without a star, for comparison
def enum_plain(seq):
    return [(i, x) for i, x in enumerate(seq)]

def items_plain(d):
    return [(k, v) for k, v in d.items()]
'''


def main():
    workdir = tempfile.mkdtemp(prefix='probe_P6_2_')
    bad = 0
    try:
        cm = build(SRC, 'p6_2', workdir)
        pm = interpret(SRC.replace('dict d', 'd'), 'p6_2')
        seqs = [[], [10], [10, 20], 'ab', (None,), {5: 6}]
        dicts = [{}, {1: 2}, {1: 2, 'k': 'v'}]
        cases = []
        for s in seqs:
            cases += [('enum_tail', (s,)), ('enum_head', (s,)), ('enum_head_start', (s, 7)), ('enum_plain', (s,))]
        for d in dicts:
            cases += [('items_tail', (d,)), ('items_head', (d,)), ('items_tail_typed', (d,)), ('items_plain', (d,))]
        for fname, args in cases:
            r1, r2 = call(getattr(cm, fname), *args), call(getattr(pm, fname), *args)
            if r1 != r2:
                bad += 1
                print("DIFF %s%r: cython %s %r, cpython %s %r" % ((fname, args) + r1 + r2))
    finally:
        shutil.rmtree(workdir, ignore_errors=True)
    print("%d differing cases" % bad)
    return 1 if bad else 0


if __name__ == '__main__':
    sys.exit(main())
