"""probe_P6_8: range() loops with a C integer target: truncated bounds, wrapping counters, reversed(range) first value (C14)."""
import os, sys, shutil, subprocess, sysconfig, tempfile, importlib.util, types

ROOT = os.path.dirname(os.path.abspath(__file__))
sys.path.insert(0, ROOT)


def build(src, name, workdir):
    """Compile `src` (Cython source text) with the compiler of this checkout, return the imported module."""
    from Cython.Compiler.Main import compile as cy_compile, CompilationOptions
    from Cython.Compiler import Options
    pyx = os.path.join(workdir, name + '.pyx')
    with open(pyx, 'w') as f:
        f.write(src)
    res = cy_compile(pyx, CompilationOptions(Options.default_options, language_level=3))
    if res.num_errors:
        raise RuntimeError('cython compilation failed')
    so = os.path.join(workdir, name + '.so')
    cc = os.environ.get('CC', 'gcc')
    subprocess.check_call([cc, '-shared', '-fPIC', '-O1', '-DNDEBUG', '-fwrapv', '-w',
                           '-I', sysconfig.get_paths()['include'],
                           os.path.join(workdir, name + '.c'), '-o', so])
    spec = importlib.util.spec_from_file_location(name, so)
    mod = importlib.util.module_from_spec(spec)
    spec.loader.exec_module(mod)
    return mod


def interpret(src, name):
    """Run the same source text in CPython."""
    mod = types.ModuleType(name)
    exec(compile(src, name + '.py', 'exec'), mod.__dict__)
    return mod


def call(f, *args):
    try:
        return ('returned', f(*args))
    except BaseException as e:
        return ('raised', type(e).__name__)

# ---------------------------------------------------------------------------
# Defect 8: 'for i in range(...)' with a C integer loop variable
#   (a) Python-object bounds that do not fit the C type are truncated silently
#       (converted with __index__ to Py_ssize_t, then C-cast to the loop type): the
#       loop runs over other numbers, or runs away, instead of raising OverflowError
#       like every other conversion of a Python int to a C int (CPython: iterates
#       the numbers asked for).
#   (b) with a step > 1 and bounds/values that all fit the C type, the C loop
#       counter itself wraps around ("i += step" past the maximum) and the loop
#       continues with wrapped values (runs about 2**32/step further iterations;
#       the probe stops it after 8).
#   (c) reversed(range(a, b, step)) with run-time bounds computes the first value as
#       b -/+ step * ((a - b - 1) // step) -/+ 1 in C arithmetic:
#         - under the directive cdivision=True the '//' is C division, and an empty
#           range with 0 <= a - b < step - 1 ... runs ONE iteration (i = a);
#         - the intermediate a - b - 1 overflows for far-apart bounds that fit the type,
#           the loop then starts on a wrong value;
#         - with unsigned bounds the forward loop 'range(a, b, -1)' compares against b + 1,
#           which wraps for b = UINT_MAX.
# Reference: CPython's range() with the same arguments.
# ---------------------------------------------------------------------------

SRC = r'''
def int_loop(a, b):
    cdef int i
    out = []
    for i in range(a, b):
        out.append(i)
        if len(out) >= 8: break
    return out

def int_loop_down(a, b):
    cdef int i
    out = []
    for i in range(a, b, -1):
        out.append(i)
        if len(out) >= 8: break
    return out

def short_loop(int a, int b):
    cdef short i
    out = []
    for i in range(a, b):
        out.append(i)
        if len(out) >= 8: break
    return out

def uchar_loop_step2(int a, int b):
    cdef unsigned char i
    out = []
    for i in range(a, b, 2):
        out.append(i)
        if len(out) >= 8: break
    return out

def int_loop_step5(int a, int b):
    cdef int i
    out = []
    for i in range(a, b, 5):
        out.append(i)
        if len(out) >= 8: break
    return out

def int_loop_step_m5(int a, int b):
    cdef int i
    out = []
    for i in range(a, b, -5):
        out.append(i)
        if len(out) >= 8: break
    return out

def long_obj_loop_step3(long a, long b):
    out = []
    for i in range(a, b, 3):      # Python object target, C long bounds
        out.append(i)
        if len(out) >= 8: break
    return out
'''


SRC_C = r'''# cython: cdivision=True
def rev_step2_cdiv(int a, int b):
    cdef int i
    out = []
    for i in reversed(range(a, b, 2)):
        out.append(i)
        if len(out) >= 8: break
    return out

def rev_step_m3_cdiv(int a, int b):
    cdef int i
    out = []
    for i in reversed(range(a, b, -3)):
        out.append(i)
        if len(out) >= 8: break
    return out
'''

SRC_D = r'''
def rev_step_m3(int a, int b):
    cdef int i
    out = []
    for i in reversed(range(a, b, -3)):
        out.append(i)
        if len(out) >= 8: break
    return out

def rev_step2(int a, int b):
    cdef int i
    out = []
    for i in reversed(range(a, b, 2)):
        out.append(i)
        if len(out) >= 8: break
    return out

def unsigned_down(unsigned int a, unsigned int b):
    cdef unsigned int i
    out = []
    for i in range(a, b, -1):
        out.append(i)
        if len(out) >= 8: break
    return out
'''


def ref(a, b, step=1, rev=False):
    out = []
    for i in (reversed(range(a, b, step)) if rev else range(a, b, step)):
        out.append(i)
        if len(out) >= 8: break
    return out




def main():
    workdir = tempfile.mkdtemp(prefix='probe_P6_8_')
    bad = 0
    try:
        m = build(SRC, 'p6_8', workdir)
        M = 2 ** 31 - 1
        L = 2 ** 63 - 1
        cases = [
            # (a) silent truncation of the bounds
            ('int_loop', (2 ** 32 + 1, 2 ** 32 + 3), 1),
            ('int_loop', (-2 ** 32, 3), 1),
            ('int_loop', (M, M + 1), 1),
            ('int_loop', (M + 1, M + 3), 1),
            ('int_loop', (-M - 2, -M + 1), 1),
            ('int_loop_down', (2 ** 32 + 2, 0), -1),
            ('int_loop_down', (M + 1, M - 1), -1),
            ('short_loop', (32766, 32768), 1),
            ('short_loop', (65536, 65539), 1),
            # (b) counter wrap-around, all bounds and all iterated values fit the type
            ('uchar_loop_step2', (250, 255), 2),
            ('uchar_loop_step2', (254, 255), 2),
            ('int_loop_step5', (M - 7, M), 5),
            ('int_loop_step5', (M - 1, M), 5),
            ('int_loop_step_m5', (-M + 6, -M - 1), -5),
            ('long_obj_loop_step3', (L - 4, L), 3),
            ('long_obj_loop_step3', (L - 1, L), 3),
            # controls
            ('int_loop', (M - 2, M), 1),
            ('int_loop_step5', (0, 12), 5),
            ('uchar_loop_step2', (0, 7), 2),
        ]
        for fname, args, step in cases:
            got = call(getattr(m, fname), *args)
            exp = call(ref, args[0], args[1], step)
            if got != exp:
                bad += 1
                print("DIFF %s%r (step %d): cython %s %r, cpython %s %r" % ((fname, args, step) + got + exp))

        mc = build(SRC_C, 'p6_8c', workdir)
        md = build(SRC_D, 'p6_8d', workdir)
        U = 2 ** 32 - 1
        rcases = [
            (mc, 'rev_step2_cdiv', (5, 5), 2, True),
            (mc, 'rev_step2_cdiv', (0, 0), 2, True),
            (mc, 'rev_step_m3_cdiv', (-6, -5), -3, True),
            (mc, 'rev_step_m3_cdiv', (4, 4), -3, True),
            (mc, 'rev_step2_cdiv', (0, 7), 2, True),       # control
            (md, 'rev_step2', (5, 5), 2, True),            # control: right without cdivision
            (md, 'rev_step_m3', (M - 1, -5), -3, True),
            (md, 'rev_step_m3', (M, -2), -3, True),
            (md, 'rev_step2', (-M - 1, -M), 2, True),
            (md, 'rev_step2', (-3, -M), 2, True),
            (md, 'unsigned_down', (2, U), -1, False),
            (md, 'unsigned_down', (5, 3), -1, False),      # control
        ]
        for mod, fname, args, step, rev in rcases:
            got = call(getattr(mod, fname), *args)
            exp = call(ref, args[0], args[1], step, rev)
            if got != exp:
                bad += 1
                print("DIFF %s%r (step %d): cython %s %r, cpython %s %r" % ((fname, args, step) + got + exp))
    finally:
        shutil.rmtree(workdir, ignore_errors=True)
    print("%d differing cases" % bad)
    return 1 if bad else 0


if __name__ == '__main__':
    sys.exit(main())
