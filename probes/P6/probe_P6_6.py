"""probe_P6_6: reversed() over a stepped C array slice iterates wrongly (C14)."""
import os, sys, shutil, subprocess, sysconfig, tempfile, importlib.util, types

ROOT = os.path.dirname(os.path.abspath(__file__))
sys.path.insert(0, ROOT)


def build(src, name, workdir):
    """Compile `src` (Cython source text) with the compiler of this checkout, return the imported module."""
    from Cython.Compiler.Main import compile as cy_compile, CompilationOptions
    from Cython.Compiler import Options
    pyx = os.path.join(workdir, name + '.pyx')
    with open(pyx, 'w') as f:
        f.write(src)
    res = cy_compile(pyx, CompilationOptions(Options.default_options, language_level=3))
    if res.num_errors:
        raise RuntimeError('cython compilation failed')
    so = os.path.join(workdir, name + '.so')
    cc = os.environ.get('CC', 'gcc')
    subprocess.check_call([cc, '-shared', '-fPIC', '-O1', '-DNDEBUG', '-fwrapv', '-w',
                           '-I', sysconfig.get_paths()['include'],
                           os.path.join(workdir, name + '.c'), '-o', so])
    spec = importlib.util.spec_from_file_location(name, so)
    mod = importlib.util.module_from_spec(spec)
    spec.loader.exec_module(mod)
    return mod


def interpret(src, name):
    """Run the same source text in CPython."""
    mod = types.ModuleType(name)
    exec(compile(src, name + '.py', 'exec'), mod.__dict__)
    return mod


def call(f, *args):
    try:
        return ('returned', f(*args))
    except BaseException as e:
        return ('raised', type(e).__name__)

# ---------------------------------------------------------------------------
# Defect 6: reversed() over a C array slice with a step runs the wrong iterations.
#   reversed(a[0:8:2])  -> no iteration at all      (Python: 6, 4, 2, 0)
#   reversed(a[7:0:-2]) -> no iteration at all      (Python: 1, 3, 5, 7)
#   reversed(a[0:8:-2]) -> 7, 5, 3, 1               (Python: nothing, the slice is empty)
# Reference: the same slice expression on a Python list with the same items.
# ---------------------------------------------------------------------------

SRC = r'''
def rev_step_pos2(Py_ssize_t start, Py_ssize_t stop):
    cdef int[8] a = [0, 1, 2, 3, 4, 5, 6, 7]
    cdef int x = -1
    out = []
    for x in reversed(a[start:stop:2]):
        out.append(x)
    else:
        out.append('else')
    out.append(x)
    return out

def rev_step_pos3(Py_ssize_t start, Py_ssize_t stop):
    cdef int[8] a = [0, 1, 2, 3, 4, 5, 6, 7]
    cdef int x = -1
    out = []
    for x in reversed(a[start:stop:3]):
        out.append(x)
    else:
        out.append('else')
    out.append(x)
    return out

def rev_step_neg2(Py_ssize_t start, Py_ssize_t stop):
    cdef int[8] a = [0, 1, 2, 3, 4, 5, 6, 7]
    cdef int x = -1
    out = []
    for x in reversed(a[start:stop:-2]):
        out.append(x)
    else:
        out.append('else')
    out.append(x)
    return out

def rev_step_neg1(Py_ssize_t start, Py_ssize_t stop):
    cdef int[8] a = [0, 1, 2, 3, 4, 5, 6, 7]
    cdef int x = -1
    out = []
    for x in reversed(a[start:stop:-1]):
        out.append(x)
    else:
        out.append('else')
    out.append(x)
    return out

# for comparison: the forward loops over the same slices are right
def fwd_step_pos2(Py_ssize_t start, Py_ssize_t stop):
    cdef int[8] a = [0, 1, 2, 3, 4, 5, 6, 7]
    cdef int x = -1
    out = []
    for x in a[start:stop:2]:
        out.append(x)
    else:
        out.append('else')
    out.append(x)
    return out

def fwd_step_neg2(Py_ssize_t start, Py_ssize_t stop):
    cdef int[8] a = [0, 1, 2, 3, 4, 5, 6, 7]
    cdef int x = -1
    out = []
    for x in a[start:stop:-2]:
        out.append(x)
    else:
        out.append('else')
    out.append(x)
    return out
'''


def reference(start, stop, step, rev):
    a = [0, 1, 2, 3, 4, 5, 6, 7]
    x = -1
    out = []
    seq = a[start:stop:step]
    for x in (reversed(seq) if rev else seq):
        out.append(x)
    else:
        out.append('else')
    out.append(x)
    return out


def main():
    workdir = tempfile.mkdtemp(prefix='probe_P6_6_')
    bad = total = 0
    try:
        m = build(SRC, 'p6_6', workdir)
        funcs = [('rev_step_pos2', 2, True), ('rev_step_pos3', 3, True), ('rev_step_neg2', -2, True),
                 ('rev_step_neg1', -1, True), ('fwd_step_pos2', 2, False), ('fwd_step_neg2', -2, False)]
        shown = {}
        for fname, step, rev in funcs:
            for start in range(0, 8):          # all indices inside the array
                for stop in range(0, 9):
                    total += 1
                    got = getattr(m, fname)(start, stop)
                    exp = reference(start, stop, step, rev)
                    if got != exp:
                        bad += 1
                        shown[fname] = shown.get(fname, 0) + 1
                        if shown[fname] <= 6 or (start, stop) in ((0, 8), (7, 0)):
                            print("DIFF %s: %sa[%d:%d:%d]%s -> cython %r, cpython %r" % (
                                fname, 'reversed(' if rev else '', start, stop, step, ')' if rev else '', got, exp))
        for fname, n in sorted(shown.items()):
            print("%s: %d of 72 (start, stop) pairs differ" % (fname, n))
    finally:
        shutil.rmtree(workdir, ignore_errors=True)
    print("%d differing cases of %d" % (bad, total))
    return 1 if bad else 0


if __name__ == '__main__':
    sys.exit(main())
