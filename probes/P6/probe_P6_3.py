"""probe_P6_3: same-size dict mutation during an optimised dict loop is not detected (C14)."""
import os, sys, shutil, subprocess, sysconfig, tempfile, importlib.util, types

ROOT = os.path.dirname(os.path.abspath(__file__))
sys.path.insert(0, ROOT)


def build(src, name, workdir):
    """Compile `src` (Cython source text) with the compiler of this checkout, return the imported module."""
    from Cython.Compiler.Main import compile as cy_compile, CompilationOptions
    from Cython.Compiler import Options
    pyx = os.path.join(workdir, name + '.pyx')
    with open(pyx, 'w') as f:
        f.write(src)
    res = cy_compile(pyx, CompilationOptions(Options.default_options, language_level=3))
    if res.num_errors:
        raise RuntimeError('cython compilation failed')
    so = os.path.join(workdir, name + '.so')
    cc = os.environ.get('CC', 'gcc')
    subprocess.check_call([cc, '-shared', '-fPIC', '-O1', '-DNDEBUG', '-fwrapv', '-w',
                           '-I', sysconfig.get_paths()['include'],
                           os.path.join(workdir, name + '.c'), '-o', so])
    spec = importlib.util.spec_from_file_location(name, so)
    mod = importlib.util.module_from_spec(spec)
    spec.loader.exec_module(mod)
    return mod


def interpret(src, name):
    """Run the same source text in CPython."""
    mod = types.ModuleType(name)
    exec(compile(src, name + '.py', 'exec'), mod.__dict__)
    return mod


def call(f, *args):
    try:
        return ('returned', f(*args))
    except BaseException as e:
        return ('raised', type(e).__name__)

# ---------------------------------------------------------------------------
# Defect 3: replacing keys of a dict while iterating over it (size unchanged)
# raises RuntimeError("dictionary keys changed during iteration") in CPython,
# but the optimised dict loop (PyDict_Next + size check only) goes on silently,
# visits the new keys as well and stops at an arbitrary point.
# Plain Python source, run compiled and interpreted.
# ---------------------------------------------------------------------------

SRC = r'''
def rename_keys(d):
    """untyped 'for k in d' is not optimised: no difference expected here"""
    seen = []
    for k in d:
        seen.append(k)
        if len(seen) > 100:
            seen.append('runaway')
            break
        d[str(k) + "'"] = d.pop(k)
    return seen

def rename_keys_items(d):
    seen = []
    for k, v in d.items():
        seen.append(k)
        if len(seen) > 100:
            seen.append('runaway')
            break
        del d[k]
        d[str(k) + "'"] = v
    return seen

def rename_keys_values(d):
    seen = []
    for v in d.values():
        seen.append(v)
        if len(seen) > 100:
            seen.append('runaway')
            break
        del d[v]
        d[str(v) + "'"] = str(v) + "'"
    return seen

def rename_keys_typed(dict d):
    seen = []
    for k in d:
        seen.append(k)
        if len(seen) > 100:
            seen.append('runaway')
            break
        d[str(k) + "'"] = d.pop(k)
    return seen

# size-changing mutation, for comparison (both raise RuntimeError)
def grow(d):
    seen = []
    for k in d:
        seen.append(k)
        d[str(k) + "'"] = 1
    return seen
'''


def main():
    import copy
    workdir = tempfile.mkdtemp(prefix='probe_P6_3_')
    bad = 0
    try:
        cm = build(SRC, 'p6_3', workdir)
        pm = interpret(SRC.replace('dict d', 'd'), 'p6_3')
        for n in (1, 2, 3, 4, 6, 11, 20):
            for fname in ('rename_keys', 'rename_keys_items', 'rename_keys_values', 'rename_keys_typed', 'grow'):
                d1 = {i: i for i in range(n)}
                d2 = dict(d1)
                r1, r2 = call(getattr(cm, fname), d1), call(getattr(pm, fname), d2)
                if r1 != r2 or d1 != d2:
                    bad += 1
                    print("DIFF %s({0..%d}): cython %s %r, cpython %s %r" % ((fname, n - 1) + r1 + r2))
                    if n <= 2:
                        print("       dict afterwards: cython %r, cpython %r" % (d1, d2))
    finally:
        shutil.rmtree(workdir, ignore_errors=True)
    print("%d differing cases" % bad)
    return 1 if bad else 0


if __name__ == '__main__':
    sys.exit(main())
