"""probe_P6_5: optimised set loop over None runs the set C-API on None instead of raising TypeError (C14)."""
import os, sys, shutil, subprocess, sysconfig, tempfile, importlib.util, types

ROOT = os.path.dirname(os.path.abspath(__file__))
sys.path.insert(0, ROOT)


def build(src, name, workdir):
    """Compile `src` (Cython source text) with the compiler of this checkout, return the imported module."""
    from Cython.Compiler.Main import compile as cy_compile, CompilationOptions
    from Cython.Compiler import Options
    pyx = os.path.join(workdir, name + '.pyx')
    with open(pyx, 'w') as f:
        f.write(src)
    res = cy_compile(pyx, CompilationOptions(Options.default_options, language_level=3))
    if res.num_errors:
        raise RuntimeError('cython compilation failed')
    so = os.path.join(workdir, name + '.so')
    cc = os.environ.get('CC', 'gcc')
    subprocess.check_call([cc, '-shared', '-fPIC', '-O1', '-DNDEBUG', '-fwrapv', '-w',
                           '-I', sysconfig.get_paths()['include'],
                           os.path.join(workdir, name + '.c'), '-o', so])
    spec = importlib.util.spec_from_file_location(name, so)
    mod = importlib.util.module_from_spec(spec)
    spec.loader.exec_module(mod)
    return mod


def interpret(src, name):
    """Run the same source text in CPython."""
    mod = types.ModuleType(name)
    exec(compile(src, name + '.py', 'exec'), mod.__dict__)
    return mod


def call(f, *args):
    try:
        return ('returned', f(*args))
    except BaseException as e:
        return ('raised', type(e).__name__)

# ---------------------------------------------------------------------------
# Defect 5: an optimised loop over a variable typed 'set' that holds None
# (None is a legal value of such a variable) does not raise TypeError:
# the set helpers are run on the None object (PySet_Size -> SystemError left pending,
# PySet_GET_SIZE(None) reads past the None object) and the loop ends with
# RuntimeError("set changed size during iteration"); with C assertions enabled
# (no -DNDEBUG) the process aborts in PySet_GET_SIZE.
# The dict counterpart has the None check and raises TypeError.
# ---------------------------------------------------------------------------

SRC = r'''
def loop_set_arg(set s):
    out = []
    for x in s:
        out.append(x)
    return out

def loop_set_local():
    cdef set s = None
    out = []
    for x in s:
        out.append(x)
    return out

def comp_set_arg(set s):
    return [x for x in s]

def loop_set_else(set s):
    for x in s:
        pass
    else:
        return 'else'

# for comparison: the other typed containers
def loop_frozenset_arg(frozenset s):
    return [x for x in s]

def loop_dict_arg(dict s):
    return [x for x in s]

def loop_list_arg(list s):
    return [x for x in s]
'''

PY_SRC = (SRC.replace('set s)', 's)').replace('frozens)', 's)').replace('dict s)', 's)').replace('list s)', 's)')
          .replace('cdef set s = None', 's = None'))

CHILD = r'''
import sys, importlib.util
spec = importlib.util.spec_from_file_location('p6_5', sys.argv[1])
m = importlib.util.module_from_spec(spec); spec.loader.exec_module(m)
fname = sys.argv[2]
f = getattr(m, fname)
try:
    r = f() if fname == 'loop_set_local' else f(None)
    print('returned %r' % (r,))
except BaseException as e:
    print('raised %s' % type(e).__name__)
'''


def main():
    workdir = tempfile.mkdtemp(prefix='probe_P6_5_')
    bad = 0
    try:
        cm = build(SRC, 'p6_5', workdir)
        # second build with C assertions enabled
        so_dbg = os.path.join(workdir, 'dbg', 'p6_5.so')
        os.makedirs(os.path.dirname(so_dbg))
        subprocess.check_call([os.environ.get('CC', 'gcc'), '-shared', '-fPIC', '-O1', '-UNDEBUG', '-fwrapv', '-w',
                               '-I', sysconfig.get_paths()['include'],
                               os.path.join(workdir, 'p6_5.c'), '-o', so_dbg])
        pm = interpret(PY_SRC, 'p6_5')
        child = os.path.join(workdir, 'child.py')
        with open(child, 'w') as f:
            f.write(CHILD)
        for fname in ('loop_set_arg', 'loop_set_local', 'comp_set_arg', 'loop_set_else',
                      'loop_frozenset_arg', 'loop_dict_arg', 'loop_list_arg'):
            ref = call(getattr(pm, fname), *(() if fname == 'loop_set_local' else (None,)))
            ref = '%s %s' % (ref[0], ref[1] if ref[0] == 'raised' else repr(ref[1]))
            for label, path in (('-DNDEBUG', os.path.join(workdir, 'p6_5.so')), ('assertions on', so_dbg)):
                p = subprocess.run([sys.executable, child, path, fname], stdout=subprocess.PIPE,
                                   stderr=subprocess.PIPE, universal_newlines=True)
                if p.returncode != 0:
                    got = 'process died, exit status %d: %s' % (
                        p.returncode, (p.stderr.strip().splitlines() or [''])[-1][-160:])
                else:
                    got = p.stdout.strip()
                if got != ref:
                    bad += 1
                    print("DIFF %s(None) [%s]: cython: %s; cpython: %s" % (fname, label, got, ref))
    finally:
        shutil.rmtree(workdir, ignore_errors=True)
    print("%d differing cases" % bad)
    return 1 if bad else 0


if __name__ == '__main__':
    sys.exit(main())
