"""probe_P6_4: loops over tuple/list displays of mixed numeric types convert the items (C14)."""
import os, sys, shutil, subprocess, sysconfig, tempfile, importlib.util, types

ROOT = os.path.dirname(os.path.abspath(__file__))
sys.path.insert(0, ROOT)


def build(src, name, workdir):
    """Compile `src` (Cython source text) with the compiler of this checkout, return the imported module."""
    from Cython.Compiler.Main import compile as cy_compile, CompilationOptions
    from Cython.Compiler import Options
    pyx = os.path.join(workdir, name + '.pyx')
    with open(pyx, 'w') as f:
        f.write(src)
    res = cy_compile(pyx, CompilationOptions(Options.default_options, language_level=3))
    if res.num_errors:
        raise RuntimeError('cython compilation failed')
    so = os.path.join(workdir, name + '.so')
    cc = os.environ.get('CC', 'gcc')
    subprocess.check_call([cc, '-shared', '-fPIC', '-O1', '-DNDEBUG', '-fwrapv', '-w',
                           '-I', sysconfig.get_paths()['include'],
                           os.path.join(workdir, name + '.c'), '-o', so])
    spec = importlib.util.spec_from_file_location(name, so)
    mod = importlib.util.module_from_spec(spec)
    spec.loader.exec_module(mod)
    return mod


def interpret(src, name):
    """Run the same source text in CPython."""
    mod = types.ModuleType(name)
    exec(compile(src, name + '.py', 'exec'), mod.__dict__)
    return mod


def call(f, *args):
    try:
        return ('returned', f(*args))
    except BaseException as e:
        return ('raised', type(e).__name__)

# ---------------------------------------------------------------------------
# Defect 4: a for-loop over a tuple/list display whose items have different
# numeric types is turned into a loop over a C array of the "spanning" C type,
# so the loop variable receives converted values:
#     for x in (1, 2.5): ...      -> x is 1.0, 2.5      (CPython: 1, 2.5)
#     for x in (a, flag): ...     -> int a=2, bint flag -> x is True, True   (CPython: 2, True)
# Part (a) is plain Python source, run compiled and interpreted.
# ---------------------------------------------------------------------------

SRC_A = r'''
def int_and_float():
    out = []
    for x in (1, 2.5):
        out.append(x)
    return out

def float_first():
    return [x for x in [0.5, 2, 3]]

def repeat():
    out = []
    for n in (3, 0.5):
        out.append('ab' * n if n > 1 else n)
    return out

def as_text():
    return ' '.join([str(x) for x in (1, 2, 2.5)])

def zero():
    out = []
    for x in (-0.0, 0):
        out.append(x)
    return out

def with_enumerate():
    return [(i, x) for i, x in enumerate((10, 0.25))]

def with_reversed():
    return [x for x in reversed([10, 0.25])]

def precision():
    return [x == 9007199254740993 for x in (9007199254740993, 0.5)]

def value_after():
    for x in (7, 1e100):
        break
    return x
'''

SRC_B = r'''
def int_and_double(int a, double b):
    out = []
    for x in (a, b):
        out.append(x)
    return out

def int_and_bint(int a, bint flag):
    out = []
    for x in (a, flag):
        out.append(x)
    return out

def int_and_bint_sum(int a, bint flag):
    total = 0
    for x in (a, flag, a):
        total += x
    return total
'''


def main():
    workdir = tempfile.mkdtemp(prefix='probe_P6_4_')
    bad = 0
    try:
        cm = build(SRC_A, 'p6_4a', workdir)
        pm = interpret(SRC_A, 'p6_4a')
        for fname in ('int_and_float', 'float_first', 'repeat', 'as_text', 'zero', 'with_enumerate',
                      'with_reversed', 'precision', 'value_after'):
            r1, r2 = call(getattr(cm, fname)), call(getattr(pm, fname))
            if repr(r1) != repr(r2):
                bad += 1
                print("DIFF %s(): cython %s %r, cpython %s %r" % ((fname,) + r1 + r2))
        m = build(SRC_B, 'p6_4b', workdir)
        typed = [('int_and_double', (1, 2.5), [1, 2.5]),
                 ('int_and_double', (2 ** 31 - 1, 0.0), [2 ** 31 - 1, 0.0]),
                 ('int_and_bint', (2, True), [2, True]),
                 ('int_and_bint', (-7, False), [-7, False]),
                 ('int_and_bint', (0, True), [0, True]),
                 ('int_and_bint_sum', (5, False), 10)]
        for fname, args, expected in typed:
            got = call(getattr(m, fname), *args)
            if repr(got) != repr(('returned', expected)):
                bad += 1
                print("DIFF %s%r: cython %s %r, python meaning of the loop: %r" % ((fname, args) + got + (expected,)))
    finally:
        shutil.rmtree(workdir, ignore_errors=True)
    print("%d differing cases" % bad)
    return 1 if bad else 0


if __name__ == '__main__':
    sys.exit(main())
